(** C16 - ORG relocates absolute references and nothing else (codegen level).
    Moving the origin by delta moves DollarPosition and every label value by delta; the bytes of a
    relative branch to a label are unchanged (the delta cancels, for every delta in Z), and a data
    field holding a label value moves by exactly delta modulo its width. *)
From Coq Require Import List ZArith String Bool Lia.
From Gosk Require Import Base.Bytes Model.Ast Model.Eval Model.Asm Lemmas.AsmLemmas Lemmas.DataLemmas Lemmas.CodegenLift Model.Encoder.
Import ListNotations.
Local Open Scope Z_scope.

Theorem C16_branch_reloc : forall E m md st dol len delta name l,
  gen_ocode E m (shift_sym delta st) (dol + delta) len (OJcc md name (JLabel l)) = gen_ocode E m st dol len (OJcc md name (JLabel l)).
Proof. exact gen_branch_reloc. Qed.
Print Assumptions C16_branch_reloc.

Theorem C16_label_field_moves : forall delta l st a, lookup l st = Some a -> lookup l (shift_sym delta st) = Some (a + delta).
Proof. intros delta l st a H. rewrite lookup_shift, H. reflexivity. Qed.
Print Assumptions C16_label_field_moves.

(* everything that is neither a branch nor a label field does not see the origin at all *)
Theorem C16_origin_blind : forall E m st dol dol' len o, pos_indep o = true ->
  gen_ocode E m st dol len o = gen_ocode E m st dol' len o.
Proof. intros. apply gen_pos_indep; assumption. Qed.
Print Assumptions C16_origin_blind.

(** whole programs: everything codegen emits for an ocode list made of data, reservations, far jumps, no-operand
    instructions, INT/RET, branches to LABELS and ALIGNB to boundaries the move preserves is byte-identical after
    the program (origin and every label) has been moved by delta - for every delta in Z.  Excluded, because they
    are exactly the absolute references that must move: instructions with operands (C16_label_field_moves) and
    branches to numeric addresses. *)
Theorem C16_codegen_reloc : forall E m st dol delta os acc d, forallb (reloc_ok delta) os = true ->
  codegen E m (shift_sym delta st) (dol + delta) acc d os = codegen E m st dol acc d os.
Proof. intros. apply codegen_reloc. assumption. Qed.
Print Assumptions C16_codegen_reloc.

Example C16_codegen_reloc_runs :
  let os := [OData 1 [1; 2; 3]; OJcc M16 "JMP" (JLabel "l"); OAlignb 4; OJcc M16 "JE" (JLabel "k"); OData 2 [7]] in
  let st := [("l"%string, 31744 + 300); ("k"%string, 31744)] in
  forallb (reloc_ok 1024) os = true
  /\ codegen gosk_encoder M16 (shift_sym 1024 st) (31744 + 1024) [] false os = codegen gosk_encoder M16 st 31744 [] false os
  /\ codegen gosk_encoder M16 st 31744 [] false os = GOk [1; 2; 3; 233; 38; 1; 0; 0; 116; 246; 7; 0] false.
Proof. repeat split; vm_compute; reflexivity. Qed.
