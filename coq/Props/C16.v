(** C16 - ORG relocates absolute references and nothing else (codegen level).
    Moving the origin by delta moves DollarPosition and every label value by delta; the bytes of a
    relative branch to a label are unchanged (the delta cancels, for every delta in Z), and a data
    field holding a label value moves by exactly delta modulo its width. *)
From Coq Require Import List ZArith String Bool Lia.
From Gosk Require Import Base.Bytes Model.Ast Model.Eval Model.Asm Lemmas.AsmLemmas Lemmas.DataLemmas.
Import ListNotations.
Local Open Scope Z_scope.

Theorem C16_branch_reloc : forall E m md st dol len delta name l,
  gen_ocode E m (shift_sym delta st) (dol + delta) len (OJcc md name (JLabel l)) = gen_ocode E m st dol len (OJcc md name (JLabel l)).
Proof. exact gen_branch_reloc. Qed.
Print Assumptions C16_branch_reloc.

Theorem C16_label_field_moves : forall delta l st a, lookup l st = Some a -> lookup l (shift_sym delta st) = Some (a + delta).
Proof. intros delta l st a H. rewrite lookup_shift, H. reflexivity. Qed.
Print Assumptions C16_label_field_moves.

(* everything that is neither a branch nor a label field does not see the origin at all *)
Theorem C16_origin_blind : forall E m st dol dol' len o, pos_indep o = true ->
  gen_ocode E m st dol len o = gen_ocode E m st dol' len o.
Proof. intros. apply gen_pos_indep; assumption. Qed.
Print Assumptions C16_origin_blind.
