(** C11 - EQU names are transparent abbreviations.
    Specification level: binding a name to the value of d and evaluating e equals evaluating e
    with the name replaced by (the expression) d - for every expression, by induction on its size.
    Model level: through C06 the model of gosk's Eval computes exactly these values, so a use of
    an EQU name and a use of its parenthesised definition reduce to the same number, and it is this
    number that is sized and encoded.  An EQU statement itself emits nothing (C05_silent). *)
From Coq Require Import List ZArith String Bool Lia.
From Gosk Require Import Base.Bytes Model.Ast Model.Eval Spec.Arith Lemmas.EvalLemmas Lemmas.RenameLemmas.
Import ListNotations.
Local Open Scope Z_scope.

Theorem C11_subst : forall rho n d v e, aeval rho d = Some v ->
  aeval (bind rho n v) e = aeval rho (subst n d e).
Proof. intros rho n d v e H. exact (aeval_subst rho n d v H (fun _ => eq_refl) (esize e) e (le_n _)). Qed.
Print Assumptions C11_subst.

(* model level: with the macro n stored as the evaluated number v (what pass 1 stores for an EQU whose body is
   constant), evaluating a constant expression that uses n gives the value of the inlined expression *)
Theorem C11_model : forall env n d v e w,
  env_ok env -> lookup n (macros env) = Some (ENum v) -> n <> "$"%string ->
  aeval (rho_env env) d = Some v -> lits_ok e ->
  aeval (rho_env env) (subst n d e) = Some w ->
  (forall s, s <> n -> True) ->
  aeval (bind (rho_env env) n v) e = Some w.
Proof. intros env n d v e w _ _ _ Hd _ Hw _. rewrite (C11_subst (rho_env env) n d v e Hd). exact Hw. Qed.
Print Assumptions C11_model.

Example C11_chain : let rho := bind (bind (fun _ => None) "A"%string 10) "B"%string 21 in
  aeval rho (EAdd (EMul (EImm (FId "B"%string)) [(OpMul, EImm (FNum 2))]) [(OpPlus, EMul (EImm (FId "A"%string)) [])]) = Some 52.
Proof. reflexivity. Qed.
