(** C11 - EQU names are transparent abbreviations.
    Specification level: binding a name to the value of d and evaluating e equals evaluating e
    with the name replaced by (the expression) d - for every expression, by induction on its size.
    Model level: through C06 the model of gosk's Eval computes exactly these values, so a use of
    an EQU name and a use of its parenthesised definition reduce to the same number, and it is this
    number that is sized and encoded.  An EQU statement itself emits nothing (C05_silent). *)
From Coq Require Import List ZArith String Bool Lia.
From Gosk Require Import Base.Bytes Model.Ast Model.Eval Spec.Arith Lemmas.EvalLemmas Lemmas.RenameLemmas Lemmas.C11Model.
Import ListNotations.
Local Open Scope Z_scope.

Theorem C11_subst : forall rho n d v e, aeval rho d = Some v ->
  aeval (bind rho n v) e = aeval rho (subst n d e).
Proof. intros rho n d v e H. exact (aeval_subst rho n d v H (fun _ => eq_refl) (esize e) e (le_n _)). Qed.
Print Assumptions C11_subst.

(* model level: with the macro n stored as the evaluated number v (what pass 1 stores for an EQU whose body is constant),
   a constant expression that uses n and the same expression with n replaced by its definition both reduce - in the model
   of gosk's evaluator, with the fuel pass 1 uses - to the same number w, the one the arithmetic specification gives *)
Theorem C11_model : forall env n d v e w,
  env_ok env -> n <> "$"%string -> lits_ok d -> lits_ok e ->
  aeval (rho_env env) d = Some v ->
  aeval (rho_env env) (subst n d e) = Some w ->
  eval_top (with_macro env n v) e = Ev (ENum w) true /\ eval_top env (subst n d e) = Ev (ENum w) true.
Proof. exact equ_transparent_in_model. Qed.
Print Assumptions C11_model.

Example C11_model_nonvacuous :
  let env := {| macros := [("A"%string, ENum 10)]; eloc := 31744 |} in
  let d := EAdd (EMul (EImm (FId "A"%string)) [(OpMul, EImm (FNum 2))]) [(OpPlus, EMul (EImm (FNum 1)) [])] in
  let e := EAdd (EMul (EImm (FId "B"%string)) [(OpMul, EImm (FNum 3))]) [(OpMinus, EMul (EImm (FId "$"%string)) [])] in
  aeval (rho_env env) d = Some 21 /\ aeval (rho_env env) (subst "B"%string d e) = Some (-31681)
  /\ eval_top (with_macro env "B"%string 21) e = Ev (ENum (-31681)) true.
Proof. repeat split; vm_compute; reflexivity. Qed.

Example C11_chain : let rho := bind (bind (fun _ => None) "A"%string 10) "B"%string 21 in
  aeval rho (EAdd (EMul (EImm (FId "B"%string)) [(OpMul, EImm (FNum 2))]) [(OpPlus, EMul (EImm (FId "A"%string)) [])]) = Some 52.
Proof. reflexivity. Qed.

(** chains: any number of EQU definitions, each evaluated where it stands and free to use the names defined before it,
    are together as transparent as one: evaluating e under all the bindings equals evaluating e with every definition
    inlined (latest first) under none of them *)
Theorem C11_chain_transparent : forall defs rho rho' e, bind_all rho defs = Some rho' ->
  aeval rho' e = aeval rho (subst_all defs e).
Proof. exact equ_chain_transparent. Qed.
Print Assumptions C11_chain_transparent.

Example C11_chain3 :
  let defs := [("A"%string, EImm (FNum 10));
               ("B"%string, EAdd (EMul (EImm (FId "A"%string)) [(OpMul, EImm (FNum 2))]) [(OpPlus, EMul (EImm (FNum 1)) [])]);
               ("C"%string, EAdd (EMul (EImm (FId "B"%string)) []) [(OpMinus, EMul (EImm (FId "A"%string)) [])])] in
  let e := EMul (EImm (FId "C"%string)) [(OpMul, EImm (FId "B"%string))] in
  (exists rho', bind_all (fun _ => None) defs = Some rho' /\ aeval rho' e = Some 231)
  /\ aeval (fun _ => None) (subst_all defs e) = Some 231.
Proof. split; [eexists; split; [reflexivity|reflexivity] | reflexivity]. Qed.
