(** C05 - Data directives emit exactly their operand values.
    Theorems are about Model/Asm.v (pass 1 + codegen of DB/DW/DD/RESB/ALIGNB and the silent
    statements), for every operand list, every value in Z, every count and every residue.
    This file contains statements only; proofs live in Lemmas/. *)
From Coq Require Import List ZArith String Bool.
From Gosk Require Import Base.Bytes Model.Ast Model.Eval Model.Asm Spec.Data Lemmas.DataLemmas Lemmas.C05Lemmas.
Import ListNotations.
Local Open Scope Z_scope.

(** DB: operand list of any length; numbers of any size (low 8 bits), strings byte for byte,
    labels (low byte of the address); the ocode pass 1 records is what codegen turns into exactly
    the specified bytes, no diagnostic is raised, LOC advances by the number of bytes. *)
Theorem C05_db : forall E s ops ds,
  denote_all (db_denote (sym s)) ops = Some ds -> Forall dval_ok ds ->
  data_stmt_spec E 1 db_operand s ops ds.
Proof. exact db_stmt. Qed.
Print Assumptions C05_db.

Theorem C05_dw : forall E s ops ds,
  denote_all (dwd_denote (sym s)) ops = Some ds -> data_stmt_spec E 2 dw_operand s ops ds.
Proof. exact dw_stmt. Qed.
Print Assumptions C05_dw.

Theorem C05_dd : forall E s ops ds,
  denote_all (dwd_denote (sym s)) ops = Some ds -> data_stmt_spec E 4 dd_operand s ops ds.
Proof. exact dd_stmt. Qed.
Print Assumptions C05_dd.

Theorem C05_resb : forall E s n, 0 <= n < 2 ^ 31 ->
  let s' := do_resb s [ENum n] in
  ocodes s' = OResb n :: ocodes s
  /\ (forall m st dol len, gen_ocode E m st dol len (OResb n) = Bytes (repeat 0 (Z.to_nat n)))
  /\ loc s' = int32 (loc s + n) /\ diag s' = diag s.
Proof. exact resb_stmt. Qed.
Print Assumptions C05_resb.

(** ALIGNB: fewest zero bytes to the next multiple of n, at EVERY origin: the only hypothesis relating pass 1 and
    codegen is the LOC invariant loc = origin + bytes emitted so far (C03).  Before fix 9af2c29 in /repo this needed
    the origin to be a multiple of n (gosk padded by output length instead of address). *)
Theorem C05_alignb : forall E s n dol len,
  0 < n < 2 ^ 31 -> Z.land n (n - 1) = 0 -> 0 <= len -> 0 <= loc s -> loc s + n < 2 ^ 31 ->
  loc s = dol + len ->
  let s' := do_alignb s [ENum n] in
  let pad := (n - loc s mod n) mod n in
  is_min_pad (loc s) n pad
  /\ ocodes s' = OAlignb n :: ocodes s
  /\ loc s' = loc s + pad
  /\ (forall m st, gen_ocode E m st dol len (OAlignb n) = Bytes (repeat 0 (Z.to_nat pad))).
Proof. exact alignb_stmt. Qed.
Print Assumptions C05_alignb.

Theorem C05_silent : forall E s st, silent st = true ->
  ocodes (step E s st) = ocodes s /\ loc (step E s st) = loc s.
Proof. exact silent_step. Qed.
Print Assumptions C05_silent.

(** non-vacuity: concrete operand lists meet the hypotheses *)
Example C05_db_example :
  denote_all (db_denote [("l"%string, 31744)]) [ENum (-1); EImm (FStr [104; 105]); EImm (FId "l"%string); ENum 300]
  = Some [DNum (-1); DStr [104; 105]; DAddr 31744; DNum 300]
  /\ spec_data 1 [DNum (-1); DStr [104; 105]; DAddr 31744; DNum 300] = [255; 104; 105; 0; 44].
Proof. split; reflexivity. Qed.

(** the former counter-example (ORG 0x101 / DB 1 / ALIGNB 4: LOC = 0x102, one byte emitted) now pads to the boundary *)
Example C05_alignb_unaligned_origin : forall E m st,
  gen_ocode E m st 257 1 (OAlignb 4) = Bytes [0; 0] /\ (257 + 1 + 2) mod 4 = 0.
Proof. intros. split; reflexivity. Qed.
