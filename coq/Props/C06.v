(** C06 - Constant expressions are evaluated arithmetically.
    [aeval] (Spec/Arith.v) is ordinary 64-bit integer arithmetic on the parse tree:
    products before sums, left to right, truncating division.  The theorems say the model of
    gosk's Eval (Model/Eval.v) reduces every closed constant expression - any depth, any
    literals, EQU names and `$` included - to exactly that value. *)
From Coq Require Import List ZArith String Bool Lia.
From Gosk Require Import Base.Bytes Model.Ast Model.Eval Spec.Arith Lemmas.EvalLemmas.
Import ListNotations.
Local Open Scope Z_scope.

Theorem C06_eval_const : forall env, env_ok env ->
  forall fuel e v, (2 * esize e < fuel)%nat -> lits_ok e ->
  aeval (rho_env env) e = Some v -> eval env fuel e = Ev (ENum v) true.
Proof. exact eval_const_correct. Qed.
Print Assumptions C06_eval_const.

(** the fuel pass 1 and the harness actually use is enough *)
Theorem C06_eval_top : forall env e v, env_ok env -> lits_ok e ->
  aeval (rho_env env) e = Some v -> eval_top env e = Ev (ENum v) true.
Proof.
  intros env e v Hok Hl H. unfold eval_top. apply eval_const_correct; try assumption.
  unfold eval_fuel. lia.
Qed.
Print Assumptions C06_eval_top.

(** the value is always a 64-bit integer (no silent widening) *)
Theorem C06_value_range : forall env, env_ok env -> forall e v, lits_ok e ->
  aeval (rho_env env) e = Some v -> - 2 ^ 63 <= v < 2 ^ 63.
Proof. intros env Hok e v Hl H. exact (aeval_range env Hok (esize e) e v (le_n _) Hl H). Qed.
Print Assumptions C06_value_range.

(** non-vacuity and the rules the statement names: precedence, left associativity,
    truncation toward zero, parentheses, EQU names and `$` *)
Definition env1 : eenv := {| macros := [("K"%string, ENum 10)]; eloc := 31744 |}.
Example C06_env1_ok : env_ok env1.
Proof.
  split; [unfold in_i64; cbn; lia|]. intros s v H. cbn in H.
  destruct (String.eqb s "K"); inversion H; subst. unfold in_i64; lia.
Qed.
Definition n (z : Z) := EImm (FNum z).
Example C06_precedence : aeval (rho_env env1) (EAdd (EMul (n 1) []) [(OpPlus, EMul (n 2) [(OpMul, n 3)])]) = Some 7.
Proof. reflexivity. Qed.
Example C06_left_assoc : aeval (rho_env env1) (EAdd (EMul (n 10) []) [(OpMinus, EMul (n 4) []); (OpMinus, EMul (n 3) [])]) = Some 3
  /\ aeval (rho_env env1) (EAdd (EMul (n 100) [(OpDiv, n 10); (OpDiv, n 5)]) []) = Some 2.
Proof. split; reflexivity. Qed.
Example C06_trunc : aeval (rho_env env1) (EAdd (EMul (n (-7)) [(OpDiv, n 2)]) []) = Some (-3)
  /\ aeval (rho_env env1) (EAdd (EMul (n (-7)) [(OpMod, n 2)]) []) = Some (-1).
Proof. split; reflexivity. Qed.
Example C06_names : aeval (rho_env env1) (EAdd (EMul (EImm (FId "K")) [(OpMul, EAdd (EMul (n 1) []) [(OpPlus, EMul (n 1) [])])]) [(OpPlus, EMul (EImm (FId "$")) [])]) = Some 31764.
Proof. reflexivity. Qed.
Example C06_model_runs : eval_top env1 (EAdd (EMul (EImm (FId "K")) [(OpMul, EAdd (EMul (n 1) []) [(OpPlus, EMul (n 1) [])])]) [(OpPlus, EMul (EImm (FId "$")) [])]) = Ev (ENum 31764) true.
Proof. vm_compute. reflexivity. Qed.
