(** C14 - statements assemble independently of their neighbours (codegen level).
    For ocodes whose bytes do not look at the output length or DollarPosition (everything except
    ALIGNB and relative branches) the emission fold is a plain concatenation, from any starting
    output and any origin: emitting A then B gives bytes(A) ++ bytes(B). *)
From Coq Require Import List ZArith String Bool.
From Gosk Require Import Base.Bytes Model.Ast Model.Asm Lemmas.AsmLemmas.
Import ListNotations.
Local Open Scope Z_scope.

Theorem C14_codegen_concat : forall E m st dol osA osB bA dA bB dB,
  forallb pos_indep osA = true -> forallb pos_indep osB = true ->
  flat_gen E m st osA = Some (bA, dA) -> flat_gen E m st osB = Some (bB, dB) ->
  codegen E m st dol [] false (osA ++ osB) = GOk (bA ++ bB) (dA || dB)
  /\ codegen E m st dol [] false osA = GOk bA dA
  /\ codegen E m st dol [] false osB = GOk bB dB.
Proof.
  intros E m st dol osA osB bA dA bB dB HA HB FA FB.
  repeat split.
  - rewrite (codegen_indep E m st dol (osA ++ osB) [] false (bA ++ bB) (dA || dB)).
    + reflexivity.
    + rewrite forallb_app, HA, HB. reflexivity.
    + apply flat_gen_app; assumption.
  - rewrite (codegen_indep E m st dol osA [] false bA dA HA FA). reflexivity.
  - rewrite (codegen_indep E m st dol osB [] false bB dB HB FB). reflexivity.
Qed.
Print Assumptions C14_codegen_concat.

(* earlier output is never rewritten: the fold only appends *)
Theorem C14_append_only : forall E m st dol os acc d bs d',
  codegen E m st dol acc d os = GOk bs d' -> exists tail, bs = acc ++ tail.
Proof. exact codegen_prefix. Qed.
Print Assumptions C14_append_only.
