(** C14 - statements assemble independently of their neighbours (codegen level).
    For ocodes whose bytes do not look at the output length or DollarPosition (everything except
    ALIGNB and relative branches) the emission fold is a plain concatenation, from any starting
    output and any origin: emitting A then B gives bytes(A) ++ bytes(B). *)
From Coq Require Import List ZArith String Bool.
From Gosk Require Import Base.Bytes Model.Ast Model.Eval Model.Asm Model.Encoder Check.Common Lemmas.AsmLemmas Lemmas.C14Program.
Import ListNotations.
Local Open Scope Z_scope.

Theorem C14_codegen_concat : forall E m st dol osA osB bA dA bB dB,
  forallb pos_indep osA = true -> forallb pos_indep osB = true ->
  flat_gen E m st osA = Some (bA, dA) -> flat_gen E m st osB = Some (bB, dB) ->
  codegen E m st dol [] false (osA ++ osB) = GOk (bA ++ bB) (dA || dB)
  /\ codegen E m st dol [] false osA = GOk bA dA
  /\ codegen E m st dol [] false osB = GOk bB dB.
Proof.
  intros E m st dol osA osB bA dA bB dB HA HB FA FB.
  repeat split.
  - rewrite (codegen_indep E m st dol (osA ++ osB) [] false (bA ++ bB) (dA || dB)).
    + reflexivity.
    + rewrite forallb_app, HA, HB. reflexivity.
    + apply flat_gen_app; assumption.
  - rewrite (codegen_indep E m st dol osA [] false bA dA HA FA). reflexivity.
  - rewrite (codegen_indep E m st dol osB [] false bB dB HB FB). reflexivity.
Qed.
Print Assumptions C14_codegen_concat.

(* earlier output is never rewritten: the fold only appends *)
Theorem C14_append_only : forall E m st dol os acc d bs d',
  codegen E m st dol acc d os = GOk bs d' -> exists tail, bs = acc ++ tail.
Proof. exact codegen_prefix. Qed.
Print Assumptions C14_append_only.

(** Program level.  [closed st]: an instruction, data, RESB, INT, RET or no-operand statement none of whose operands uses `$`
    (labels, EQU, directives, ALIGNB, ORG and relative branches are what the property excludes: they are how statements
    are meant to influence one another).  In either mode, if A and B assemble on their own, A;B assembles to the bytes
    of A followed by the bytes of B, and is diagnosed exactly when one of them is - for any encoder, in particular the
    tabulated gosk encoder. *)
Theorem C14_program_concat : forall (E : encoder) md A B bA dA sA bB dB sB,
  Forall (fun st => closed st = true) A -> Forall (fun st => closed st = true) B ->
  assemble E (hdr md ++ A) = Done bA dA sA -> assemble E (hdr md ++ B) = Done bB dB sB ->
  exists s, assemble E (hdr md ++ A ++ B) = Done (bA ++ bB) (dA || dB) s.
Proof. exact program_concat. Qed.
Print Assumptions C14_program_concat.

(* pass-1 frame behind it: what a closed statement does to any state is what it does to the blank state of the same mode
   and symbol table, appended *)
Theorem C14_statement_frame : forall (E : encoder) s st, closed st = true -> mac s = [] -> stuck s = false ->
  Framed s (step E s st) (step E (canon (bmode s) (sym s)) st).
Proof. exact step_frame. Qed.
Print Assumptions C14_statement_frame.

Local Open Scope string_scope. Local Open Scope list_scope.
Example C14_program_nonvacuous :
  let A := [SMnem "MOV" [ident "AX"; num 1]; SMnem "IMUL" [ident "ECX"; num 4]] in
  let B := [SMnem "DB" [num 1; num 2]; SMnem "ADD" [ident "BX"; num (-128)]] in
  forallb closed (A ++ B) = true /\
  match assemble gosk_encoder (hdr M32 ++ A), assemble gosk_encoder (hdr M32 ++ B), assemble gosk_encoder (hdr M32 ++ A ++ B) with
  | Done a false _, Done b false _, Done ab false _ => (a, b, ab)
  | _, _, _ => ([], [], [])
  end = ([102; 184; 1; 0; 105; 201; 4; 0; 0; 0], [1; 2; 102; 131; 195; 128], [102; 184; 1; 0; 105; 201; 4; 0; 0; 0; 1; 2; 102; 131; 195; 128]).
Proof. split; vm_compute; reflexivity. Qed.
