(** C03 - label and $ values equal the real byte offsets.
    [Inv org s]: the location counter equals origin + the number of bytes that the ocodes recorded
    so far will emit.  It holds initially and is preserved by every statement of the data/label
    fragment (labels, DB/DW/DD over numbers, strings and already-defined labels, RESB), for
    statement sequences of any length; so every label holds origin + bytes really emitted before
    it, and the image has exactly LOC - origin bytes.  For instructions the same invariant needs
    "estimate = emitted length" per statement: proved here for the hand-written branch emitters
    on their domain, refuted beyond it (the C03/C04 findings), and checked on the implementation
    for every other statement kind by walking the image (Check/C03.v). *)
From Coq Require Import List ZArith String Bool.
From Gosk Require Import Base.Bytes Model.Ast Model.Eval Model.Asm Model.Encoder Generated.Tables Spec.Data Lemmas.C05Lemmas Lemmas.C03Lemmas Lemmas.C03General Lemmas.SweepLemmas Lemmas.MemSweepLemmas.
Import ListNotations.
Local Open Scope Z_scope.

Theorem C03_loc_invariant : forall (E : encoder) org s s', Inv org s -> dsteps s s' -> Inv org s'.
Proof. exact inv_steps. Qed.
Print Assumptions C03_loc_invariant.

Theorem C03_labels_exact : forall (E : encoder) org s0 s l, Inv org s0 -> dsteps s0 s ->
  exists bs, all_bytes (rev (ocodes s)) = Some bs /\ lookup l (sym (set_sym s l (loc s))) = Some (org + zlen bs).
Proof. exact label_is_offset. Qed.
Print Assumptions C03_labels_exact.

Theorem C03_total_length : forall (E : encoder) org s0 s m st dol d, Inv org s0 -> dsteps s0 s ->
  exists bs, codegen E m st dol [] d (rev (ocodes s)) = GOk bs d /\ loc s = org + zlen bs.
Proof. exact total_length. Qed.
Print Assumptions C03_total_length.

Theorem C03_init : Inv 0 init_state.
Proof. exact inv_init. Qed.

Theorem C03_size_jmp_short16 : forall rel, -126 <= rel <= 129 -> zlen (gen_jmp M16 rel) = estimate_jump "JMP" M16.
Proof. exact size_jmp_short16. Qed.
Theorem C03_size_jcc_short16 : forall opc rel name, -126 <= rel <= 129 -> name <> "CALL"%string -> zlen (gen_jcc M16 opc rel) = estimate_jump name M16.
Proof. exact size_jcc_short16. Qed.
Theorem C03_size_call16 : forall rel, -32768 <= rel - 3 <= 32767 -> zlen (gen_call M16 rel) = estimate_jump "CALL" M16.
Proof. exact size_call16. Qed.
Theorem C03_size_jmp16_refuted : exists rel, zlen (gen_jmp M16 rel) <> estimate_jump "JMP" M16.
Proof. exact size_jmp16_refuted. Qed.
Print Assumptions C03_size_call16.

Theorem C03_size_int : forall E m st dol len (s : p1state) v, 0 <= v <= 255 -> loc s + 2 < 2 ^ 31 -> - 2 ^ 31 <= loc s ->
  exists bs, gen_ocode E m st dol len (OInt (Some v)) = Bytes bs
             /\ ocodes (do_int s [ENum v]) = OInt (Some v) :: ocodes s
             /\ loc (do_int s [ENum v]) = loc s + zlen bs.
Proof. exact size_int. Qed.
Print Assumptions C03_size_int.


(** General form, for ANY statement kinds: along every run in which each step advances LOC by exactly the number of
    bytes codegen emits for the ocode it records ([sized]: the size-agreement premise, stated against the mode,
    symbol table and origin codegen really runs with), LOC = origin + bytes emitted; hence every label is exact and
    the image length is LOC - origin.  Instruction statements handled through the encoder satisfy [sized] whenever
    estimate = emitted length ([C03_sized_instr]); that premise is then closed by computation on the sweep cells
    ([C03_size_cells_*]: pass-1 LOC after the statement = emitted length, no diagnostic). *)
Theorem C03_general_invariant : forall (E : encoder) m st dol s s', Inv2 E m st dol s -> run E m st dol s s' -> Inv2 E m st dol s'.
Proof. exact inv2_run. Qed.
Print Assumptions C03_general_invariant.

Theorem C03_general_label_exact : forall (E : encoder) m st dol s0 s l, Inv2 E m st dol s0 -> run E m st dol s0 s ->
  exists bs d, codegen E m st dol [] false (rev (ocodes s)) = GOk bs d
               /\ lookup l (sym (set_sym s l (loc s))) = Some (dol + zlen bs).
Proof. exact label_exact. Qed.

Theorem C03_general_image_length : forall (E : encoder) m st dol s0 s, Inv2 E m st dol s0 -> run E m st dol s0 s ->
  exists bs d, codegen E m st dol [] false (rev (ocodes s)) = GOk bs d /\ zlen bs = loc s - dol.
Proof. exact image_length. Qed.
Print Assumptions C03_general_image_length.

Theorem C03_sized_instr : forall (E : encoder) m st dol s op ops n b,
  enc_est E (bmode s) op ops = Some n -> enc_kind_ok E op = true ->
  emitted E m st dol (OInstr (bmode s) op ops) (loc s - dol) = Some b -> zlen b = n ->
  - 2 ^ 31 <= loc s + n < 2 ^ 31 ->
  sized E m st dol s (push_ocode (add_loc (with_diag s (enc_diag E (bmode s) op ops)) n) (OInstr (bmode s) op ops)).
Proof. exact sized_instr. Qed.

(* instances of [sized] proved for all inputs: DB/DW/DD with any operand list, RESB, INT, and JMP/Jcc/CALL to a label in
   16-bit mode on the ranges where pass 1's fixed estimate is right (judged against the label's final value) *)
Theorem C03_sized_data : forall (E : encoder) m st dol w f s ops ds,
  C05Lemmas.data_stmt_spec E w f s ops ds -> - 2 ^ 31 <= loc s + zlen (Spec.Data.spec_data w ds) < 2 ^ 31 ->
  sized E m st dol s (do_data s w f ops).
Proof. exact sized_data. Qed.
Theorem C03_sized_resb : forall (E : encoder) m st dol s n, 0 <= n < 2 ^ 31 -> - 2 ^ 31 <= loc s + n < 2 ^ 31 -> sized E m st dol s (do_resb s [ENum n]).
Proof. exact sized_resb. Qed.
Theorem C03_sized_int : forall (E : encoder) m st dol s v, 0 <= v <= 255 -> loc s + 2 < 2 ^ 31 -> - 2 ^ 31 <= loc s -> sized E m st dol s (do_int s [ENum v]).
Proof. exact sized_int. Qed.
Theorem C03_sized_branch16 : forall (E : encoder) m st dol s name op r lbl d,
  bmode s = M16 ->
  eval_top (env_of s) op = Ev (EImm (FId lbl)) r ->
  lookup lbl st = Some d ->
  (name = "JMP"%string /\ -126 <= d - loc s <= 129
   \/ name = "CALL"%string /\ -32768 <= d - loc s - 3 <= 32767
   \/ (exists opc, name <> "JMP"%string /\ name <> "CALL"%string /\ lookup name Generated.Tables.jcc_table = Some opc /\ -126 <= d - loc s <= 129)) ->
  - 2 ^ 31 <= loc s -> loc s + 3 < 2 ^ 31 ->
  sized E m st dol s (do_jcc s name [op]).
Proof. exact sized_branch16. Qed.
(* 32-bit mode: every JMP / Jcc / CALL to a label, at every distance (the rel32 forms are what pass 1 reserves) *)
Theorem C03_sized_branch32 : forall (E : encoder) m st dol s name op r lbl d,
  bmode s = M32 ->
  eval_top (env_of s) op = Ev (EImm (FId lbl)) r ->
  lookup lbl st = Some d ->
  (name = "JMP"%string \/ name = "CALL"%string
   \/ (exists opc, name <> "JMP"%string /\ name <> "CALL"%string /\ lookup name Generated.Tables.jcc_table = Some opc)) ->
  - 2 ^ 31 <= loc s -> loc s + 6 < 2 ^ 31 ->
  sized E m st dol s (do_jcc s name [op]).
Proof. exact sized_branch32. Qed.
(* far JMP seg:off with numeric sides, both modes: 8 / 7 bytes reserved, 66 EA id iw / EA id iw emitted *)
Theorem C03_sized_farjmp : forall (E : encoder) m st dol s op r dt l r0 sv ov,
  eval_top (env_of s) op = Ev (ESeg dt l (Some r0)) r ->
  far_dt_ok dt = true -> seg_num l = Some sv -> seg_num r0 = Some ov ->
  -32768 <= sv <= 32767 -> - 2 ^ 31 <= ov < 2 ^ 31 ->
  - 2 ^ 31 <= loc s -> loc s + 8 < 2 ^ 31 ->
  sized E m st dol s (do_jcc s "JMP" [op]).
Proof. exact sized_farjmp. Qed.
Print Assumptions C03_sized_farjmp.
(* every no-operand mnemonic of the (regenerated) table: one byte counted, one byte emitted *)
Theorem C03_sized_noparam : forall (E : encoder) m st dol s op b,
  handler_of op = Some "processNoParam"%string -> kind_known op = true -> lookup op Generated.Tables.noparam_table = Some b ->
  - 2 ^ 31 <= loc s -> loc s + 1 < 2 ^ 31 ->
  sized E m st dol s (do_mnemonic E s op []).
Proof. exact sized_noparam. Qed.
Print Assumptions C03_sized_noparam.
Example C03_noparam_nonvacuous : handler_of "PUSHAD" = Some "processNoParam"%string /\ kind_known "PUSHAD" = true
  /\ lookup "PUSHAD"%string Generated.Tables.noparam_table = Some 96.
Proof. repeat split; vm_compute; reflexivity. Qed.
Theorem C03_size_jmp32 : forall rel, zlen (gen_jmp M32 rel) = estimate_jump "JMP" M32.
Proof. exact size_jmp32. Qed.
Theorem C03_size_call32 : forall rel, zlen (gen_call M32 rel) = estimate_jump "CALL" M32.
Proof. exact size_call32. Qed.
Theorem C03_size_jcc32 : forall opc rel name, name <> "JMP"%string -> name <> "CALL"%string -> zlen (gen_jcc M32 opc rel) = estimate_jump name M32.
Proof. exact size_jcc32. Qed.
Print Assumptions C03_sized_branch16.

(* size agreement by computation: memory operands of every shape (with the decoded meaning, see C01/C02) *)
Theorem C03_size_cells_mem16 : forall c, In c sweep_mem16 -> ok013 c = true.
Proof. apply forallb_forall. exact sweep_mem16_ok. Qed.
Theorem C03_size_cells_mem32 : forall c, In c sweep_mem32 -> ok013 c = true.
Proof. apply forallb_forall. exact sweep_mem32_ok. Qed.
Theorem C03_size_cells_imul : forall c, In c sweep_imul -> ok013 c = true.
Proof. apply forallb_forall. exact sweep_imul_ok. Qed.
(* register, immediate, segment-register, stack and port cells *)
Theorem C03_size_cells_reg : forall c, In c (sweep_rr ++ sweep_ri ++ sweep_sreg ++ sweep_stack ++ sweep_push_imm ++ sweep_port) -> ok03 c = true.
Proof. apply forallb_forall. exact sweep_sizes_ok. Qed.
Print Assumptions C03_size_cells_reg.
