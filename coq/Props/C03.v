(** C03 - label and $ values equal the real byte offsets.
    [Inv org s]: the location counter equals origin + the number of bytes that the ocodes recorded
    so far will emit.  It holds initially and is preserved by every statement of the data/label
    fragment (labels, DB/DW/DD over numbers, strings and already-defined labels, RESB), for
    statement sequences of any length; so every label holds origin + bytes really emitted before
    it, and the image has exactly LOC - origin bytes.  For instructions the same invariant needs
    "estimate = emitted length" per statement: proved here for the hand-written branch emitters
    on their domain, refuted beyond it (the C03/C04 findings), and checked on the implementation
    for every other statement kind by walking the image (Check/C03.v). *)
From Coq Require Import List ZArith String Bool.
From Gosk Require Import Base.Bytes Model.Ast Model.Eval Model.Asm Lemmas.C03Lemmas.
Import ListNotations.
Local Open Scope Z_scope.

Theorem C03_loc_invariant : forall (E : encoder) org s s', Inv org s -> dsteps s s' -> Inv org s'.
Proof. exact inv_steps. Qed.
Print Assumptions C03_loc_invariant.

Theorem C03_labels_exact : forall (E : encoder) org s0 s l, Inv org s0 -> dsteps s0 s ->
  exists bs, all_bytes (rev (ocodes s)) = Some bs /\ lookup l (sym (set_sym s l (loc s))) = Some (org + zlen bs).
Proof. exact label_is_offset. Qed.
Print Assumptions C03_labels_exact.

Theorem C03_total_length : forall (E : encoder) org s0 s m st dol d, Inv org s0 -> dsteps s0 s ->
  exists bs, codegen E m st dol [] d (rev (ocodes s)) = GOk bs d /\ loc s = org + zlen bs.
Proof. exact total_length. Qed.
Print Assumptions C03_total_length.

Theorem C03_init : Inv 0 init_state.
Proof. exact inv_init. Qed.

Theorem C03_size_jmp_short16 : forall rel, -126 <= rel <= 129 -> zlen (gen_jmp M16 rel) = estimate_jump "JMP" M16.
Proof. exact size_jmp_short16. Qed.
Theorem C03_size_jcc_short16 : forall opc rel name, -126 <= rel <= 129 -> name <> "CALL"%string -> zlen (gen_jcc opc rel) = estimate_jump name M16.
Proof. exact size_jcc_short16. Qed.
Theorem C03_size_call16 : forall rel, -32768 <= rel - 5 <= 32767 -> zlen (gen_call rel) = estimate_jump "CALL" M16.
Proof. exact size_call16. Qed.
Theorem C03_size_jmp16_refuted : exists rel, zlen (gen_jmp M16 rel) <> estimate_jump "JMP" M16.
Proof. exact size_jmp16_refuted. Qed.
Print Assumptions C03_size_call16.

Theorem C03_size_int : forall E m st dol len (s : p1state) v, 0 <= v <= 255 -> loc s + 2 < 2 ^ 31 -> - 2 ^ 31 <= loc s ->
  exists bs, gen_ocode E m st dol len (OInt (Some v)) = Bytes bs
             /\ ocodes (do_int s [ENum v]) = OInt (Some v) :: ocodes s
             /\ loc (do_int s [ENum v]) = loc s + zlen bs.
Proof. exact size_int. Qed.
Print Assumptions C03_size_int.
