(** C15 - symbol names are arbitrary (model level).
    Names reach the bytes only through exact-string lookups in the symbol table.  Under any
    renaming that is injective on the names in use, the renamed table answers the renamed name
    exactly as the original table answers the original name (names that are prefixes of one
    another or differ in case are simply different strings), and therefore every branch and data
    ocode produces the same bytes. *)
From Coq Require Import List ZArith String Bool.
From Gosk Require Import Base.Bytes Model.Ast Model.Eval Model.Asm Lemmas.RenameLemmas Lemmas.CodegenLift.
Import ListNotations.
Local Open Scope Z_scope.

Theorem C15_lookup_rename : forall (f : string -> string) (st : symtab) l,
  (forall k, In k (map fst st) -> f k = f l -> k = l) ->
  lookup (f l) (rename_sym f st) = lookup l st.
Proof. intros. apply lookup_rename. assumption. Qed.
Print Assumptions C15_lookup_rename.

Theorem C15_ocode_rename : forall E m st dol len f o,
  (forall l k, In k (map fst st) -> f k = f l -> k = l) ->
  match o with OInstr _ _ _ => False | _ => True end ->
  gen_ocode E m (rename_sym f st) dol len (rename_ocode f o) = gen_ocode E m st dol len o.
Proof. exact gen_rename. Qed.
Print Assumptions C15_ocode_rename.

(* a, aa, a_ and A stay four different symbols *)
Example C15_family : let st := [("a", 1); ("aa", 2); ("a_", 3); ("A", 4)]%string in
  (lookup "a" st, lookup "aa" st, lookup "a_" st, lookup "A" st)%string = (Some 1, Some 2, Some 3, Some 4).
Proof. reflexivity. Qed.

(** whole programs: the bytes codegen emits for any list of non-operand ocodes are the same after a renaming that is
    injective on the names in use has been applied to the symbol table and to every branch target *)
Theorem C15_codegen_rename : forall E m st dol f, (forall l k, In k (map fst st) -> f k = f l -> k = l) ->
  forall os acc d, forallb no_instr os = true ->
  codegen E m (rename_sym f st) dol acc d (map (rename_ocode f) os) = codegen E m st dol acc d os.
Proof. exact codegen_rename. Qed.
Print Assumptions C15_codegen_rename.
