From Coq Require Import List ZArith.
From Gosk Require Import Base.Bytes.
