(** C07 - nothing is dropped silently (model level: the registry partition).
    Over the registries regenerated from /repo on every run (pass-1 handler table, ocode kinds,
    codegen dispatch, no-operand opcode map, grammar mnemonic list):
    - a grammar mnemonic without a pass-1 handler is diagnosed ("error: No handler found");
    - a mnemonic whose handler advances LOC but whose ocode kind does not exist is rejected by
      Emit: this set is exactly ADC, DEC, INC, NEG, SBB; since fix e3d2ac2 the rejection is
      reported at error level (it used to be silent);
    - every other handled mnemonic reaches a codegen case or the one-byte table.
    If the source changes any of these sets the theorem no longer checks. *)
From Coq Require Import List ZArith String Bool.
From Gosk Require Import Base.Bytes Model.Ast Model.Eval Model.Asm Generated.Tables Lemmas.CodegenLift.
Import ListNotations.
Local Open Scope string_scope.

Definition pseudo (h : string) := existsb (String.eqb h) ["processORG"; "processGLOBAL"; "processEXTERN"].
Definition silently_dropped (* name kept: the set Emit rejects *) : list string :=
  map fst (filter (fun kv => negb (pseudo (snd kv)) && negb (kind_known (fst kv))) pass1_handlers).
Definition has_codegen (n : string) : bool :=
  match lookup n noparam_table with Some _ => true | None => match lookup n codegen_dispatch with Some _ => true | None => false end end.
Definition undispatched : list string :=
  map fst (filter (fun kv => negb (pseudo (snd kv)) && kind_known (fst kv) && negb (has_codegen (fst kv))) pass1_handlers).

Theorem C07_dropped_set : silently_dropped = ["ADC"; "DEC"; "INC"; "NEG"; "SBB"].
Proof. vm_compute. reflexivity. Qed.
Print Assumptions C07_dropped_set.

Theorem C07_every_kind_dispatched : undispatched = [].
Proof. vm_compute. reflexivity. Qed.
Print Assumptions C07_every_kind_dispatched.

(* a mnemonic without handler always raises the diagnostic flag and neither moves LOC nor emits *)
Theorem C07_unknown_mnemonic_diagnosed : forall E s op ops, handler_of op = None ->
  diag (do_mnemonic E s op ops) = true /\ loc (do_mnemonic E s op ops) = loc s /\ ocodes (do_mnemonic E s op ops) = ocodes s.
Proof. intros E s op ops H. unfold do_mnemonic. rewrite H. repeat split. Qed.
Print Assumptions C07_unknown_mnemonic_diagnosed.

(* after fix e3d2ac2 the formerly silent drop is diagnosed: LOC advances, no ocode is recorded, the diagnostic flag is raised *)
Theorem C07_rejected_ocode_diagnosed : forall E s op ops n,
  In op silently_dropped -> enc_unmodelled E (bmode s) op ops = false -> enc_est E (bmode s) op ops = Some n ->
  enc_kind_ok E op = false ->
  let s' := do_mnemonic E s op ops in ocodes s' = ocodes s /\ diag s' = true /\ loc s' = int32 (loc s + n).
Proof.
  intros E s op ops n Hin Hu He Hk. rewrite C07_dropped_set in Hin. cbn [In] in Hin.
  destruct Hin as [<-|[<-|[<-|[<-|[<-|[]]]]]]; cbn zeta; unfold do_mnemonic;
    match goal with |- context [handler_of ?x] => let h := eval vm_compute in (handler_of x) in change (handler_of x) with h end;
    cbn [String.eqb Ascii.eqb Bool.eqb]; rewrite Hu, He, Hk; unfold with_diag; destruct (enc_diag E (bmode s) _ ops); repeat split.
Qed.
Print Assumptions C07_rejected_ocode_diagnosed.

(* a far pointer operand (seg:off) on a branch mnemonic other than JMP - CALL seg:off, JE seg:off ... - is never turned into
   code: no ocode is recorded and the diagnostic flag is raised (there is no far ocode but JMP_FAR) *)
Theorem C07_far_operand_only_on_jmp : forall s name op dt l r0 r,
  name <> "JMP"%string -> eval_top (env_of s) op = Ev (ESeg dt l (Some r0)) r ->
  ocodes (do_jcc s name [op]) = ocodes s /\ diag (do_jcc s name [op]) = true.
Proof.
  intros s name op dt l r0 r Hn He. unfold do_jcc. rewrite He.
  apply String.eqb_neq in Hn. rewrite Hn.
  destruct (if far_dt_ok dt then seg_num l else None); destruct (seg_num r0); split; reflexivity.
Qed.
Print Assumptions C07_far_operand_only_on_jmp.

(** program level: the final "diagnosed" flag of codegen cannot miss a statement.  If an ocode is diagnosed wherever it
    stands, then after ANY prefix and before ANY suffix of ocodes the whole emission ends with the flag raised (or does
    not end normally at all): later statements cannot clear it. *)
Theorem C07_diag_reaches_end : forall E m st dol o,
  (forall len, exists b, gen_ocode E m st dol len o = BytesDiag b) ->
  forall os1 os2 acc d bs d', codegen E m st dol acc d (os1 ++ o :: os2) = GOk bs d' -> d' = true.
Proof. exact codegen_diag_reaches_end. Qed.
Print Assumptions C07_diag_reaches_end.

(* instances reachable from source text: a branch whose operand is neither a label nor a number (JText), a far jump with
   unencodable sides, RESB with a negative count, INT with a vector outside 0..255 - wherever they stand in the program.
   NOT an instance: a branch to a label defined nowhere; pass 1 enters such a name with value 0 and codegen finds it
   (known finding C07-silent-table, "JMP nosuchname"). *)
Theorem C07_unencodable_statements_flagged : forall E m st dol o,
  (exists md name, o = OJcc md name JText) \/ (exists n : Z, (n < 0)%Z /\ o = OResb n) \/ (exists z : Z, ~ (0 <= z <= 255)%Z /\ o = OInt (Some z)) \/ o = OJmpFarText ->
  forall os1 os2 acc d bs d', codegen E m st dol acc d (os1 ++ o :: os2) = GOk bs d' -> d' = true.
Proof. exact unencodable_statements_flagged. Qed.
Print Assumptions C07_unencodable_statements_flagged.
