(** C01 - emitted bytes decode to exactly the source instruction.
    [ok01 (m, st)]: the model assembles the one-statement program [st] in mode m without
    diagnostic and the bytes, decoded by the ISA specification Spec/X86.v under mode m, are exactly
    the instruction Spec/Denote.v says the statement means (same operation, registers in the same
    roles, operand size, immediate modulo the operand width) with exactly the emitted length.
    Closed by computation over the FindEncoding table that is re-tabulated from the implementation
    on every run: ALL 8 registers of each width in BOTH positions for MOV and the six ALU operations,
    every register with every boundary immediate representable in the operand width, the
    stack and port forms, in both modes.  Memory operands: C02.  The cells left out are exactly the
    known findings (refuted below on the model). *)
From Coq Require Import List ZArith String Bool.
From Gosk Require Import Base.Bytes Model.Ast Model.Asm Model.X86Enc Model.Encoder Spec.X86 Spec.Denote Check.C01 Lemmas.SweepLemmas Lemmas.MemSweepLemmas.
Import ListNotations.
Local Open Scope Z_scope.

Theorem C01_reg_reg : forall c, In c sweep_rr -> ok01 c = true.
Proof. apply forallb_forall. exact sweep_rr_ok. Qed.
Print Assumptions C01_reg_reg.

Theorem C01_reg_imm : forall c, In c sweep_ri -> ok01 c = true.
Proof. apply forallb_forall. exact sweep_ri_ok. Qed.
Print Assumptions C01_reg_imm.

Theorem C01_stack : forall c, In c sweep_stack -> ok01 c = true.
Proof. apply forallb_forall. exact sweep_stack_ok. Qed.
Theorem C01_push_imm : forall c, In c sweep_push_imm -> ok01 c = true.
Proof. apply forallb_forall. exact sweep_push_imm_ok. Qed.
(* memory operands at statement level: every 16-bit shape and all 261 32-bit shapes x boundary displacements x carriers
   (untyped load/store, r32 ALU, typed immediate forms), both modes; the displacement is universally quantified at the
   ModR/M level in C02 *)
Theorem C01_mem16 : forall c, In c sweep_mem16 -> ok013 c = true.
Proof. apply forallb_forall. exact sweep_mem16_ok. Qed.
Theorem C01_mem16_in_bits32 : forall c, In c sweep_mem16_in32 -> ok013 c = true.
Proof. apply forallb_forall. exact sweep_mem16_in32_ok. Qed.
Theorem C01_mem32 : forall c, In c sweep_mem32 -> ok013 c = true.
Proof. apply forallb_forall. exact sweep_mem32_ok. Qed.
Theorem C01_imul_imm : forall c, In c sweep_imul -> ok013 c = true.
Proof. apply forallb_forall. exact sweep_imul_ok. Qed.
Theorem C01_shift_not_stackmem : forall c, In c sweep_shift -> ok013 c = true.
Proof. apply forallb_forall. exact sweep_shift_ok. Qed.
Theorem C01_port : forall c, In c sweep_port -> ok01 c = true.
Proof. apply forallb_forall. exact sweep_port_ok. Qed.
Print Assumptions C01_port.

Example C01_sweep_sizes : (Datatypes.length sweep_rr, Datatypes.length sweep_stack) = (2688%nat, 64%nat).
Proof. vm_compute. reflexivity. Qed.

(* MOV AX,0x8000 in 16-bit mode (formerly a bogus 66h prefix chosen from the size class of the immediate) is an ordinary
   cell of sweep_ri since the Require66h fix in /repo *)
Example C01_imm_class_cell : model_bytes 16 (SMnem "MOV" [ident "AX"; num 32768])%string = Some [184; 0; 128]
  /\ check_c01 (16, SMnem "MOV" [ident "AX"; num 32768], [184; 0; 128])%string = 0.
Proof. split; vm_compute; reflexivity. Qed.
(* MOV r16,Sreg / Sreg,r16 for every pair (MOV AX,DS used to encode BX: fixed by 554c083 in /repo) *)
Theorem C01_sreg : forall c, In c sweep_sreg -> ok01 c = true.
Proof. apply forallb_forall. exact sweep_sreg_ok. Qed.
Print Assumptions C01_sreg.
Example C01_mov_ax_ds : model_bytes 16 (SMnem "MOV" [ident "AX"; ident "DS"])%string = Some [140; 216].
Proof. vm_compute. reflexivity. Qed.
