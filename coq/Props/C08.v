(** C08 - WCOFF output is a structurally valid COFF object (writer-side layout theorems).
    For every code length, file name, GLOBAL list and symbol table the model of the writer produces
    header (140 bytes: file header + three section headers) ++ .text ++ 18-byte records ++ string
    table; the file length is exactly 140 + |.text| + 18 * (records incl. aux) + 4 + |strtab|, the
    NumberOfSymbols field is that record count, the symbol-table pointer and the .text raw-data
    pointer/size are the real offsets, the string-table size field is its real size.  The
    independent reader Spec/CoffRead.v is run on gosk's own objects on every check. *)
From Coq Require Import List ZArith String Bool.
From Gosk Require Import Base.Bytes Model.Ast Model.Eval Model.Coff Lemmas.CoffLemmas.
Import ListNotations.
Local Open Scope Z_scope.

Theorem C08_shape : forall text srcfile globals symtab,
  exists entries strtab,
    coff_write text srcfile globals symtab
    = hdr_of (zlen text) (nrecords entries) ++ text ++ flat_map pack_sym entries ++ le 4 (zlen strtab + 4) ++ strtab
    /\ entries = fixed_entries (zlen text) srcfile ++ sort_stable (fst (global_entries symtab globals ([], [])))
    /\ strtab = fst (snd (global_entries symtab globals ([], []))).
Proof. exact coff_write_shape. Qed.
Print Assumptions C08_shape.

Theorem C08_length : forall text srcfile globals symtab,
  exists entries strtab,
    zlen (coff_write text srcfile globals symtab) = 140 + zlen text + 18 * nrecords entries + 4 + zlen strtab
    /\ entries = fixed_entries (zlen text) srcfile ++ sort_stable (fst (global_entries symtab globals ([], [])))
    /\ strtab = fst (snd (global_entries symtab globals ([], []))).
Proof. exact coff_write_length. Qed.
Print Assumptions C08_length.

(* every symbol record, auxiliary records included, is 18 bytes *)
Theorem C08_records : forall es, Forall entry_ok es -> zlen (flat_map pack_sym es) = 18 * nrecords es.
Proof. exact flat_pack_length. Qed.
Print Assumptions C08_records.

Theorem C08_header_is_140 : forall t n, Datatypes.length (hdr_of t n) = 140%nat.
Proof. exact hdr_length. Qed.
Print Assumptions C08_header_is_140.
