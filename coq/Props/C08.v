(** C08 - WCOFF output is a structurally valid COFF object (writer-side layout theorems).
    For every code length, file name, GLOBAL list and symbol table the model of the writer produces
    header (140 bytes: file header + three section headers) ++ .text ++ 18-byte records ++ string
    table; the file length is exactly 140 + |.text| + 18 * (records incl. aux) + 4 + |strtab|, the
    NumberOfSymbols field is that record count, the symbol-table pointer and the .text raw-data
    pointer/size are the real offsets, the string-table size field is its real size.  The
    independent reader Spec/CoffRead.v is run on gosk's own objects on every check. *)
From Coq Require Import List ZArith String Bool.
From Gosk Require Import Base.Bytes Model.Ast Model.Eval Model.Coff Spec.CoffRead Lemmas.CoffLemmas Lemmas.CoffRoundTrip.
Import ListNotations.
Local Open Scope Z_scope.

Theorem C08_shape : forall text srcfile globals symtab,
  exists entries strtab,
    coff_write text srcfile globals symtab
    = hdr_of (zlen text) (nrecords entries) ++ text ++ flat_map pack_sym entries ++ le 4 (zlen strtab + 4) ++ strtab
    /\ entries = fixed_entries (zlen text) srcfile ++ sort_stable (fst (global_entries symtab globals ([], [])))
    /\ strtab = fst (snd (global_entries symtab globals ([], []))).
Proof. exact coff_write_shape. Qed.
Print Assumptions C08_shape.

Theorem C08_length : forall text srcfile globals symtab,
  exists entries strtab,
    zlen (coff_write text srcfile globals symtab) = 140 + zlen text + 18 * nrecords entries + 4 + zlen strtab
    /\ entries = fixed_entries (zlen text) srcfile ++ sort_stable (fst (global_entries symtab globals ([], [])))
    /\ strtab = fst (snd (global_entries symtab globals ([], []))).
Proof. exact coff_write_length. Qed.
Print Assumptions C08_length.

(* every symbol record, auxiliary records included, is 18 bytes *)
Theorem C08_records : forall es, Forall entry_ok es -> zlen (flat_map pack_sym es) = 18 * nrecords es.
Proof. exact flat_pack_length. Qed.
Print Assumptions C08_records.

Theorem C08_header_is_140 : forall t n, Datatypes.length (hdr_of t n) = 140%nat.
Proof. exact hdr_length. Qed.
Print Assumptions C08_header_is_140.

(** read . write: the independent reader Spec/CoffRead.v accepts EVERY object the writer model produces - for every code
    section, source file name, GLOBAL list (names non-empty and NUL-free) and symbol table, as long as the file stays below
    4 GiB (the format's 32-bit fields) - finds it well-formed in the three-section layout (machine 014Ch, record count =
    NumberOfSymbols, string table ending the file exactly, .text raw data between the headers and the symbol table), reads
    back .text byte for byte, and reads the symbol table back as the records written, every name resolved - inline or through
    the string table - to the name that was declared. *)
Theorem C08_read_write : forall text srcfile globals symtab,
  let f := coff_write text srcfile globals symtab in
  let entries := entries_of text srcfile globals symtab in
  let strtab := strtab_of globals symtab in
  Forall name_ok globals -> zlen f < 2 ^ 32 ->
  exists o,
    coff_read f = Some o /\ wellformed f o = true /\ text_of f o = Some text
    /\ o_symbols o = map (sym_of (fun e => name_in strtab (se_name e))) entries
    /\ Forall2 (gentry_ok symtab strtab) (fst (global_entries symtab globals ([], []))) globals.
Proof. exact coff_read_write. Qed.
Print Assumptions C08_read_write.

(* non-vacuity: a long name goes through the string table and comes back *)
Example C08_read_write_example :
  let f := coff_write [195] [97] ["_io_hlt"; "_a_rather_long_name"]%string [("_io_hlt", 0); ("_a_rather_long_name", 1)]%string in
  match coff_read f with
  | Some o => map y_name (skipn 4 (o_symbols o)) = map bytes_of_string ["_io_hlt"; "_a_rather_long_name"]%string /\ wellformed f o = true
  | None => False
  end.
Proof. vm_compute. split; reflexivity. Qed.
