(** C18 - compact encodings are chosen where the ISA offers them.
    [ok18 (m, st)]: the bytes the model emits for st in mode m are no longer than the shortest valid
    encoding of the denoted instruction (Spec/X86Len.v: sign-extended imm8 form 83 /r ib,
    accumulator-immediate forms, register-in-opcode MOV/PUSH/POP).  Closed by computation over the
    re-tabulated FindEncoding table for MOV and the six ALU operations x every register of every
    width x immediates on both sides of -128/127 (and further boundary values) x both modes, and
    for PUSH/POP of every 16/32-bit register. *)
From Coq Require Import List ZArith String Bool.
From Gosk Require Import Base.Bytes Model.Ast Model.Asm Spec.X86Len Check.C01 Lemmas.SweepLemmas Lemmas.C18MemLemmas.
Import ListNotations.
Local Open Scope Z_scope.

Theorem C18_reg_imm_shortest : forall c, In c sweep_ri18 -> ok18 c = true.
Proof. apply forallb_forall. exact sweep_ri_short. Qed.
Print Assumptions C18_reg_imm_shortest.

Theorem C18_stack_shortest : forall c, In c sweep_stack -> ok18 c = true.
Proof. apply forallb_forall. exact sweep_stack_short. Qed.
Print Assumptions C18_stack_shortest.

(* memory destinations: ADD/OR/AND/SUB/XOR/CMP BYTE|WORD|DWORD [m], imm for every 16-bit addressing shape in both modes, the
   absolute forms and a cross-section of the 32-bit shapes, immediates on both sides of -128/127 and of 255/256 *)
Theorem C18_mem_imm_shortest : forall c, In c sweep_mi18 -> ok18 c = true.
Proof. apply forallb_forall. exact sweep_mi18_short. Qed.
Print Assumptions C18_mem_imm_shortest.
Example C18_mem_domain_size : Z.of_nat (Datatypes.length sweep_mi18) = 23328.
Proof. exact sweep_mi18_size. Qed.

(* the boundary named by the property: ADD BX,-128 takes the sign-extended imm8 form *)
Example C18_boundary : model_bytes 16 (SMnem "ADD" [ident "BX"; num (-128)])%string = Some [131; 195; 128]
  /\ model_bytes 32 (SMnem "CMP" [ident "ESI"; num 127])%string = Some [131; 254; 127].
Proof. split; vm_compute; reflexivity. Qed.

(* outside the domain: an immediate written as an unsigned value whose low 16 bits are a sign-extended int8 keeps the
   full-width form (81 /0 iw, 4 bytes) although 83 /0 ib (3 bytes) encodes the same instruction *)
Theorem C18_unsigned_imm_refuted : model_bytes 16 (SMnem "ADD" [ident "CX"; num 65535])%string = Some [129; 193; 255; 255]
  /\ ok18 (16, SMnem "ADD" [ident "CX"; num 65535])%string = false.
Proof. split; vm_compute; reflexivity. Qed.
Example C18_domain_size : (Z.of_nat (Datatypes.length sweep_ri), Z.of_nat (Datatypes.length sweep_ri18)) = (5264, 4880).
Proof. vm_compute. reflexivity. Qed.
