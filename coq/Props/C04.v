(** C04 - Relative branches land exactly on their targets.
    [lands m k addr dest bs rest]: the bytes [bs] (followed by anything) decode under the ISA
    branch decoder Spec/Branch.v to a branch of kind [k] of exactly the emitted length that
    transfers control to [dest].  Proved for every address and every target (all of Z): since the
    fixes in /repo (rel8 chosen from its displacement; displacement length following the operand
    size; 66h-prefixed rel32 forms with the prefix counted) EVERY JMP, every one of the sixteen
    conditional jumps and every CALL lands, in both modes, at every distance below 2 GiB - with the
    rel16 wrap-around points of 16-bit mode excluded (they land modulo 64 KiB, which this statement
    does not claim).  What remains wrong about branches is their SIZE in pass 1 (C03 findings), not
    where they go. *)
From Coq Require Import List ZArith String Bool Lia.
From Gosk Require Import Base.Bytes Model.Ast Model.Eval Model.Asm Spec.Branch Generated.Tables Lemmas.BranchLemmas Lemmas.AsmLemmas Lemmas.C04Program.
Import ListNotations.
Local Open Scope Z_scope.

Theorem C04_jmp_total : forall m addr dest rest, let rel := dest - addr in
  - 2 ^ 31 + 6 <= rel < 2 ^ 31 -> rel - 2 <> -32768 ->
  lands m BJmp addr dest (gen_jmp m rel) rest.
Proof. exact jmp_total_lands. Qed.
Print Assumptions C04_jmp_total.

Theorem C04_jcc_total : forall m opc addr dest rest, In opc jcc_opcodes -> let rel := dest - addr in
  - 2 ^ 31 + 7 <= rel < 2 ^ 31 -> ~ (-32768 <= rel - 2 <= -32767) ->
  lands m (BJcc (opc - 112)) addr dest (gen_jcc m opc rel) rest.
Proof. exact jcc_total_lands. Qed.
Print Assumptions C04_jcc_total.

Theorem C04_call_total : forall m addr dest rest, let rel := dest - addr in - 2 ^ 31 + 6 <= rel < 2 ^ 31 ->
  lands m BCall addr dest (gen_call m rel) rest.
Proof. exact call_total_lands. Qed.
Print Assumptions C04_call_total.

(* the individual forms *)
Theorem C04_jmp_short : forall addr dest rest, let rel := dest - addr in -126 <= rel <= 129 ->
  lands M16 BJmp addr dest (gen_jmp M16 rel) rest.
Proof. exact jmp_short_lands. Qed.
Theorem C04_jcc_short : forall opc addr dest rest, In opc jcc_opcodes -> let rel := dest - addr in -126 <= rel <= 129 ->
  lands M16 (BJcc (opc - 112)) addr dest (gen_jcc M16 opc rel) rest.
Proof. exact jcc_short_lands. Qed.
Theorem C04_jmp16_far : forall addr dest rest, let rel := dest - addr in
  ~ (-32768 <= rel - 2 <= 32767) -> - 2 ^ 31 <= rel - 6 < 2 ^ 31 ->
  lands M16 BJmp addr dest (gen_jmp M16 rel) rest.
Proof. exact jmp16_far_lands. Qed.
Theorem C04_call16 : forall addr dest rest, let rel := dest - addr in -32768 <= rel - 3 <= 32767 ->
  lands M16 BCall addr dest (gen_call M16 rel) rest.
Proof. exact call16_lands. Qed.
Theorem C04_jmp32 : forall addr dest rest, let rel := dest - addr in - 2 ^ 31 <= rel - 5 < 2 ^ 31 ->
  lands M32 BJmp addr dest (gen_jmp M32 rel) rest.
Proof. exact jmp32_lands. Qed.

(** the encoded condition is the one named, for all 30 conditional mnemonics (synonyms included);
    re-proved against the table regenerated from x86gen_jmp.go on every run *)
Theorem C04_cc_table : forall n, In n jcc_names ->
  exists opc c, lookup n jcc_table = Some opc /\ cc_of_name n = Some c /\ opc = 112 + c /\ In opc jcc_opcodes.
Proof. exact cc_table_sound. Qed.
Print Assumptions C04_cc_table.

Example C04_nonvacuous : lands M16 BJmp 31744 31750 (gen_jmp M16 6) [171].
Proof. apply (jmp_short_lands 31744 31750 [171]). cbn. lia. Qed.
(* the two cases that used to go wrong: a target 128 bytes back (rel8 wrapped), and a 16-bit JMP beyond 32 KiB *)
Example C04_formerly_wrong : lands M16 BJmp 200 72 (gen_jmp M16 (-128)) [] /\ lands M16 BJmp 0 49664 (gen_jmp M16 49664) [].
Proof.
  split.
  - apply (jmp_total_lands M16 200 72 []); cbn; lia.
  - apply (jmp_total_lands M16 0 49664 []); cbn; lia.
Qed.

(** In the image (whole programs, any encoder, any other statements around): the bytes the emission fold writes for a
    JMP / Jcc / CALL to a label are in the final image at the offset the fold had reached, and decode there to a branch of
    the named kind landing on the value the symbol table holds for the label - which C03 shows to be the label's real
    offset whenever the sizes agree. *)
Theorem C04_image_branch_lands : forall (E : encoder) m st dol os1 md name l os2 bs d dest k,
  codegen E m st dol [] false (os1 ++ OJcc md name (JLabel l) :: os2) = GOk bs d ->
  lookup l st = Some dest -> kind_of name = Some k ->
  (name = "JMP" \/ name = "CALL" \/ In name jcc_names)%string ->
  exists b1 d1 b rest, codegen E m st dol [] false os1 = GOk b1 d1 /\ bs = b1 ++ b ++ rest /\
    let addr := dol + zlen b1 in let rel := dest - addr in
    (- 2 ^ 31 + 7 <= rel < 2 ^ 31 -> ~ (-32768 <= rel - 2 <= -32767) -> lands md k addr dest b rest).
Proof. exact image_branch_lands. Qed.
Print Assumptions C04_image_branch_lands.
