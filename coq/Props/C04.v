(** C04 - Relative branches land exactly on their targets.
    [lands m k addr dest bs rest]: the bytes [bs] (followed by anything) decode under the ISA
    branch decoder Spec/Branch.v to a branch of kind [k] of exactly the emitted length that
    transfers control to [dest].  Proved for every address and every target (all of Z) on the
    domain where gosk's form selection is right; the companion refutation and the known-findings
    file delimit the rest. *)
From Coq Require Import List ZArith String Bool.
From Gosk Require Import Base.Bytes Model.Eval Model.Asm Spec.Branch Generated.Tables Lemmas.BranchLemmas.
Import ListNotations.
Local Open Scope Z_scope.

Theorem C04_jmp_short : forall m addr dest rest, let rel := dest - addr in -126 <= rel <= 129 ->
  lands m BJmp addr dest (gen_jmp m rel) rest.
Proof. exact jmp_short_lands. Qed.
Print Assumptions C04_jmp_short.

Theorem C04_jcc_short : forall m opc addr dest rest, In opc jcc_opcodes -> let rel := dest - addr in -126 <= rel <= 129 ->
  lands m (BJcc (opc - 112)) addr dest (gen_jcc opc rel) rest.
Proof. exact jcc_short_lands. Qed.
Print Assumptions C04_jcc_short.

Theorem C04_call16 : forall addr dest rest, let rel := dest - addr in -32768 <= rel - 5 <= 32767 -> -32768 <= rel - 3 <= 32767 ->
  lands M16 BCall addr dest (gen_call rel) rest.
Proof. exact call16_lands. Qed.
Print Assumptions C04_call16.

Theorem C04_jmp16_near : forall addr dest rest, let rel := dest - addr in
  -32768 <= rel - 2 <= 32767 -> ~ (-128 <= rel - 2 <= 127) -> -32768 <= rel - 3 ->
  lands M16 BJmp addr dest (gen_jmp M16 rel) rest.
Proof. exact jmp16_near_lands. Qed.
Print Assumptions C04_jmp16_near.

(** the encoded condition is the one named, for all 30 conditional mnemonics (synonyms included);
    re-proved against the table regenerated from x86gen_jmp.go on every run *)
Theorem C04_cc_table : forall n, In n jcc_names ->
  exists opc c, lookup n jcc_table = Some opc /\ cc_of_name n = Some c /\ opc = 112 + c /\ In opc jcc_opcodes.
Proof. exact cc_table_sound. Qed.
Print Assumptions C04_cc_table.

(** after fix e07e6de in /repo the rel8 form is chosen exactly when its displacement fits, so [C04_jmp_short]
    and [C04_jmp16_near] together cover every rel with -32767 <= rel - 2 <= 32767 in 16-bit mode; the former
    refutation at the backward boundary (targets 127/128 bytes before the jump) is replaced by: *)
Theorem C04_jmp_backward_boundary : forall addr rest,
  lands M16 BJmp addr (addr - 128) (gen_jmp M16 (-128)) rest /\ lands M16 BJmp addr (addr - 127) (gen_jmp M16 (-127)) rest.
Proof. exact jmp_backward_boundary_lands. Qed.
Print Assumptions C04_jmp_backward_boundary.

(** every 16-bit JMP whose displacement fits 16 bits lands, whichever form is chosen *)
Theorem C04_jmp16_total : forall addr dest rest, let rel := dest - addr in -32767 <= rel - 2 <= 32767 ->
  lands M16 BJmp addr dest (gen_jmp M16 rel) rest.
Proof. exact jmp16_total_lands. Qed.
Print Assumptions C04_jmp16_total.

Example C04_nonvacuous : lands M16 BJmp 31744 31750 (gen_jmp M16 6) [171].
Proof. apply (jmp_short_lands M16 31744 31750 [171]). cbn. split; discriminate. Qed.
