(** C04 - Relative branches land exactly on their targets.
    [lands m k addr dest bs rest]: the bytes [bs] (followed by anything) decode under the ISA
    branch decoder Spec/Branch.v to a branch of kind [k] of exactly the emitted length that
    transfers control to [dest].  Proved for every address and every target (all of Z) on the
    domain where gosk's form selection is right; the companion refutation and the known-findings
    file delimit the rest. *)
From Coq Require Import List ZArith String Bool.
From Gosk Require Import Base.Bytes Model.Eval Model.Asm Spec.Branch Generated.Tables Lemmas.BranchLemmas.
Import ListNotations.
Local Open Scope Z_scope.

Theorem C04_jmp_short : forall m addr dest rest, let rel := dest - addr in -126 <= rel <= 127 ->
  lands m BJmp addr dest (gen_jmp m rel) rest.
Proof. exact jmp_short_lands. Qed.
Print Assumptions C04_jmp_short.

Theorem C04_jcc_short : forall m opc addr dest rest, In opc jcc_opcodes -> let rel := dest - addr in -126 <= rel <= 127 ->
  lands m (BJcc (opc - 112)) addr dest (gen_jcc opc rel) rest.
Proof. exact jcc_short_lands. Qed.
Print Assumptions C04_jcc_short.

Theorem C04_call16 : forall addr dest rest, let rel := dest - addr in -32768 <= rel - 5 <= 32767 -> -32768 <= rel - 3 <= 32767 ->
  lands M16 BCall addr dest (gen_call rel) rest.
Proof. exact call16_lands. Qed.
Print Assumptions C04_call16.

Theorem C04_jmp16_near : forall addr dest rest, let rel := dest - addr in
  -32768 <= rel <= 32767 -> ~ (-128 <= rel <= 127) -> -32768 <= rel - 3 ->
  lands M16 BJmp addr dest (gen_jmp M16 rel) rest.
Proof. exact jmp16_near_lands. Qed.
Print Assumptions C04_jmp16_near.

(** the encoded condition is the one named, for all 30 conditional mnemonics (synonyms included);
    re-proved against the table regenerated from x86gen_jmp.go on every run *)
Theorem C04_cc_table : forall n, In n jcc_names ->
  exists opc c, lookup n jcc_table = Some opc /\ cc_of_name n = Some c /\ opc = 112 + c /\ In opc jcc_opcodes.
Proof. exact cc_table_sound. Qed.
Print Assumptions C04_cc_table.

Theorem C04_jmp_short_refuted_at_boundary : exists addr dest,
  let rel := dest - addr in -128 <= rel <= 127 /\
  forall b, decode_branch B16 (gen_jmp M16 rel) = Some b -> landing addr b <> dest mod 2 ^ 16.
Proof. exact jmp_short_refuted. Qed.
Print Assumptions C04_jmp_short_refuted_at_boundary.

Example C04_nonvacuous : lands M16 BJmp 31744 31750 (gen_jmp M16 6) [171].
Proof. apply (jmp_short_lands M16 31744 31750 [171]). cbn. split; discriminate. Qed.
