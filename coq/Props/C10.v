(** C10 - output is deterministic and independent of history (model level).
    For every history of calls, from every process state, each call's result is the result of
    assembling that program alone.  Hash-map iteration order, the clock and the OS are not in the
    model; the tie to the implementation is the history correspondence of harness/run/props/c10.py. *)
From Coq Require Import List ZArith String Bool Permutation.
From Gosk Require Import Base.Bytes Model.Ast Model.Asm Model.Top Model.Encoder Model.History.
Import ListNotations.

Theorem C10_history : forall h g, run g h = map (fun c => assemble_file gosk_encoder (c_prog c)) h.
Proof.
  induction h as [|c r IH]; intros g; [reflexivity|].
  cbn [run map]. unfold exec. cbn zeta. rewrite IH. reflexivity.
Qed.
Print Assumptions C10_history.

(* re-assembling the same parsed program, whatever the destination held before, gives the same result *)
Theorem C10_repeat : forall p d1 d2 g,
  run g [{| c_prog := p; c_dest_content := d1 |}; {| c_prog := p; c_dest_content := d2 |}]
  = [assemble_file gosk_encoder p; assemble_file gosk_encoder p].
Proof. intros. apply C10_history. Qed.
Print Assumptions C10_repeat.

(* what came before - any number of calls, from any process state - does not show in what comes after *)
Theorem C10_prefix_irrelevant : forall h1 h2 g g',
  run g (h1 ++ h2) = run g h1 ++ run g' h2.
Proof. intros. rewrite !C10_history. apply map_app. Qed.
Print Assumptions C10_prefix_irrelevant.

(* the same calls in another order give the same results, in that order *)
Theorem C10_order_irrelevant : forall h h' g g', Permutation h h' -> Permutation (run g h) (run g' h').
Proof. intros h h' g g' H. rewrite !C10_history. apply Permutation_map. exact H. Qed.
Print Assumptions C10_order_irrelevant.

(* the state a call leaves behind never reaches a later result: two processes with different pasts agree from here on *)
Theorem C10_state_irrelevant : forall h g g', run g h = run g' h.
Proof. intros. rewrite !C10_history. reflexivity. Qed.
Print Assumptions C10_state_irrelevant.
