(** C02 - memory operands encode the effective address that was written (16-bit addressing, proved).
    For every addressing shape the operand parser can produce from 16-bit registers (BX/BP x SI/DI,
    single base, single index), every register field 0..7 and EVERY displacement d in the disp16
    range, the model of calculateModRM yields ModR/M + displacement bytes that the SDM decoder
    (table 2-1, written independently in Spec/X86.v) reads back as exactly that base, index and
    signed displacement, consuming exactly the emitted bytes, whatever follows.  The special cases
    ([BP] with no displacement, disp8 versus disp16 at -128/127) are ordinary cases of the statement.
    32-bit addressing is proved for every shape as well (C02_modrm32_exact): the proof became possible
    after three SIB defects were repaired in /repo. *)
From Coq Require Import List ZArith String Bool.
From Gosk Require Import Base.Bytes Model.Ast Model.Asm Model.X86Enc Spec.X86 Lemmas.ModRMLemmas Lemmas.ModRM32Lemmas.
Import ListNotations.
Local Open Scope Z_scope.

Theorem C02_modrm16_exact : forall b i eb ei reg d rest,
  In (b, i, eb, ei) shapes16 -> In reg regs8 -> -32768 <= d <= 32767 ->
  exists x, calc_modrm (mk_mem b i 0 d) M16 (reg * 8) = Some x
            /\ decode_modrm 16 (modrm_bytes x ++ rest) = Some (reg, RmMem (ea16 eb ei d), zlen (modrm_bytes x)).
Proof. exact modrm16_sound. Qed.
Print Assumptions C02_modrm16_exact.

(* 32-bit addressing, EVERY shape: absolute, single base (all eight; ESP through SIB 24h, EBP with its mandatory disp8 0),
   base + index*scale and index*scale without base (always disp32), every scale, every register field, every
   displacement in the int32 range.  Holds since the fixes 8b99564 and 1f66a07 in /repo; before them [EAX+EAX],
   [EBP+index] and [index*scale+disp] were refuted (see known_findings.txt, fixed: lines). *)
Theorem C02_modrm32_exact : forall b i sc eb ei esc reg d rest,
  In (b, i, sc, eb, ei, esc) shapes32 -> In reg regs8 -> - 2 ^ 31 <= d < 2 ^ 31 ->
  exists x, calc_modrm (mk_mem b i sc d) M32 (reg * 8) = Some x
            /\ decode_modrm 32 (modrm_bytes x ++ rest) = Some (reg, RmMem (ea32 eb ei esc d), zlen (modrm_bytes x)).
Proof. exact modrm32_sound. Qed.
Print Assumptions C02_modrm32_exact.

(* in 16-bit mode an operand written with 32-bit registers yields the same bytes (behind the 67h prefix) *)
Theorem C02_modrm32_in_bits16 : forall b i sc d rb, falls_to_32 b i = true ->
  calc_modrm (mk_mem b i sc d) M16 rb = calc_modrm (mk_mem b i sc d) M32 rb.
Proof. exact calc_modrm_16_as_32. Qed.
Theorem C02_modrm32_in_bits16_domain : forallb (fun '(b, i) => falls_to_32 b i) regpairs32 = true.
Proof. exact falls_to_32_all. Qed.
Print Assumptions C02_modrm32_in_bits16.

(* and in 32-bit mode an operand written with BX/BP/SI/DI yields the bytes of the 16-bit table (behind 67h): with
   C02_modrm16_exact this is the effective-address theorem for 16-bit addressing in BITS 32 *)
Theorem C02_modrm16_in_bits32 : forall b i sc d rb, is16reg b || is16reg i = true ->
  calc_modrm (mk_mem b i sc d) M32 rb = calc_modrm (mk_mem b i sc d) M16 rb.
Proof. exact modrm16_mode_indep. Qed.
Theorem C02_modrm16_in_bits32_domain : forallb (fun x => match x with (b, i, _, _) => is16reg b || is16reg i end) shapes16 = true.
Proof. exact shapes16_are_16. Qed.

Example C02_bp_needs_disp : exists x, calc_modrm (mk_mem "BP" "" 0 0) M16 0 = Some x /\ modrm_bytes x = [70; 0].
Proof. eexists. split; reflexivity. Qed.

(* the three shapes that used to be wrong are ordinary members of the domain *)
Example C02_shapes32_nonvacuous :
  In ("EAX", "EAX", 1, Some 0, Some 0, 1)%string shapes32 /\ In ("EBP", "ESI", 1, Some 5, Some 6, 1)%string shapes32
  /\ In ("", "EAX", 2, None, Some 0, 2)%string shapes32 /\ Datatypes.length shapes32 = 261%nat.
Proof. vm_compute. intuition. Qed.
Example C02_sib_zero_kept : exists x, calc_modrm (mk_mem "EAX" "EAX" 1 0) M32 8 = Some x /\ modrm_bytes x = [12; 0].
Proof. eexists. split; reflexivity. Qed.
Example C02_ebp_index : exists x, calc_modrm (mk_mem "EBP" "ESI" 1 0) M32 8 = Some x /\ modrm_bytes x = [76; 53; 0].
Proof. eexists. split; reflexivity. Qed.
Example C02_index_only : exists x, calc_modrm (mk_mem "" "EAX" 2 1) M32 8 = Some x /\ modrm_bytes x = [12; 69; 1; 0; 0; 0].
Proof. eexists. split; reflexivity. Qed.
