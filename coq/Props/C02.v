(** C02 - memory operands encode the effective address that was written (16-bit addressing, proved).
    For every addressing shape the operand parser can produce from 16-bit registers (BX/BP x SI/DI,
    single base, single index), every register field 0..7 and EVERY displacement d in the disp16
    range, the model of calculateModRM yields ModR/M + displacement bytes that the SDM decoder
    (table 2-1, written independently in Spec/X86.v) reads back as exactly that base, index and
    signed displacement, consuming exactly the emitted bytes, whatever follows.  The special cases
    ([BP] with no displacement, disp8 versus disp16 at -128/127) are ordinary cases of the statement.
    32-bit addressing is proved for every single-base shape (all eight registers); base+index*scale
    shapes are not proved: they are covered by the exhaustive correspondence and by evaluating the
    decoder on gosk's own output (three SIB defects are known findings). *)
From Coq Require Import List ZArith String Bool.
From Gosk Require Import Base.Bytes Model.Ast Model.Asm Model.X86Enc Spec.X86 Lemmas.ModRMLemmas Lemmas.ModRM32Lemmas.
Import ListNotations.
Local Open Scope Z_scope.

Theorem C02_modrm16_exact : forall b i eb ei reg d rest,
  In (b, i, eb, ei) shapes16 -> In reg regs8 -> -32768 <= d <= 32767 ->
  exists x, calc_modrm (mk_mem b i 0 d) M16 (reg * 8) = Some x
            /\ decode_modrm 16 (modrm_bytes x ++ rest) = Some (reg, RmMem (ea16 eb ei d), zlen (modrm_bytes x)).
Proof. exact modrm16_sound. Qed.
Print Assumptions C02_modrm16_exact.

(* 32-bit addressing, single base register: all eight bases (ESP goes through the SIB byte 24h, EBP gets its mandatory
   disp8 0), every register field, every displacement in the int32 range *)
Theorem C02_modrm32_base_disp0 : forall b nb reg rest, In (b, nb) r32n -> b <> "EBP"%string -> In reg regs8 ->
  modrm32_ok (mk_mem b "" 0 0) (Some nb) None 1 reg 0 rest.
Proof. exact modrm32_base_disp0. Qed.
Theorem C02_modrm32_base_disp8 : forall b nb reg d rest, In (b, nb) r32n -> In reg regs8 -> -128 <= d <= 127 -> (d <> 0 \/ b = "EBP"%string) ->
  modrm32_ok (mk_mem b "" 0 d) (Some nb) None 1 reg d rest.
Proof. exact modrm32_base_disp8. Qed.
Theorem C02_modrm32_base_disp32 : forall b nb reg d rest, In (b, nb) r32n -> In reg regs8 -> - 2 ^ 31 <= d < 2 ^ 31 -> ~ (-128 <= d <= 127) ->
  modrm32_ok (mk_mem b "" 0 d) (Some nb) None 1 reg d rest.
Proof. exact modrm32_base_disp32. Qed.
Print Assumptions C02_modrm32_base_disp32.

Example C02_bp_needs_disp : exists x, calc_modrm (mk_mem "BP" "" 0 0) M16 0 = Some x /\ modrm_bytes x = [70; 0].
Proof. eexists. split; reflexivity. Qed.

(* the SIB defect on the model: [EAX+EAX] loses its SIB byte (finding X86-sib-zero-dropped) *)
Theorem C02_sib_zero_refuted : exists x, calc_modrm (mk_mem "EAX" "EAX" 1 0) M32 8 = Some x /\ modrm_bytes x = [12]
  /\ decode_modrm 32 (modrm_bytes x) = None.
Proof. eexists. repeat split; reflexivity. Qed.
Print Assumptions C02_sib_zero_refuted.
