(** C19 - command-line contract.  The exit-status table and the file effect are an exhaustive case
    analysis of Model/Cli.v; the Shift_JIS part says that no byte below 0x40 (line ends, semicolon, hash,
    double quote, comma, digits, space) is ever consumed as the second byte of a double-byte character, whatever
    bytes a comment contains, so comments cannot swallow the end of their line or open a string. *)
From Coq Require Import List ZArith String Bool Lia.
From Gosk Require Import Base.Bytes Model.Ast Model.Asm Model.Top Model.Encoder Model.Cli Spec.Sjis.
Import ListNotations.
Local Open Scope Z_scope.

Theorem C19_exit_table : forall nargs s d parsed a code eff,
  cli nargs s d parsed a = (code, eff) ->
  ((nargs < 2)%nat -> code = 16 /\ eff = Untouched)
  /\ ((2 <= nargs)%nat -> s <> SrcOk -> code = 17 /\ eff = Untouched)
  /\ ((2 <= nargs)%nat -> s = SrcOk -> parsed = false -> code <> 0 /\ eff = Untouched)
  /\ ((2 <= nargs)%nat -> s = SrcOk -> parsed = true -> d = DstUncreatable -> code = 17 /\ eff = Untouched)
  /\ (code = 0 -> exists img, a = AsmImage img /\ eff = Written img)
  /\ (code <> 0 -> eff = Untouched \/ eff = Emptied).
Proof.
  intros nargs s d parsed a code eff H. unfold cli in H.
  destruct (Nat.ltb nargs 2) eqn:En.
  - apply Nat.ltb_lt in En. inversion H; subst. repeat split; intros; try lia; try discriminate; auto.
  - apply Nat.ltb_ge in En.
    destruct s; destruct parsed; destruct d; destruct a; inversion H; subst;
      repeat split; intros; try lia; try discriminate; try congruence; eauto.
Qed.
Print Assumptions C19_exit_table.

(** exit status 0 characterised in both directions *)
Theorem C19_success_iff : forall nargs s d parsed a,
  fst (cli nargs s d parsed a) = 0 <->
  ((2 <= nargs)%nat /\ s = SrcOk /\ parsed = true /\ d = DstCreatable /\ exists img, a = AsmImage img).
Proof.
  intros nargs s d parsed a. unfold cli. destruct (Nat.ltb nargs 2) eqn:En.
  - apply Nat.ltb_lt in En. split; [cbn; discriminate | intros [H _]; lia].
  - apply Nat.ltb_ge in En. split.
    + destruct s, parsed, d, a; cbn; intros H; try discriminate H; repeat split; try assumption; eauto.
    + intros [_ [Hs [Hp [Hd [img Ha]]]]]. subst. reflexivity.
Qed.
Print Assumptions C19_success_iff.

(* the five statuses the program can end with *)
Theorem C19_status_set : forall nargs s d parsed a,
  In (fst (cli nargs s d parsed a)) [0; 2; 16; 17; 255].
Proof.
  intros nargs s d parsed a. unfold cli. destruct (Nat.ltb nargs 2); [cbn; tauto|].
  destruct s, parsed, d, a; cbn; tauto.
Qed.
Print Assumptions C19_status_set.

(* composed with the assembler model: status 0 is returned exactly for the programs the model assembles,
   and the file then holds exactly the image the model computes; in every other case no image is written *)
Theorem C19_written_is_model_image : forall nargs s d parsed p code eff,
  cli nargs s d parsed (asm_result_of (assemble_file gosk_encoder p)) = (code, eff) ->
  (code = 0 -> exists img st, assemble_file gosk_encoder p = FDone img st /\ eff = Written img)
  /\ (code <> 0 -> forall img, eff <> Written img).
Proof.
  intros nargs s d parsed p code eff H. unfold cli in H.
  destruct (Nat.ltb nargs 2); [inversion H; subst; split; [discriminate | intros _ img; discriminate]|].
  destruct s, parsed, d; try (inversion H; subst; split; [discriminate | intros _ img; discriminate]).
  destruct (assemble_file gosk_encoder p) as [img st| | |] eqn:Ea; cbn in H; inversion H; subst;
    (split; [intros Hc; try discriminate Hc; eauto | intros Hc img'; try discriminate; congruence]).
Qed.
Print Assumptions C19_written_is_model_image.

Theorem C19_sjis_low_bytes_survive : forall fuel (bs : list Z) i b,
  (Datatypes.length bs <= fuel)%nat -> nth_error bs i = Some b -> 0 <= b < 64 -> nth_error (units fuel bs) i = Some true.
Proof. exact low_byte_is_unit_start. Qed.
Print Assumptions C19_sjis_low_bytes_survive.

(* the dangerous trail bytes 0x5C and 0x7C are swallowed INSIDE the pair (they never become backslash or bar tokens) *)
Example C19_trail_5c : units 10 [59; 131; 92; 10; 72] = [true; true; false; true; true].
Proof. reflexivity. Qed.
