(** C17 - BITS selects the encoding mode for what follows it (model level).
    [step_mode]: in pass 1 only a BITS directive changes the mode used for sizing and handed to the
    encoder; every other statement leaves it alone.  Hence with no BITS directive everything is
    16-bit, and BITS n anywhere among the non-instruction statements before the first instruction
    puts every instruction in mode n.  The scoped half of the property ("instructions before it
    keep the previous mode") holds since the mode is recorded with every ocode (fix in /repo). *)
From Coq Require Import List ZArith String Bool.
From Gosk Require Import Base.Bytes Model.Ast Model.Eval Model.Asm Model.Encoder Lemmas.AsmLemmas Lemmas.C17Program.
Import ListNotations.
Local Open Scope Z_scope.

Theorem C17_mode_frame : forall E s st, stuck s = false ->
  bmode (step E s st) = match is_bits st with Some m => m | None => bmode s end.
Proof. exact step_mode. Qed.
Print Assumptions C17_mode_frame.

(* programs without any BITS directive are sized in 16-bit mode throughout *)
Theorem C17_default16 : forall E p, Forall (fun st => is_bits st = None) p -> stuck (pass1 E p) = false ->
  (forall pre st post, p = pre ++ st :: post -> stuck (fold_left (step E) pre init_state) = false) ->
  bmode (pass1 E p) = M16.
Proof.
  intros E p Hall _ Hst. unfold pass1.
  assert (G : forall pre post, p = pre ++ post -> bmode (fold_left (step E) pre init_state) = M16).
  { induction pre as [|x pre IH] using rev_ind; intros post Hp; [reflexivity|].
    rewrite fold_left_app. cbn [fold_left]. rewrite <- app_assoc in Hp. cbn [app] in Hp.
    rewrite step_mode by (eapply Hst; exact Hp).
    assert (Hx : is_bits x = None).
    { rewrite Forall_forall in Hall. apply Hall. rewrite Hp. apply in_or_app. right. left. reflexivity. }
    rewrite Hx. eapply IH. exact Hp. }
  apply (G p []). now rewrite app_nil_r.
Qed.
Print Assumptions C17_default16.

(** the scoped half: every mode-dependent ocode carries the mode that was in force where its statement stands, and codegen
    encodes it in THAT mode whatever mode it is run with (fix in /repo: the mode is recorded per ocode; before it codegen used
    the single mode left behind by the last BITS directive and this was refuted by [two_modes]) *)
Theorem C17_codegen_uses_recorded_mode : forall E m m' st dol len o,
  gen_ocode E m st dol len o = gen_ocode E m' st dol len o.
Proof. intros E m m' st dol len o. destruct o; reflexivity. Qed.
Print Assumptions C17_codegen_uses_recorded_mode.

Theorem C17_statement_records_mode_in_force : forall E s op ops o,
  In o (ocodes (do_mnemonic E s op ops)) -> In o (ocodes s) \/ ocode_mode o = None \/ ocode_mode o = Some (bmode s).
Proof. intros E s op ops. exact (mnemonic_records_mode E s op ops). Qed.
Print Assumptions C17_statement_records_mode_in_force.

Definition two_modes : program :=
  [SMnem "MOV" [ident "AX"; num 1]; SConfig CBits (FNum 32); SMnem "MOV" [ident "EAX"; num 1]; SConfig CBits (FNum 16); SMnem "MOV" [ident "EAX"; num 2]]%string.
Example C17_scoped_example :
  exists d s, assemble gosk_encoder two_modes = Done ([184; 1; 0] ++ [184; 1; 0; 0; 0] ++ [102; 184; 2; 0; 0; 0]) d s.
Proof. eexists _, _. vm_compute. reflexivity. Qed.

(** Program level: the position of a BITS directive among statements that neither read nor set the mode - labels, EQU,
    GLOBAL, EXTERN, the other bracket directives, DB/DW/DD/RESB/ALIGNB/ORG - is irrelevant: moving it from behind such
    a run to the front of it leaves the outcome of the whole assembly unchanged (for any encoder). *)
Theorem C17_bits_position_irrelevant : forall (E : encoder) f pre mid post,
  Forall (fun st => mode_blind st = true) mid ->
  (exists bs d s, assemble E (pre ++ mid ++ SConfig CBits f :: post) = Done bs d s) ->
  assemble E (pre ++ SConfig CBits f :: mid ++ post) = assemble E (pre ++ mid ++ SConfig CBits f :: post).
Proof. exact bits_position_irrelevant. Qed.
Print Assumptions C17_bits_position_irrelevant.

(* the commutation it rests on, one statement at a time *)
Theorem C17_bits_commutes : forall (E : encoder) s f st, mode_blind st = true -> stuck (step E s st) = false ->
  step E (step E s (SConfig CBits f)) st = step E (step E s st) (SConfig CBits f).
Proof. exact bits_commute. Qed.
Print Assumptions C17_bits_commutes.

Example C17_position_nonvacuous :
  let mid := [SLabel "l"; SMnem "DB" [num 1]; SEqu "K" (num 5); SConfig CSection (FId ".text"); SMnem "RESB" [num 2]]%string in
  let post := [SMnem "MOV" [ident "EAX"; ident "K"]; SMnem "DD" [ident "l"]]%string in
  forallb mode_blind mid = true /\
  match assemble gosk_encoder ([SMnem "ORG" [num 31744]]%string ++ mid ++ SConfig CBits (FNum 32) :: post) with
  | Done bs false _ => bs | _ => [] end = [1; 0; 0; 184; 5; 0; 0; 0; 0; 124; 0; 0].
Proof. split; vm_compute; reflexivity. Qed.
