(** C17 - BITS selects the encoding mode for what follows it (model level).
    [step_mode]: in pass 1 only a BITS directive changes the mode used for sizing and handed to the
    encoder; every other statement leaves it alone.  Hence with no BITS directive everything is
    16-bit, and BITS n anywhere among the non-instruction statements before the first instruction
    puts every instruction in mode n.  The scoped half of the property ("instructions before it
    keep the previous mode") is FALSE of the faithful model - codegen uses the single final mode -
    and is refuted below; it is known finding C17-single-emission-mode. *)
From Coq Require Import List ZArith String Bool.
From Gosk Require Import Base.Bytes Model.Ast Model.Eval Model.Asm Model.Encoder Lemmas.AsmLemmas.
Import ListNotations.
Local Open Scope Z_scope.

Theorem C17_mode_frame : forall E s st, stuck s = false ->
  bmode (step E s st) = match is_bits st with Some m => m | None => bmode s end.
Proof. exact step_mode. Qed.
Print Assumptions C17_mode_frame.

(* programs without any BITS directive are sized in 16-bit mode throughout *)
Theorem C17_default16 : forall E p, Forall (fun st => is_bits st = None) p -> stuck (pass1 E p) = false ->
  (forall pre st post, p = pre ++ st :: post -> stuck (fold_left (step E) pre init_state) = false) ->
  bmode (pass1 E p) = M16.
Proof.
  intros E p Hall _ Hst. unfold pass1.
  assert (G : forall pre post, p = pre ++ post -> bmode (fold_left (step E) pre init_state) = M16).
  { induction pre as [|x pre IH] using rev_ind; intros post Hp; [reflexivity|].
    rewrite fold_left_app. cbn [fold_left]. rewrite <- app_assoc in Hp. cbn [app] in Hp.
    rewrite step_mode by (eapply Hst; exact Hp).
    assert (Hx : is_bits x = None).
    { rewrite Forall_forall in Hall. apply Hall. rewrite Hp. apply in_or_app. right. left. reflexivity. }
    rewrite Hx. eapply IH. exact Hp. }
  apply (G p []). now rewrite app_nil_r.
Qed.
Print Assumptions C17_default16.

(* the scoped statement fails: one instruction before a later [BITS 32] is emitted in 32-bit mode *)
Definition two_modes : program :=
  [SMnem "MOV" [ident "AX"; num 1]; SConfig CBits (FNum 32); SMnem "MOV" [ident "EAX"; num 1]]%string.
Theorem C17_scoped_refuted :
  exists bs d s, assemble gosk_encoder two_modes = Done bs d s /\ firstn 4 bs = [102; 184; 1; 0] (* 66 B8 01 00 = MOV AX,1 as 32-bit code *).
Proof. eexists _, _, _. split; [vm_compute; reflexivity | reflexivity]. Qed.
Print Assumptions C17_scoped_refuted.
