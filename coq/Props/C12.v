(** C12 - comments, spacing and line endings never change the output (lexical part, proved).
    Model/Lex.v transcribes the grammar's layout rule `_` (whitespace, LF/CR, ';' and '#' comments).
    [layout_absorbed]: ANY string made of whitespace bytes and comments - comment text being
    arbitrary bytes other than CR/LF, each comment closed by CR or LF (so LF, CRLF and CR line
    endings alike) - standing in front of the first byte of a token is consumed completely and
    leaves exactly the rest; hence any two such strings are interchangeable at a gap where the
    grammar has `_`.  PARTIAL: the statement rules (Label, Opcode, operands, strings) are not
    modelled, so the full "parse (render ts l1) = parse (render ts l2)" is not proved; the re-layout
    exploration and the one known finding (layout before a first label) cover that part. *)
From Coq Require Import List ZArith Bool.
From Gosk Require Import Model.Lex Lemmas.LexLemmas.
Import ListNotations.
Local Open Scope Z_scope.

Theorem C12_layout_absorbed : forall w, layout w -> forall rest fuel,
  (length (w ++ rest) <= fuel)%nat ->
  (match rest with [] => True | b :: _ => is_ws b = false /\ is_marker b = false end) ->
  skip_layout fuel (w ++ rest) = rest.
Proof. exact layout_absorbed. Qed.
Print Assumptions C12_layout_absorbed.

Theorem C12_layouts_interchangeable_partial : forall w1 w2 rest f1 f2, layout w1 -> layout w2 ->
  (length (w1 ++ rest) <= f1)%nat -> (length (w2 ++ rest) <= f2)%nat ->
  (match rest with [] => True | b :: _ => is_ws b = false /\ is_marker b = false end) ->
  skip_layout f1 (w1 ++ rest) = skip_layout f2 (w2 ++ rest).
Proof. exact layouts_interchangeable. Qed.
Print Assumptions C12_layouts_interchangeable_partial.
