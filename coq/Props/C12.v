(** C12 - comments, spacing and line endings never change the output (lexical part, proved).
    Model/Lex.v transcribes the grammar's layout rule `_` (whitespace, LF/CR, ';' and '#' comments).
    [layout_absorbed]: ANY string made of whitespace bytes and comments - comment text being
    arbitrary bytes other than CR/LF, each comment closed by CR or LF (so LF, CRLF and CR line
    endings alike) - standing in front of the first byte of a token is consumed completely and
    leaves exactly the rest; hence any two such strings are interchangeable at a gap where the
    grammar has `_`.  PARTIAL: the statement rules (Label, Opcode, operands, strings) are not
    modelled, so the full "parse (render ts l1) = parse (render ts l2)" is not proved; the re-layout
    exploration and the one known finding (layout before a first label) cover that part. *)
From Coq Require Import List ZArith Bool.
From Gosk Require Import Model.Lex Lemmas.LexLemmas.
Import ListNotations.
Local Open Scope Z_scope.

Theorem C12_layout_absorbed : forall w, layout w -> forall rest fuel,
  (length (w ++ rest) <= fuel)%nat ->
  (match rest with [] => True | b :: _ => is_ws b = false /\ is_marker b = false end) ->
  skip_layout fuel (w ++ rest) = rest.
Proof. exact layout_absorbed. Qed.
Print Assumptions C12_layout_absorbed.

Theorem C12_layouts_interchangeable_partial : forall w1 w2 rest f1 f2, layout w1 -> layout w2 ->
  (length (w1 ++ rest) <= f1)%nat -> (length (w2 ++ rest) <= f2)%nat ->
  (match rest with [] => True | b :: _ => is_ws b = false /\ is_marker b = false end) ->
  skip_layout f1 (w1 ++ rest) = skip_layout f2 (w2 ++ rest).
Proof. exact layouts_interchangeable. Qed.
Print Assumptions C12_layouts_interchangeable_partial.

(** converse: whatever stands in the input, what `_` consumes is a layout string (whitespace and
    comments, a last comment possibly closed by the end of the file) and what it leaves is the
    untouched remainder, which starts with a token byte or is empty: no byte of a token is ever
    consumed as layout and no layout byte is left in front of a token *)
Theorem C12_skip_only_layout : forall fuel bs, (length bs <= fuel)%nat ->
  exists w, layoutE w /\ bs = w ++ skip_layout fuel bs /\ token_start (skip_layout fuel bs).
Proof. exact skip_only_layout. Qed.
Print Assumptions C12_skip_only_layout.

(** a file that ends in layout - trailing blank lines, a final comment without a newline - is read to its end *)
Theorem C12_trailing_layout_consumed : forall w, layoutE w -> forall fuel, (length w <= fuel)%nat -> skip_layout fuel w = [].
Proof. exact layoutE_absorbed_eof. Qed.
Print Assumptions C12_trailing_layout_consumed.

Example C12_skip_only_layout_runs :
  skip_layout 20 [32; 59; 77; 79; 86; 13; 10; 9; 78; 79; 80; 32; 59; 120] = [78; 79; 80; 32; 59; 120]
  /\ layoutE [32; 59; 77; 79; 86; 13; 10; 9] /\ layoutE [32; 59; 120].
Proof.
  split; [vm_compute; reflexivity|]. split.
  - apply EWs; [reflexivity|]. apply (ECom 59 [77; 79; 86] 13 [10; 9]); try reflexivity; [repeat constructor|].
    repeat (apply EWs; [reflexivity|]). constructor.
  - apply EWs; [reflexivity|]. apply EComEof; [reflexivity | repeat constructor].
Qed.
