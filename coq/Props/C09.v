(** C09 - COFF carries the same code and the right symbols (model level).
    .text sits at offset 140 and is byte-identical to the machine code handed to the writer (which
    is the flat output: Model/Top.assemble_file passes the same bytes); the GLOBAL records are a
    permutation of the declared entries, sorted by (undefined last, value) and stable. *)
From Coq Require Import List ZArith String Bool Permutation Sorting.Sorted.
From Gosk Require Import Base.Bytes Model.Ast Model.Eval Model.Asm Model.Coff Model.Top Model.Encoder Lemmas.CoffLemmas Lemmas.CoffRoundTrip Spec.CoffRead.
Import ListNotations.
Local Open Scope Z_scope.

Theorem C09_text_is_code : forall text srcfile globals symtab,
  firstn (Datatypes.length text) (skipn 140 (coff_write text srcfile globals symtab)) = text.
Proof. exact text_at_140. Qed.
Print Assumptions C09_text_is_code.

Theorem C09_symbols_permutation : forall l, Permutation (sort_stable l) l.
Proof. exact sort_perm. Qed.
Print Assumptions C09_symbols_permutation.

Theorem C09_symbols_sorted : forall l, StronglySorted le_ord (sort_stable l).
Proof. exact sort_sorted. Qed.
Print Assumptions C09_symbols_sorted.

Theorem C09_sort_stable : forall (p : sym_entry -> bool) l,
  (forall a b, p a = true -> p b = true -> sym_less a b = false) -> filter p (sort_stable l) = filter p l.
Proof. exact sort_stable_filter. Qed.
Print Assumptions C09_sort_stable.

Lemma NoDup_app_iff_local : forall (acc : list string) n, existsb (String.eqb n) acc = false -> NoDup acc -> NoDup (acc ++ [n]).
Proof.
  intros acc n E H. induction H as [|x l Hx Hl IH]; [constructor; [intros []|constructor]|].
  cbn [existsb] in E. apply orb_false_elim in E as [E1 E2]. cbn [app]. constructor.
  - intros Hin. apply in_app_or in Hin as [Hin|[Hin|[]]]; [exact (Hx Hin)|]. subst x. rewrite String.eqb_refl in E1. discriminate.
  - apply IH. exact E2.
Qed.

(* fix bce77b3: a name declared twice is kept once, in first-declaration order *)
Theorem C09_global_dedup : forall acc g, NoDup acc -> NoDup (dedup_append acc g).
Proof.
  intros acc g. revert acc. unfold dedup_append. induction g as [|n r IH]; intros acc H; [exact H|].
  cbn [fold_left]. apply IH. destruct (existsb (String.eqb n) acc) eqn:E; [exact H|].
  apply NoDup_app_iff_local; assumption.
Qed.
Print Assumptions C09_global_dedup.

(** through the independent reader: the external symbols of the object are exactly the GLOBAL names (as a multiset; their
    order is the subject of C09_symbols_sorted), each of class 2 without auxiliary record *)
Theorem C09_reader_sees_globals : forall text srcfile globals symtab,
  let f := coff_write text srcfile globals symtab in
  Forall name_ok globals -> zlen f < 2 ^ 32 ->
  exists o, coff_read f = Some o
    /\ Permutation (map y_name (skipn 4 (o_symbols o))) (map bytes_of_string globals)
    /\ Forall (fun y => y_class y = 2 /\ y_naux y = 0) (skipn 4 (o_symbols o)).
Proof. exact coff_read_global_names. Qed.
Print Assumptions C09_reader_sees_globals.

(* a [FILE] name longer than 18 bytes occupies further auxiliary records and is read back whole (fix in /repo; it used to be
   cut to 18 bytes) *)
Example C09_long_file_name :
  let name := bytes_of_string "abcdefghijklmnopqrstuvwxyz.nas"%string in
  let f := coff_write [195] name [] [] in
  match coff_read f with
  | Some o => match o_symbols o with
              | f0 :: _ => take_until_nul (y_aux f0) = name /\ y_naux f0 = 2 /\ wellformed f o = true
              | [] => False
              end
  | None => False
  end.
Proof. vm_compute. repeat split; reflexivity. Qed.
