(** C09 - COFF carries the same code and the right symbols (model level).
    .text sits at offset 140 and is byte-identical to the machine code handed to the writer (which
    is the flat output: Model/Top.assemble_file passes the same bytes); the GLOBAL records are a
    permutation of the declared entries, sorted by (undefined last, value) and stable. *)
From Coq Require Import List ZArith String Bool Permutation Sorting.Sorted.
From Gosk Require Import Base.Bytes Model.Ast Model.Eval Model.Asm Model.Coff Model.Top Model.Encoder Lemmas.CoffLemmas.
Import ListNotations.
Local Open Scope Z_scope.

Theorem C09_text_is_code : forall text srcfile globals symtab,
  firstn (Datatypes.length text) (skipn 140 (coff_write text srcfile globals symtab)) = text.
Proof. exact text_at_140. Qed.
Print Assumptions C09_text_is_code.

Theorem C09_symbols_permutation : forall l, Permutation (sort_stable l) l.
Proof. exact sort_perm. Qed.
Print Assumptions C09_symbols_permutation.

Theorem C09_symbols_sorted : forall l, StronglySorted le_ord (sort_stable l).
Proof. exact sort_sorted. Qed.
Print Assumptions C09_symbols_sorted.

Theorem C09_sort_stable : forall (p : sym_entry -> bool) l,
  (forall a b, p a = true -> p b = true -> sym_less a b = false) -> filter p (sort_stable l) = filter p l.
Proof. exact sort_stable_filter. Qed.
Print Assumptions C09_sort_stable.

(* the duplicate-GLOBAL finding, on the model: two records for one name *)
Theorem C09_duplicate_global_refuted :
  Datatypes.length (fst (global_entries [("_f"%string, 0)] ["_f"; "_f"]%string ([], []))) = 2%nat.
Proof. reflexivity. Qed.
Print Assumptions C09_duplicate_global_refuted.
