(** C13 - no input crashes the assembler (model level, partial).
    In the model every codegen handler returns an error value instead of panicking (handleINT did
    panic until fix 5b154ef).  So for every ocode list and every encoder that does not itself
    panic, the emission fold cannot end in a panic.  Stack exhaustion
    (self-referential EQU, deep nesting), allocation failure (huge RESB) and running time are
    runtime behaviour outside the model: see known findings and the fuzz/scaling exploration. *)
From Coq Require Import List ZArith String Bool.
From Gosk Require Import Base.Bytes Model.Ast Model.Asm Model.Encoder Lemmas.AsmLemmas Lemmas.NoPanicLemmas Model.Eval Lemmas.EvalTerm.
Import ListNotations.
Local Open Scope Z_scope.

Theorem C13_no_panic : forall E m st dol,
  (forall md s mn ops, enc_emit E md s mn ops <> EPanic) ->
  forall os acc d, codegen E m st dol acc d os <> GPanic.
Proof. exact codegen_no_panic. Qed.
Print Assumptions C13_no_panic.

(* INT with a vector outside 0..255 is now diagnosed, not a panic (fix 5b154ef) *)
Theorem C13_int_out_of_range_diagnosed : forall E m st dol len z, ~ (0 <= z <= 255) -> gen_ocode E m st dol len (OInt (Some z)) = BytesDiag [].
Proof.
  intros E m st dol len z H. cbn [gen_ocode]. unfold in_range.
  destruct (z =? 3) eqn:E3; [apply Z.eqb_eq in E3; exfalso; apply H; subst z; split; discriminate|].
  destruct (0 <=? z) eqn:A; destruct (z <=? 255) eqn:B; cbn [andb]; try reflexivity.
  apply Z.leb_le in A. apply Z.leb_le in B. exfalso. apply H. split; assumption.
Qed.
Print Assumptions C13_int_out_of_range_diagnosed.


(** gosk's own instruction encoder (Model/X86Enc.v over the regenerated tables) returns an error value on every path: for
    every mode, symbol table, mnemonic and operand list it never panics, so for EVERY program the model of gosk ends in
    output, a diagnosed failure, "unmodelled" or the stack exhaustion of an EQU cycle - never in a panic. *)
Theorem C13_encoder_never_panics : forall md st mn es, enc_emit gosk_encoder md st mn es <> EPanic.
Proof. exact x86_no_panic. Qed.
Theorem C13_gosk_never_panics : forall p, assemble gosk_encoder p <> Panicked.
Proof. exact gosk_assemble_never_panics. Qed.
Print Assumptions C13_gosk_never_panics.

(** "hangs": the expression evaluator terminates.  For EVERY expression - constant or symbolic, any nesting depth, memory
    and segment operands included - evaluated against an EQU table that holds evaluated numbers (what pass 1 stores for
    constant definitions), the model of Eval answers within fuel 2 * size; the Stuck outcome, which stands for unbounded
    Go recursion, is unreachable.  The hypothesis matters: with a self-referential body in the table Stuck IS reached
    (example below; pass 1 refuses to store such bodies since fixes 6679a29/29ece2e). *)
Theorem C13_eval_terminates : forall env, nums_env env ->
  forall fuel e, (2 * esize e <= fuel)%nat -> eval env fuel e <> Stuck.
Proof. exact eval_terminates. Qed.
Print Assumptions C13_eval_terminates.

Theorem C13_eval_top_terminates : forall env, nums_env env -> forall e, eval_top env e <> Stuck.
Proof. exact eval_top_terminates. Qed.
Print Assumptions C13_eval_top_terminates.

Example C13_nums_env_nonvacuous : nums_env {| macros := [("K"%string, Ast.ENum 10); ("L"%string, Ast.ENum (-1))]; eloc := 31744 |}.
Proof.
  intros s m H. cbn in H. destruct (String.eqb s "K"); [inversion H; eauto|].
  destruct (String.eqb s "L"); [inversion H; eauto | discriminate].
Qed.
Example C13_cycle_is_stuck_without_hypothesis :
  eval_top {| macros := [("A"%string, Ast.EImm (Ast.FId "A"%string))]; eloc := 0 |} (Ast.EImm (Ast.FId "A"%string)) = Stuck.
Proof. vm_compute. reflexivity. Qed.
