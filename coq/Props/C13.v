(** C13 - no input crashes the assembler (model level, partial).
    In the model the only partial Go operations reachable in codegen are those of handleINT
    (operand count / ParseInt(...,10,8)); every other handler returns an error value.  So for
    every ocode list all of whose INT operands are decimal int8 values, and every encoder that
    does not itself panic, the emission fold cannot end in a panic.  Stack exhaustion
    (self-referential EQU, deep nesting), allocation failure (huge RESB) and running time are
    runtime behaviour outside the model: see known findings and the fuzz/scaling exploration. *)
From Coq Require Import List ZArith String Bool.
From Gosk Require Import Base.Bytes Model.Ast Model.Asm Lemmas.AsmLemmas.
Import ListNotations.
Local Open Scope Z_scope.

Theorem C13_no_panic : forall E m st dol,
  (forall md s mn ops, enc_emit E md s mn ops <> EPanic) ->
  forall os acc d, forallb int_ok os = true -> codegen E m st dol acc d os <> GPanic.
Proof. exact codegen_no_panic. Qed.
Print Assumptions C13_no_panic.

Theorem C13_int_panic_refuted : exists E m st, codegen E m st 0 [] false [OInt (Some 128)] = GPanic.
Proof. exists {| enc_est := fun _ _ _ => None; enc_kind_ok := fun _ => false; enc_emit := fun _ _ _ _ => Bytes []; enc_diag := fun _ _ _ => false; enc_unmodelled := fun _ _ _ => false |}, M16, []. reflexivity. Qed.
Print Assumptions C13_int_panic_refuted.
