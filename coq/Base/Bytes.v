(** Bytes, little-endian serialisation and the wrap-around lemmas used everywhere. *)
From Coq Require Import List ZArith Lia Bool.
Import ListNotations.
Local Open Scope Z_scope.

Notation byte := Z (only parsing).

Definition is_byte (b : Z) : bool := (0 <=? b) && (b <? 256).

(** [le n z]: the [n] low-order bytes of [z], least significant first.  This is what
    Go's [byte(x), byte(x>>8), ...] and [binary.LittleEndian.PutUintNN(uintNN(x))] produce
    for any (two's complement) integer [x]: Z.modulo / Z.div are floor-based, which is
    exactly two's-complement truncation. *)
Fixpoint le (n : nat) (z : Z) : list byte :=
  match n with
  | O => []
  | S k => (z mod 256) :: le k (z / 256)
  end.

Fixpoint le_decode (bs : list byte) : Z :=
  match bs with
  | [] => 0
  | b :: r => b + 256 * le_decode r
  end.

(** signed reinterpretation of an [n]-byte field *)
Definition sign_ext (bits : Z) (u : Z) : Z :=
  if u <? 2 ^ (bits - 1) then u else u - 2 ^ bits.

Lemma le_length n z : length (le n z) = n.
Proof. revert z; induction n as [|n IH]; intros z; simpl; [reflexivity | now rewrite IH]. Qed.

Lemma le_all_bytes n z : Forall (fun b => 0 <= b < 256) (le n z).
Proof.
  revert z; induction n as [|n IH]; intros z; simpl; constructor.
  - apply Z.mod_pos_bound; lia.
  - apply IH.
Qed.

Lemma pow256_S n : 256 ^ Z.of_nat (S n) = 256 * 256 ^ Z.of_nat n.
Proof. rewrite Nat2Z.inj_succ, Z.pow_succ_r by lia; reflexivity. Qed.

Lemma le_decode_le n z : le_decode (le n z) = z mod 256 ^ Z.of_nat n.
Proof.
  revert z; induction n as [|n IH]; intros z.
  - simpl. now rewrite Z.mod_1_r.
  - cbn [le le_decode]. rewrite IH, pow256_S.
    assert (H : 0 < 256 ^ Z.of_nat n) by (apply Z.pow_pos_nonneg; lia).
    rewrite Z.rem_mul_r by lia. lia.
Qed.

Lemma le_mod n z : le n (z mod 256 ^ Z.of_nat n) = le n z.
Proof.
  revert z; induction n as [|n IH]; intros z; [reflexivity|].
  cbn [le]. rewrite pow256_S.
  assert (H : 0 < 256 ^ Z.of_nat n) by (apply Z.pow_pos_nonneg; lia).
  rewrite Z.rem_mul_r by lia.
  set (r := z mod 256). set (q := (z / 256) mod 256 ^ Z.of_nat n).
  assert (Hr : 0 <= r < 256) by (apply Z.mod_pos_bound; lia).
  f_equal.
  - rewrite (Z.mul_comm 256 q), Z_mod_plus_full. apply Z.mod_small; lia.
  - rewrite (Z.mul_comm 256 q), Z_div_plus_full by lia. rewrite (Z.div_small r 256) by lia.
    rewrite Z.add_0_l. unfold q. apply IH.
Qed.

Lemma le_eq_mod n a b : a mod 256 ^ Z.of_nat n = b mod 256 ^ Z.of_nat n -> le n a = le n b.
Proof. intros H. rewrite <- (le_mod n a), <- (le_mod n b), H. reflexivity. Qed.

Lemma le_decode_range bs : Forall (fun b => 0 <= b < 256) bs -> 0 <= le_decode bs < 256 ^ Z.of_nat (length bs).
Proof.
  induction 1 as [|b r Hb Hr IH]; [simpl; lia|].
  cbn [le_decode length]. rewrite pow256_S. lia.
Qed.

Lemma le_le_decode bs : Forall (fun b => 0 <= b < 256) bs -> le (length bs) (le_decode bs) = bs.
Proof.
  induction 1 as [|b r Hb Hr IH]; [reflexivity|].
  cbn [le_decode length le]. f_equal.
  - rewrite (Z.mul_comm 256), Z_mod_plus_full. apply Z.mod_small; lia.
  - rewrite (Z.mul_comm 256), Z_div_plus_full by lia. rewrite Z.div_small by lia. exact IH.
Qed.

(** zeros *)
Definition zeros (n : Z) : list byte := repeat 0 (Z.to_nat n).
Lemma zeros_length n : 0 <= n -> Z.of_nat (length (zeros n)) = n.
Proof. intros; unfold zeros; rewrite repeat_length; lia. Qed.

Definition zlen {A} (l : list A) : Z := Z.of_nat (length l).
Lemma zlen_app {A} (a b : list A) : zlen (a ++ b) = zlen a + zlen b.
Proof. unfold zlen; rewrite app_length; lia. Qed.
Lemma zlen_nonneg {A} (l : list A) : 0 <= zlen l.
Proof. unfold zlen; lia. Qed.
Lemma zlen_le n z : zlen (le n z) = Z.of_nat n.
Proof. unfold zlen; now rewrite le_length. Qed.

(** Go integer conversions *)
Definition wrap (bits : Z) (z : Z) : Z := z mod 2 ^ bits.
Definition swrap (bits : Z) (z : Z) : Z := sign_ext bits (z mod 2 ^ bits).   (* intNN(z) *)
Definition int32 := swrap 32.
Definition int64 := swrap 64.
Definition uint32 := wrap 32.

Lemma swrap_id bits z : 0 < bits -> - 2 ^ (bits - 1) <= z < 2 ^ (bits - 1) -> swrap bits z = z.
Proof.
  intros Hb H. unfold swrap, sign_ext.
  assert (E : 2 ^ bits = 2 * 2 ^ (bits - 1)).
  { replace bits with (Z.succ (bits - 1)) at 1 by lia. rewrite Z.pow_succ_r by lia. reflexivity. }
  destruct (Z_lt_dec z 0) as [Hn|Hn].
  - replace (z mod 2 ^ bits) with (z + 2 ^ bits).
    + destruct (z + 2 ^ bits <? 2 ^ (bits - 1)) eqn:E1; lia.
    + symmetry. rewrite <- (Z.mod_add z 1) by lia. rewrite Z.mul_1_l. apply Z.mod_small. lia.
  - rewrite Z.mod_small by lia. destruct (z <? 2 ^ (bits - 1)) eqn:E1; lia.
Qed.

Lemma swrap_mod bits z : 0 < bits -> (swrap bits z) mod 2 ^ bits = z mod 2 ^ bits.
Proof.
  intros Hb. unfold swrap, sign_ext.
  assert (0 < 2 ^ bits) by (apply Z.pow_pos_nonneg; lia).
  destruct (_ <? _).
  - apply Z.mod_mod; lia.
  - rewrite <- (Z.mod_add _ 1) by lia. replace (z mod 2 ^ bits - 2 ^ bits + 1 * 2 ^ bits) with (z mod 2 ^ bits) by lia.
    apply Z.mod_mod; lia.
Qed.

Lemma int32_id z : - 2 ^ 31 <= z < 2 ^ 31 -> int32 z = z.
Proof. intros H. unfold int32. apply swrap_id; [lia|]. change (32 - 1) with 31. exact H. Qed.
Lemma int64_id z : - 2 ^ 63 <= z < 2 ^ 63 -> int64 z = z.
Proof. intros H. unfold int64. apply swrap_id; [lia|]. change (64 - 1) with 63. exact H. Qed.
