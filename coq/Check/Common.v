From Coq Require Import List ZArith Bool String.
Import ListNotations.
Local Open Scope Z_scope.

(** indices of the items on which [check] is false *)
Fixpoint find_bad {A} (check : A -> bool) (i : Z) (l : list A) : list Z :=
  match l with
  | [] => []
  | x :: r => if check x then find_bad check (i + 1) r else i :: find_bad check (i + 1) r
  end.

Fixpoint list_eqb (a b : list Z) : bool :=
  match a, b with
  | [], [] => true
  | x :: a', y :: b' => (x =? y) && list_eqb a' b'
  | _, _ => false
  end.

Lemma list_eqb_eq a b : list_eqb a b = true <-> a = b.
Proof.
  revert b; induction a as [|x a IH]; destruct b as [|y b]; simpl; split; try congruence; try reflexivity.
  - intros H. apply andb_prop in H as [H1 H2]. apply Z.eqb_eq in H1. apply IH in H2. congruence.
  - intros H. inversion H; subst. rewrite Z.eqb_refl. simpl. now apply IH.
Qed.
