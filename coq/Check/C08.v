From Coq Require Import List ZArith String Bool.
From Gosk Require Import Base.Bytes Model.Ast Model.Asm Model.Coff Model.Top Model.Encoder Spec.CoffRead Check.Common.
Import ListNotations.
Local Open Scope Z_scope.

(** spec on implementation output: the independent reader accepts the object and the layout is consistent *)
(* the auxiliary record of each section symbol (.text/.data/.bss, records 1..3) repeats the section's raw size in its
   first four bytes (PE/COFF "auxiliary format 5: section definitions") *)
Definition sec_aux_ok (o : coff_obj) : bool :=
  match o_symbols o, o_sections o with
  | _ :: st :: sd :: sb :: _, [t; d; b] =>
      forallb (fun '(y, sec) => (y_naux y =? 1) && (le_decode (firstn 4 (y_aux y)) =? s_rawsize sec)) [(st, t); (sd, d); (sb, b)]
  | _, _ => false
  end.

Definition check_c08_read (f : list Z) : Z :=
  match coff_read f with
  | Some o => if wellformed f o && sec_aux_ok o then 0 else 1
  | None => 2
  end.

(** model vs implementation, whole file *)
Definition check_file (c : program * (Z * list Z * bool)) : bool :=
  let '(k, bs, d) := snd c in
  match assemble_file gosk_encoder (fst c) with
  | FDone img dg => (k =? 0) && list_eqb img bs && Bool.eqb dg d
  | FPanicked => k =? 1
  | FOverflowed => k =? 2
  | FUnmodelled => true
  end.

(** C09: .text equals the flat binary; the symbol records after the four fixed ones are exactly
    [expected] = (name bytes, value, section) in order; .file aux holds [file] zero-padded to 18 *)
Definition sym_matches (y : symbol) (e : list Z * Z * Z) : bool :=
  let '(nm, v, sec) := e in
  list_eqb (y_name y) nm && (y_value y =? v) && (y_section y =? sec) && (y_class y =? 2) && (y_naux y =? 0).

Fixpoint syms_match (ys : list symbol) (es : list (list Z * Z * Z)) : bool :=
  match ys, es with
  | [], [] => true
  | y :: ys', e :: es' => sym_matches y e && syms_match ys' es'
  | _, _ => false
  end.

(* result code: 0 ok, 1 unreadable, 2 .text differs from flat, 3 symbol list differs, 4 .file aux differs *)
Definition check_c09 (c : list Z * list Z * list (list Z * Z * Z) * list Z) : Z :=
  let '(obj, flat, expected, file) := c in
  match coff_read obj with
  | None => 1
  | Some o =>
      match text_of obj o with
      | None => 1
      | Some t =>
          if negb (list_eqb t flat) then 2 else
          match o_symbols o with
          | f0 :: _ :: _ :: _ :: rest =>
              if negb (syms_match rest expected) then 3
              else if negb (list_eqb (take_until_nul (y_aux f0)) file && (zlen (y_aux f0) =? 18 * y_naux f0)) then 4 else 0
          | _ => 3
          end
      end
  end.

(* whole file, bytes only *)
Definition check_file_bytes (c : program * (Z * list Z * bool)) : bool :=
  let '(k, bs, d) := snd c in
  match assemble_file gosk_encoder (fst c) with
  | FDone img _ => list_eqb img bs
  | FUnmodelled => true
  | _ => false
  end.
