From Coq Require Import List ZArith String Bool.
From Gosk Require Import Base.Bytes Model.Ast Spec.Branch Spec.X86 Spec.Denote Check.Common.
Import ListNotations.
Local Open Scope Z_scope.

(** spec evaluated on implementation output, one statement:
    0 = bytes decode (under the mode) to exactly the instruction the statement denotes, full length consumed
    1 = undecodable; 2 = decodes to a different instruction; 3 = decoded length <> emitted length;
    4 = the statement has no denotation in the specification (outside the fragment) *)
Definition check_c01 (c : Z * stmt * list Z) : Z :=
  let '(m, st, bs) := c in
  let bm := if m =? 16 then B16 else B32 in
  match denote bm st with
  | None => 4
  | Some want =>
      match decode bm bs with
      | None => 1
      | Some (got, n) =>
          if negb (instr_eqb got want) then 2
          else if negb (n =? zlen bs) then 3 else 0
      end
  end.

(** C02 projection: only the memory operand (effective address) and the length *)
Definition mem_of (i : instr) : option eaddr :=
  match find (fun o => match o with OMem _ => true | _ => false end) (i_ops i) with
  | Some (OMem ea) => Some ea
  | _ => None
  end.

Definition check_c02 (c : Z * stmt * list Z) : Z :=
  let '(m, st, bs) := c in
  let bm := if m =? 16 then B16 else B32 in
  match denote bm st with
  | None => 4
  | Some want =>
      match decode bm bs, mem_of want with
      | Some (got, n), Some ea =>
          match mem_of got with
          | Some ea' => if negb (ea_eqb ea' ea) then 2 else if negb (n =? zlen bs) then 3 else 0
          | None => 2
          end
      | None, _ => 1
      | _, None => 4
      end
  end.

(** C18: 0 = emitted length <= shortest valid encoding of the denoted instruction; 5 = longer;
    4 = outside the compact-form families; 1/2 = the bytes do not decode to the statement (C01's business) *)
From Gosk Require Import Spec.X86Len.
Definition check_c18 (c : Z * stmt * list Z) : Z :=
  let '(m, st, bs) := c in
  let bm := if m =? 16 then B16 else B32 in
  match denote bm st with
  | None => 4
  | Some want =>
      match shortest bm want with
      | None => 4
      | Some best => if zlen bs <=? best then 0 else 5
      end
  end.
