(** Walk an image statement by statement (the observation point of C03/C04/C17): data directives by
    their specified length, instructions by the ISA decoder under the mode in force; collect the
    address every label really has; then compare every embedded label value, every branch landing
    address and every `$` with those real addresses. *)
From Coq Require Import List ZArith String Bool.
From Gosk Require Import Base.Bytes Model.Ast Spec.Arith Spec.Data Spec.DataProg Spec.Branch Spec.X86 Spec.Denote Check.Common.
Import ListNotations.
Local Open Scope string_scope.
Local Open Scope list_scope.
Local Open Scope Z_scope.

Definition is_jump_name (n : string) : bool := match kind_of_name n with Some _ => true | None => false end.

Record wstate := { ws_off : Z; ws_org : Z; ws_mode : bmode; ws_labels : smap; ws_equs : smap; ws_err : Z (* 0 = ok *); ws_k : Z }.

Definition fail (s : wstate) (code : Z) : wstate :=
  {| ws_off := ws_off s; ws_org := ws_org s; ws_mode := ws_mode s; ws_labels := ws_labels s; ws_equs := ws_equs s;
     ws_err := (if ws_err s =? 0 then 100 * ws_k s + code else ws_err s); ws_k := ws_k s |}.

Definition adv (s : wstate) (n : Z) : wstate :=
  {| ws_off := ws_off s + n; ws_org := ws_org s; ws_mode := ws_mode s; ws_labels := ws_labels s; ws_equs := ws_equs s; ws_err := ws_err s; ws_k := ws_k s + 1 |}.

(** far jump to an absolute pointer (SDM: JMP ptr16:16 / ptr16:32, opcode EA, offset in the operand size then a 16-bit
    selector; a 66h prefix toggles the operand size): (selector, offset, length, offset width in bits) *)
Definition decode_farjmp (m : bmode) (bs : list byte) : option (Z * Z * Z * Z) :=
  let '(p66, r) := match bs with 102 :: r => (true, r) | _ => (false, bs) end in
  let os := opsize m p66 in
  let w := if os =? 16 then 2%nat else 4%nat in
  match r with
  | 234 :: r1 =>
      match take w r1, take 2 (skipn w r1) with
      | Some o, Some sg => Some (le_decode sg, le_decode o, (if p66 then 1 else 0) + 1 + Z.of_nat w + 2, os)
      | _, _ => None
      end
  | _ => None
  end.

Definition far_operand (ops : list exp) : option (exp * exp) :=
  match ops with [ESeg _ l (Some r)] => Some (l, r) | _ => None end.

Definition instr_len (m : bmode) (name : string) (bs : list Z) : option Z :=
  if is_jump_name name then match decode_branch m bs with Some b => Some (b_len b) | None => None end
  else match decode m bs with Some (_, n) => Some n | None => None end.

(* pass 1: lengths only *)
Definition walk1 (img : list Z) (s : wstate) (st : stmt) : wstate :=
  if negb (ws_err s =? 0) then s else
  let a := ws_org s + ws_off s in
  match st with
  | SLabel l => {| ws_off := ws_off s; ws_org := ws_org s; ws_mode := ws_mode s; ws_labels := (l, a) :: ws_labels s; ws_equs := ws_equs s; ws_err := 0; ws_k := ws_k s + 1 |}
  | SEqu n e => match aeval (rho_of a (ws_equs s) (ws_labels s)) e with
                | Some v => {| ws_off := ws_off s; ws_org := ws_org s; ws_mode := ws_mode s; ws_labels := ws_labels s; ws_equs := (n, v) :: ws_equs s; ws_err := 0; ws_k := ws_k s + 1 |}
                | None => adv s 0          (* symbolic EQU body: not needed for lengths *)
                end
  | SConfig CBits (FNum 16) => {| ws_off := ws_off s; ws_org := ws_org s; ws_mode := B16; ws_labels := ws_labels s; ws_equs := ws_equs s; ws_err := 0; ws_k := ws_k s + 1 |}
  | SConfig CBits (FNum 32) => {| ws_off := ws_off s; ws_org := ws_org s; ws_mode := B32; ws_labels := ws_labels s; ws_equs := ws_equs s; ws_err := 0; ws_k := ws_k s + 1 |}
  | SGlobal _ | SExtern _ | SConfig _ _ => adv s 0
  | SOp name =>
      match instr_len (ws_mode s) name (skipn (Z.to_nat (ws_off s)) img) with Some n => adv s n | None => fail s 1 end
  | SMnem op ops =>
      if String.eqb op "ORG" then
        match ops with
        | [e] => match aeval (rho_of a (ws_equs s) (ws_labels s)) e with
                 | Some v => {| ws_off := ws_off s; ws_org := v - ws_off s; ws_mode := ws_mode s; ws_labels := ws_labels s; ws_equs := ws_equs s; ws_err := 0; ws_k := ws_k s + 1 |}
                 | None => fail s 2
                 end
        | _ => fail s 2
        end
      else match width_of op with
      | Some w => adv s (fold_left (fun n e => n + operand_len w e) ops 0)
      | None =>
          if String.eqb op "RESB" || String.eqb op "ALIGNB" then
            match stmt_size a (ws_equs s) (ws_labels s) st with Some n => adv s n | None => fail s 2 end
          else if String.eqb op "JMP" && (match far_operand ops with Some _ => true | None => false end) then
            match decode_farjmp (ws_mode s) (skipn (Z.to_nat (ws_off s)) img) with Some (_, _, n, _) => adv s n | None => fail s 1 end
          else match instr_len (ws_mode s) op (skipn (Z.to_nat (ws_off s)) img) with Some n => adv s n | None => fail s 1 end
      end
  end.

(* pass 2: embedded values, with all labels known *)
Definition check_data (w : nat) (rho : env) (img : list Z) (off : Z) (ops : list exp) : bool :=
  snd (fold_left (fun acc e =>
         let '(o, ok) := acc in
         match as_string e with
         | Some bs => (o + zlen bs, ok && list_eqb (firstn (Datatypes.length bs) (skipn (Z.to_nat o) img)) bs)
         | None =>
             match aeval rho e with
             | Some v => (o + Z.of_nat w, ok && list_eqb (firstn w (skipn (Z.to_nat o) img)) (le w v))
             | None => (o + Z.of_nat w, false)
             end
         end) ops (off, true)).

Definition walk2 (labels : smap) (img : list Z) (s : wstate) (st : stmt) : wstate :=
  if negb (ws_err s =? 0) then s else
  let a := ws_org s + ws_off s in
  let rho := rho_of a (ws_equs s) labels in
  let here := skipn (Z.to_nat (ws_off s)) img in
  match st with
  | SOp name => match instr_len (ws_mode s) name here with Some n => adv s n | None => fail s 1 end
  | SMnem op ops =>
      if String.eqb op "ORG" || String.eqb op "RESB" || String.eqb op "ALIGNB" then walk1 img s st
      else match width_of op with
      | Some w => if check_data w rho img (ws_off s) ops then walk1 img s st else fail s 3
      | None =>
          if String.eqb op "JMP" && (match far_operand ops with Some _ => true | None => false end) then
            match decode_farjmp (ws_mode s) here, far_operand ops with
            | Some (sg, off, n, os), Some (l, r) =>
                match aeval rho l, aeval rho r with
                | Some vs, Some vo => if (sg =? vs mod 2 ^ 16) && (off =? vo mod 2 ^ os) then adv s n else fail s 6
                | _, _ => fail s 2
                end
            | _, _ => fail s 1
            end
          else if is_jump_name op then
            match decode_branch (ws_mode s) here, kind_of_name op, ops with
            | Some b, Some k, [e] =>
                match aeval rho e with
                | Some target =>
                    if negb (bkind_eqb (b_kind b) k) then fail s 4
                    else if negb (landing a b =? target mod 2 ^ (b_opsize b)) then fail s 5
                    else adv s (b_len b)
                | None => fail s 2
                end
            | _, _, _ => fail s 1
            end
          else
            match decode (ws_mode s) here, denote_env rho (ws_mode s) st with
            | Some (got, n), Some want => if instr_eqb got want then adv s n else fail s 6
            | None, _ => fail s 1
            | _, None => fail s 7
            end
      end
  | _ => walk1 img s st
  end.

(** (initial mode, program, image) -> 0 when every label, `$` and branch target refers to the byte at which the
    labelled statement really begins and the image is consumed exactly; otherwise 100*k + code for statement k:
    1 undecodable, 2 outside fragment, 3 data value differs, 4 wrong branch kind, 5 branch lands elsewhere,
    6 instruction differs from its denotation (embedded label/immediate), 7 no denotation, 8 image length differs from the walk *)
Definition check_c03 (c : program * list Z) : Z :=
  let '(p, img) := c in
  let s0 := {| ws_off := 0; ws_org := 0; ws_mode := B16; ws_labels := []; ws_equs := []; ws_err := 0; ws_k := 0 |} in
  let s1 := fold_left (walk1 img) p s0 in
  if negb (ws_err s1 =? 0) then ws_err s1
  else if negb (ws_off s1 =? zlen img) then 100 * ws_k s1 + 8
  else ws_err (fold_left (walk2 (ws_labels s1) img) p s0).
