(** Whole-program correspondence: model outcome vs. the observed outcome of the implementation. *)
From Coq Require Import List ZArith String Bool.
From Gosk Require Import Base.Bytes Model.Ast Model.Eval Model.Asm Model.Encoder Check.Common.
Import ListNotations.
Local Open Scope Z_scope.

(* observed: kind 0 = finished (bytes, diag flag), 1 = panic, 2 = process died *)
Definition obs := (Z * list Z * bool)%type.

Definition outcome_matches (o : outcome) (x : obs) : bool :=
  let '(k, bs, d) := x in
  match o with
  | Done t dg _ => (k =? 0) && list_eqb t bs && Bool.eqb dg d
  | Panicked => k =? 1
  | Overflowed => k =? 2
  | Unmodelled => true
  end.

Definition check_flat (c : program * obs) : bool :=
  outcome_matches (assemble gosk_encoder (fst c)) (snd c).

(* bytes only (diag flag ignored) *)
Definition check_flat_bytes (c : program * obs) : bool :=
  let '(k, bs, d) := snd c in
  match assemble gosk_encoder (fst c) with
  | Done t _ _ => (k =? 0) && list_eqb t bs
  | Panicked => k =? 1
  | Overflowed => k =? 2
  | Unmodelled => true
  end.
