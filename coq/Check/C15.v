From Coq Require Import List ZArith String Bool.
From Gosk Require Import Base.Bytes Spec.CoffRead Check.Common.
Import ListNotations.
Local Open Scope Z_scope.

Definition sym_same_but_name (a b : symbol) : bool :=
  (y_value a =? y_value b) && (y_section a =? y_section b) && (y_type a =? y_type b) && (y_class a =? y_class b) && (y_naux a =? y_naux b)
  && list_eqb (y_aux a) (y_aux b).

Fixpoint all2 {A} (f : A -> A -> bool) (a b : list A) : bool :=
  match a, b with [], [] => true | x :: a', y :: b' => f x y && all2 f a' b' | _, _ => false end.

(* the renamed object must carry the renamed names: symbol i of the second object is called ren(name of symbol i of the first) *)
Definition apply_ren (ren : list (list Z * list Z)) (n : list Z) : list Z :=
  match find (fun p => list_eqb (fst p) n) ren with Some p => snd p | None => n end.

Definition names_renamed (ren : list (list Z * list Z)) (o1 o2 : coff_obj) : bool :=
  all2 (fun a b => list_eqb (y_name b) (apply_ren ren (y_name a))) (skipn 4 (o_symbols o1)) (skipn 4 (o_symbols o2)).

(* 0 = the two objects differ only in symbol-name fields and the string table, and the names are the renamed ones *)
Definition check_c15_coff_ren (c : list Z * list Z * list (list Z * list Z)) : Z :=
  let '(f1, f2, ren) := c in
  match coff_read f1, coff_read f2 with
  | Some o1, Some o2 =>
      match text_of f1 o1, text_of f2 o2 with
      | Some t1, Some t2 =>
          if negb (list_eqb t1 t2) then 2
          else if negb (o_nsyms o1 =? o_nsyms o2) then 3
          else if negb (all2 sym_same_but_name (o_symbols o1) (o_symbols o2)) then 4
          else if negb (list_eqb (firstn 140 f1) (firstn 140 f2)) then 5
          else if negb (names_renamed ren o1 o2) then 6 else 0
      | _, _ => 1
      end
  | _, _ => 1
  end.

(* 0 = the two objects differ only in symbol-name fields and the string table *)
Definition check_c15_coff (c : list Z * list Z) : Z :=
  match coff_read (fst c), coff_read (snd c) with
  | Some o1, Some o2 =>
      match text_of (fst c) o1, text_of (snd c) o2 with
      | Some t1, Some t2 =>
          if negb (list_eqb t1 t2) then 2
          else if negb (o_nsyms o1 =? o_nsyms o2) then 3
          else if negb (all2 sym_same_but_name (o_symbols o1) (o_symbols o2)) then 4
          else if negb (list_eqb (firstn 140 (fst c)) (firstn 140 (snd c))) then 5 else 0
      | _, _ => 1
      end
  | _, _ => 1
  end.
