From Coq Require Import List ZArith String Bool.
From Gosk Require Import Base.Bytes Spec.Branch Check.Common.
Import ListNotations.
Local Open Scope Z_scope.

(** one observation: mode (16/32), origin, offset of the branch in the image, mnemonic,
    expected target address, the image.
    result: 0 lands on target with the named condition; 1 undecodable; 2 wrong kind/condition;
            3 lands elsewhere; 4 the bytes after the branch are not where the layout says (length drift) *)
Definition check_c04 (c : Z * Z * Z * string * Z * Z * list Z) : Z :=
  let '(m, origin, off, name, target, next_expected, img) := c in
  let bm := if m =? 16 then B16 else B32 in
  match decode_branch bm (skipn (Z.to_nat off) img), kind_of_name name with
  | Some b, Some k =>
      if negb (bkind_eqb (b_kind b) k) then 2
      else if negb (landing (origin + off) b =? target mod 2 ^ (b_opsize b)) then 3
      else if (0 <=? next_expected) && negb (off + b_len b =? next_expected) then 4
      else 0
  | _, _ => 1
  end.
