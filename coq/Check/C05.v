From Coq Require Import List ZArith String Bool.
From Gosk Require Import Base.Bytes Model.Ast Spec.DataProg Check.Common.
Import ListNotations.
Local Open Scope Z_scope.

(** direct evaluation of the C05 specification on the implementation's output *)
Definition check_c05_spec (c : program * list Z) : bool :=
  match ref_data_program (fst c) with
  | Some bs => list_eqb bs (snd c)
  | None => false
  end.

(* 0 = output equals the specification, 1 = differs, 2 = program outside the specified fragment
   (e.g. an expression divides by zero) *)
Definition check_c05_code (c : program * list Z) : Z :=
  match ref_data_program (fst c) with
  | Some bs => if list_eqb bs (snd c) then 0 else 1
  | None => 2
  end.
