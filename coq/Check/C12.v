From Coq Require Import List ZArith Bool.
From Gosk Require Import Model.Lex Check.Common.
Import ListNotations.
Local Open Scope Z_scope.
(* (bytes = w ++ "NOP\n", did the real parser produce exactly one NOP statement?) *)
Definition check_lex (c : list Z * bool) : bool :=
  Bool.eqb (list_eqb (skip_layout (length (fst c)) (fst c)) [78; 79; 80; 10]) (snd c).
