From Coq Require Import List ZArith String Bool.
From Gosk Require Import Base.Bytes Model.Ast Spec.Arith Check.Common.
Import ListNotations.
Local Open Scope Z_scope.
(* value of a closed constant expression per the specification; -1 tag when undefined *)
Definition spec_value (e : exp) : Z * Z :=
  match aeval (fun _ => None) e with Some v => (0, v) | None => (1, 0) end.

(* the specification's value as a plain Z for the harness; 2^200 when the expression has no value (division by zero) *)
Definition spec_value_z (e : exp) : Z :=
  match aeval (fun _ => None) e with Some v => v | None => 2 ^ 200 end.
