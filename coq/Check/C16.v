(** C16: positions of embedded absolute references (label / `$` values) in an image, obtained by
    walking it statement by statement, and the relocation relation between two images. *)
From Coq Require Import List ZArith String Bool.
From Gosk Require Import Base.Bytes Model.Ast Spec.Arith Spec.Data Spec.DataProg Spec.Branch Spec.X86 Spec.Denote Check.Common Check.C03.
Import ListNotations.
Local Open Scope string_scope.
Local Open Scope list_scope.
Local Open Scope Z_scope.

(* does the expression mention `$` or one of the labels? *)
Fixpoint mentions (labels : list string) (fuel : nat) (e : exp) : bool :=
  match fuel with
  | O => true
  | S f =>
      match e with
      | EImm (FId s) => String.eqb s "$" || existsb (String.eqb s) labels
      | EImm _ | ENum _ => false
      | EAdd h t => mentions labels f h || existsb (fun x => mentions labels f (snd x)) t
      | EMul h t => mentions labels f h || existsb (fun x => mentions labels f (snd x)) t
      | EMem _ _ l r => mentions labels f l || match r with Some x => mentions labels f x | None => false end
      | ESeg _ l r => mentions labels f l || match r with Some x => mentions labels f x | None => false end
      end
  end.

Definition data_sites (labels : list string) (w : nat) (off : Z) (ops : list exp) : list (Z * Z) :=
  snd (fold_left (fun acc e =>
         let '(o, sites) := acc in
         match as_string e with
         | Some bs => (o + zlen bs, sites)
         | None => (o + Z.of_nat w, if mentions labels 50 e then (o, Z.of_nat w) :: sites else sites)
         end) ops (off, [])).

(* sites of one statement at offset [off] given its length [n] *)
Definition stmt_sites (labels : list string) (m : bmode) (off n : Z) (st : stmt) : list (Z * Z) :=
  match st with
  | SMnem op ops =>
      match width_of op with
      | Some w => data_sites labels w off ops
      | None =>
          if is_jump_name op then []
          else if existsb (mentions labels 50) ops then
            (* a label used as immediate or displacement: the field is the trailing bytes of the instruction;
               its width is the operand size of the register operand (MOV r,label) *)
            let w := match ops with
                     | EAdd (EMul (EImm (FId r)) []) [] :: _ =>
                         match reg_operand r with Some (OReg 16 _) => 2 | Some (OReg 32 _) => 4 | Some (OReg 8 _) => 1 | _ => 2 end
                     | _ => match m with B16 => 2 | B32 => 4 end
                     end in
            [(off + n - w, w)]
          else []
      end
  | _ => []
  end.

Definition collect_sites (p : program) (img : list Z) : option (list (Z * Z)) :=
  let s0 := {| ws_off := 0; ws_org := 0; ws_mode := B16; ws_labels := []; ws_equs := []; ws_err := 0; ws_k := 0 |} in
  let labels := flat_map (fun st => match st with SLabel l => [l] | _ => [] end) p in
  let step (acc : wstate * list (Z * Z)) (st : stmt) :=
    let '(s, sites) := acc in
    let s' := walk1 img s st in
    (s', stmt_sites labels (ws_mode s) (ws_off s) (ws_off s' - ws_off s) st ++ sites) in
  let '(s1, sites) := fold_left step p (s0, []) in
  if (ws_err s1 =? 0) && (ws_off s1 =? zlen img) then Some sites else None.

Fixpoint in_site (i : Z) (sites : list (Z * Z)) : bool :=
  match sites with
  | [] => false
  | (o, w) :: r => ((o <=? i) && (i <? o + w)) || in_site i r
  end.

Fixpoint same_outside (sites : list (Z * Z)) (i : Z) (a b : list Z) : bool :=
  match a, b with
  | [], [] => true
  | x :: a', y :: b' => (in_site i sites || (x =? y)) && same_outside sites (i + 1) a' b'
  | _, _ => false
  end.

Definition field (img : list Z) (o w : Z) : Z := le_decode (firstn (Z.to_nat w) (skipn (Z.to_nat o) img)).

(** 0 = same length, identical outside the absolute-reference fields, every field moved by exactly delta;
    1 = image 1 cannot be walked; 2 = lengths differ; 3 = bytes outside the fields differ; 4 = a field did not move by delta *)
Definition check_c16 (c : program * list Z * list Z * Z) : Z :=
  let '(p1, img1, img2, delta) := c in
  match collect_sites p1 img1 with
  | None => 1
  | Some sites =>
      if negb (zlen img1 =? zlen img2) then 2
      else if negb (same_outside sites 0 img1 img2) then 3
      else if forallb (fun s => let '(o, w) := s in (field img2 o w =? (field img1 o w + delta) mod 2 ^ (8 * w))) sites then 0 else 4
  end.
