(** What a source statement means (registers by name, width by register or BYTE/WORD/DWORD,
    immediates by Spec/Arith, effective address by summing the bracket expression).
    Independent of Model/. *)
From Coq Require Import List ZArith String Bool.
From Gosk Require Import Base.Bytes Model.Ast Spec.Arith Spec.Branch Spec.X86.
Import ListNotations.
Local Open Scope string_scope.
Local Open Scope list_scope.
Local Open Scope Z_scope.

Fixpoint idx (s : string) (l : list string) (i : Z) : option Z :=
  match l with [] => None | x :: r => if String.eqb s x then Some i else idx s r (i + 1) end.

Definition n8 := ["AL"; "CL"; "DL"; "BL"; "AH"; "CH"; "DH"; "BH"].
Definition n16 := ["AX"; "CX"; "DX"; "BX"; "SP"; "BP"; "SI"; "DI"].
Definition n32 := ["EAX"; "ECX"; "EDX"; "EBX"; "ESP"; "EBP"; "ESI"; "EDI"].
Definition nseg := ["ES"; "CS"; "SS"; "DS"; "FS"; "GS"].
Definition ncr := ["CR0"; "CR1"; "CR2"; "CR3"; "CR4"].

Definition reg_operand (s : string) : option operand :=
  match idx s n8 0 with Some n => Some (OReg 8 n) | None =>
  match idx s n16 0 with Some n => Some (OReg 16 n) | None =>
  match idx s n32 0 with Some n => Some (OReg 32 n) | None =>
  match idx s nseg 0 with Some n => Some (OSreg n) | None =>
  match idx s ncr 0 with Some n => Some (OCreg n) | None => None end end end end end.

Definition no_env : env := fun _ => None.

Section WithEnv.
Variable rho : env.

(* a plain operand: register name or constant expression *)
Definition plain_operand (e : exp) : option operand :=
  match e with
  | EAdd (EMul (EImm (FId s)) []) [] =>
      match reg_operand s with Some o => Some o | None => None end
  | _ => match aeval rho e with Some v => Some (OImm v) | None => None end
  end.

(* terms of a bracket expression *)
Inductive aterm := AReg (w : Z) (n : Z) (scale : Z) | AConst (v : Z).

Definition term_of_mul (m : exp) : option aterm :=
  match m with
  | EMul (EImm (FId s)) [] =>
      match idx s n16 0, idx s n32 0 with
      | Some n, _ => Some (AReg 16 n 1) | _, Some n => Some (AReg 32 n 1) | None, None => None
      end
  | EMul (EImm (FId s)) [(OpMul, k)] =>
      match idx s n32 0, aeval rho k with Some n, Some sc => Some (AReg 32 n sc) | _, _ => None end
  | _ => match aeval rho m with Some v => Some (AConst v) | None => None end
  end.

Record acc := { a_w : Z; a_base : option Z; a_index : option Z; a_scale : Z; a_disp : Z; a_ok : bool }.

Definition add_term (neg : bool) (a : acc) (t : aterm) : acc :=
  match t with
  | AConst v => {| a_w := a_w a; a_base := a_base a; a_index := a_index a; a_scale := a_scale a; a_disp := a_disp a + (if neg then - v else v); a_ok := a_ok a |}
  | AReg w n sc =>
      let bad := {| a_w := w; a_base := a_base a; a_index := a_index a; a_scale := a_scale a; a_disp := a_disp a; a_ok := false |} in
      if neg then bad else
      if w =? 16 then
        (* 16-bit addressing: BX/BP are base registers, SI/DI index registers *)
        if (n =? 3) || (n =? 5) then
          match a_base a with None => {| a_w := 16; a_base := Some n; a_index := a_index a; a_scale := 1; a_disp := a_disp a; a_ok := a_ok a |} | Some _ => bad end
        else if (n =? 6) || (n =? 7) then
          match a_index a with None => {| a_w := 16; a_base := a_base a; a_index := Some n; a_scale := 1; a_disp := a_disp a; a_ok := a_ok a |} | Some _ => bad end
        else bad
      else
        if (sc =? 1) && match a_base a with None => true | Some _ => false end then
          {| a_w := 32; a_base := Some n; a_index := a_index a; a_scale := a_scale a; a_disp := a_disp a; a_ok := a_ok a |}
        else match a_index a with
             | None => if (n =? 4) then bad else {| a_w := 32; a_base := a_base a; a_index := Some n; a_scale := sc; a_disp := a_disp a; a_ok := a_ok a |}
             | Some _ => bad
             end
  end.

Definition ea_denote (m : bmode) (l : exp) : option eaddr :=
  match l with
  | EAdd h t =>
      let a0 := {| a_w := 0; a_base := None; a_index := None; a_scale := 1; a_disp := 0; a_ok := true |} in
      match term_of_mul h with
      | None => None
      | Some t0 =>
          let a1 := add_term false a0 t0 in
          let res := fold_left (fun a ot => match a with
                                            | None => None
                                            | Some a' => match term_of_mul (snd ot) with
                                                         | Some tm => Some (add_term (match fst ot with OpMinus => true | OpPlus => false end) a' tm)
                                                         | None => None
                                                         end
                                            end) t (Some a1) in
          match res with
          | Some a =>
              if negb (a_ok a) then None else
              let asz := if a_w a =? 0 then (match m with B16 => 16 | B32 => 32 end) else a_w a in
              Some {| ea_asize := asz; ea_base := a_base a; ea_index := a_index a; ea_scale := a_scale a; ea_disp := a_disp a |}
          | None => None
          end
      end
  | _ => None
  end.

Inductive sop := SPlain (o : operand) | SMem (dt : datatype) (ea : eaddr).

Definition src_operand (m : bmode) (e : exp) : option sop :=
  match e with
  | EMem dt _ l None => match ea_denote m l with Some ea => Some (SMem dt ea) | None => None end
  | EMem _ _ _ (Some _) | ESeg _ _ _ => None
  | _ => match plain_operand e with Some o => Some (SPlain o) | None => None end
  end.

Definition width_of_dt (dt : datatype) : option Z :=
  match dt with DtByte => Some 8 | DtWord => Some 16 | DtDword => Some 32 | DtNone => None end.

Definition reg_width (o : sop) : option Z :=
  match o with SPlain (OReg w _) => Some w | SPlain (OSreg _) => Some 16 | SPlain (OCreg _) => Some 32 | _ => None end.

(* operand size of a statement: from a register operand, else from a BYTE/WORD/DWORD keyword *)
Definition stmt_width (ops : list sop) : option Z :=
  match find (fun o => match reg_width o with Some _ => true | None => false end) ops with
  | Some o => reg_width o
  | None => match find (fun o => match o with SMem dt _ => match width_of_dt dt with Some _ => true | None => false end | _ => false end) ops with
            | Some (SMem dt _) => width_of_dt dt
            | _ => None
            end
  end.

Definition to_operand (o : sop) : operand := match o with SPlain x => x | SMem _ ea => OMem ea end.

Fixpoint all_some_sop (l : list (option sop)) : option (list sop) :=
  match l with
  | [] => Some []
  | None :: _ => None
  | Some x :: r => match all_some_sop r with Some r' => Some (x :: r') | None => None end
  end.

Definition mode_bits (m : bmode) : Z := match m with B16 => 16 | B32 => 32 end.

Definition denote_env (m : bmode) (st : stmt) : option instr :=
  match st with
  | SOp op =>
      (* synonyms the SDM lists for one encoding *)
      let op' := if String.eqb op "RETN" then "RET" else if String.eqb op "REPE" || String.eqb op "REPZ" then "REP"
                 else if String.eqb op "REPNZ" then "REPNE" else op in
      if String.eqb op "INT3" then Some {| i_op := "INT"; i_opsize := 8; i_ops := [OImm 3] |} else
      Some {| i_op := op'; i_opsize := mode_bits m; i_ops := [] |}
  | SMnem op es =>
      match all_some_sop (map (src_operand m) es) with
      | None => None
      | Some sops =>
          let ops := map to_operand sops in
          if String.eqb op "PUSH" || String.eqb op "POP" then
            match sops with
            | [SPlain (OReg w n)] => Some {| i_op := op; i_opsize := w; i_ops := ops |}
            | [SPlain (OSreg n)] => Some {| i_op := op; i_opsize := mode_bits m; i_ops := ops |}
            | [SPlain (OImm v)] => Some {| i_op := op; i_opsize := mode_bits m; i_ops := ops |}
            | [SMem dt ea] => Some {| i_op := op; i_opsize := match width_of_dt dt with Some w => w | None => mode_bits m end; i_ops := ops |}
            | _ => None
            end
          else if String.eqb op "INT" then Some {| i_op := op; i_opsize := 8; i_ops := ops |}
          else if String.eqb op "IN" then
            match sops with SPlain (OReg w 0) :: _ => Some {| i_op := op; i_opsize := w; i_ops := ops |} | _ => None end
          else if String.eqb op "OUT" then
            match sops with [_; SPlain (OReg w 0)] => Some {| i_op := op; i_opsize := w; i_ops := ops |} | _ => None end
          else if String.eqb op "IMUL" then
            match sops with
            | [SPlain (OReg w n); SPlain (OImm v)] => Some {| i_op := op; i_opsize := w; i_ops := [OReg w n; OReg w n; OImm v] |}
            | _ => match stmt_width sops with Some w => Some {| i_op := op; i_opsize := w; i_ops := ops |} | None => None end
            end
          else if String.eqb op "LGDT" then Some {| i_op := op; i_opsize := mode_bits m; i_ops := ops |}
          else
            match stmt_width sops with
            | Some w =>
                (* MOV with a segment register is a 16-bit move; with a control register a 32-bit move *)
                Some {| i_op := op; i_opsize := w; i_ops := ops |}
            | None => None
            end
      end
  | _ => None
  end.

End WithEnv.

Definition denote (m : bmode) (st : stmt) : option instr := denote_env no_env m st.
