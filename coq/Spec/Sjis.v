(** Byte-pairing structure of a Shift_JIS decoder (JIS X 0208 lead bytes 81-9F, E0-FC; trail bytes 40-7E, 80-FC;
    A1-DF are single-byte half-width katakana): which input bytes can be consumed as the second byte of a pair. *)
From Coq Require Import List ZArith Bool Lia.
Import ListNotations.
Local Open Scope Z_scope.

Definition is_lead (b : Z) : bool := ((129 <=? b) && (b <=? 159)) || ((224 <=? b) && (b <=? 252)).
Definition is_trail (b : Z) : bool := ((64 <=? b) && (b <=? 126)) || ((128 <=? b) && (b <=? 252)).

(** marks: for every input byte, true when it is the START of a decoding unit (an ASCII/katakana byte, a lead byte,
    or an invalid byte replaced on its own), false when it was swallowed as a trail byte *)
Fixpoint units (fuel : nat) (bs : list Z) : list bool :=
  match fuel with
  | O => []
  | S f =>
      match bs with
      | [] => []
      | b :: r =>
          if is_lead b then
            match r with
            | t :: r' => if is_trail t then true :: false :: units f r' else true :: units f r
            | [] => [true]
            end
          else true :: units f r
      end
  end.

(** a byte below 0x40 is never swallowed as a trail byte: LF, CR, semicolon, hash, double quote, space, digits, comma keep their role *)
Lemma low_bytes_never_trail : forall b, 0 <= b < 64 -> is_trail b = false.
Proof.
  intros b H. unfold is_trail.
  replace (64 <=? b) with false by (symmetry; apply Z.leb_gt; lia).
  replace (128 <=? b) with false by (symmetry; apply Z.leb_gt; lia). reflexivity.
Qed.

Lemma units_length : forall fuel bs, (length bs <= fuel)%nat -> length (units fuel bs) = length bs.
Proof.
  induction fuel as [|f IH]; intros bs H.
  - destruct bs; [reflexivity|simpl in H; lia].
  - destruct bs as [|b r]; [reflexivity|]. cbn [units].
    destruct (is_lead b).
    + destruct r as [|t r']; [reflexivity|].
      destruct (is_trail t); cbn [length]; rewrite IH; simpl in *; try lia.
    + cbn [length]. rewrite IH; simpl in *; lia.
Qed.

(** main lemma: wherever a byte below 0x40 occurs in the input it starts its own unit *)
Lemma low_byte_is_unit_start : forall fuel bs i b,
  (length bs <= fuel)%nat -> nth_error bs i = Some b -> 0 <= b < 64 -> nth_error (units fuel bs) i = Some true.
Proof.
  induction fuel as [|f IH]; intros bs i b Hf Hn Hb.
  - destruct bs; [destruct i; discriminate|simpl in Hf; lia].
  - destruct bs as [|x r]; [destruct i; discriminate|]. cbn [units].
    destruct (is_lead x) eqn:El.
    + destruct r as [|t r'].
      * destruct i as [|i]; [reflexivity|]. destruct i; discriminate.
      * destruct (is_trail t) eqn:Et.
        -- destruct i as [|[|i]].
           ++ reflexivity.
           ++ cbn in Hn. inversion Hn; subst. rewrite low_bytes_never_trail in Et by exact Hb. discriminate.
           ++ cbn [nth_error]. cbn in Hn. apply (IH r' i b); [simpl in Hf; lia | exact Hn | exact Hb].
        -- destruct i as [|i]; [reflexivity|]. cbn [nth_error]. cbn in Hn.
           apply (IH (t :: r') i b); [simpl in *; lia | exact Hn | exact Hb].
    + destruct i as [|i]; [reflexivity|]. cbn [nth_error]. cbn in Hn.
      apply (IH r i b); [simpl in *; lia | exact Hn | exact Hb].
Qed.
