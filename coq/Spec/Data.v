(** Specification of the data directives (property C05), independent of gosk. *)
From Coq Require Import List ZArith String Bool.
From Gosk Require Import Base.Bytes.
Import ListNotations.
Local Open Scope Z_scope.

Inductive dval :=
| DNum (v : Z)                (* a number or constant expression with this value *)
| DStr (bs : list Z)          (* a string literal *)
| DAddr (a : Z).              (* a label (or $) whose address is a *)

(** the bytes a directive of width w must emit for one operand *)
Definition spec_bytes (w : nat) (d : dval) : list byte :=
  match d with
  | DNum v => le w v
  | DStr bs => bs
  | DAddr a => le w a
  end.

Definition spec_data (w : nat) (ds : list dval) : list byte := flat_map (spec_bytes w) ds.

(** fewest zero bytes bringing address a to a multiple of n *)
Definition is_min_pad (a n p : Z) : Prop :=
  0 <= p /\ (a + p) mod n = 0 /\ forall q, 0 <= q -> (a + q) mod n = 0 -> p <= q.
