(** Independent specification of constant-expression arithmetic (property C06):
    ordinary integer arithmetic on 64-bit two's-complement integers,
    * / % bind tighter than + -, equal precedence associates left to right,
    division truncates toward zero.  Nothing here looks at gosk. *)
From Coq Require Import List ZArith String Lia.
From Gosk Require Import Base.Bytes Model.Ast.
Import ListNotations.
Local Open Scope Z_scope.

Definition env := string -> option Z.          (* value of "$" and of EQU names *)

Definition w64 (z : Z) : Z := swrap 64 z.

Definition app_add (a : Z) (o : addop) (b : Z) : Z :=
  match o with OpPlus => w64 (a + b) | OpMinus => w64 (a - b) end.

Definition app_mul (a : Z) (o : mulop) (b : Z) : option Z :=
  match o with
  | OpMul => Some (w64 (a * b))
  | OpDiv => if b =? 0 then None else Some (w64 (Z.quot a b))
  | OpMod => if b =? 0 then None else Some (w64 (Z.rem a b))
  end.

Definition max_i64 : Z := 2 ^ 63 - 1.

Fixpoint aeval (rho : env) (e : exp) {struct e} : option Z :=
  match e with
  | ENum z => Some z
  | EImm (FNum z) => Some z
  | EImm (FHex z) => if z <=? max_i64 then Some z else None
  | EImm (FId s) => rho s
  | EImm _ => None
  | EAdd h t =>
      match aeval rho h with
      | None => None
      | Some v0 =>
          (fix go (acc : Z) (l : list (addop * exp)) {struct l} : option Z :=
             match l with
             | [] => Some acc
             | (o, x) :: r => match aeval rho x with
                              | None => None
                              | Some v => go (app_add acc o v) r
                              end
             end) v0 t
      end
  | EMul h t =>
      match aeval rho h with
      | None => None
      | Some v0 =>
          (fix go (acc : Z) (l : list (mulop * exp)) {struct l} : option Z :=
             match l with
             | [] => Some acc
             | (o, x) :: r => match aeval rho x with
                              | None => None
                              | Some v => match app_mul acc o v with
                                          | None => None
                                          | Some a' => go a' r
                                          end
                              end
             end) v0 t
      end
  | EMem _ _ _ _ | ESeg _ _ _ => None
  end.
