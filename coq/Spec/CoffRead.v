(** An independent reader for i386 COFF objects (from the PE/COFF specification):
    file header, section table, raw data, symbol table with auxiliary records, string table.
    Every offset and count is bounds-checked against the file; [None] = malformed. *)
From Coq Require Import List ZArith String Bool.
From Gosk Require Import Base.Bytes.
Import ListNotations.
Local Open Scope list_scope.
Local Open Scope Z_scope.

Fixpoint bytes_eqb (a b : list Z) : bool :=
  match a, b with
  | [], [] => true
  | x :: a', y :: b' => (x =? y) && bytes_eqb a' b'
  | _, _ => false
  end.

Definition slice (off len : Z) (f : list byte) : option (list byte) :=
  if (off <? 0) || (len <? 0) || (zlen f <? off + len) then None
  else Some (firstn (Z.to_nat len) (skipn (Z.to_nat off) f)).

Definition u (off : Z) (n : nat) (f : list byte) : option Z :=
  match slice off (Z.of_nat n) f with Some bs => Some (le_decode bs) | None => None end.

Record section := {
  s_name : list byte; s_rawsize : Z; s_rawptr : Z; s_relocptr : Z; s_nreloc : Z; s_lineptr : Z; s_nline : Z; s_chars : Z
}.

Record symbol := {
  y_name : list byte;       (* resolved, without padding NULs *)
  y_value : Z; y_section : Z; y_type : Z; y_class : Z; y_naux : Z; y_aux : list byte
}.

Record coff_obj := {
  o_machine : Z; o_nsections : Z; o_symptr : Z; o_nsyms : Z; o_opthdr : Z;
  o_sections : list section;
  o_symbols : list symbol;
  o_strtab_size : Z;
  o_records_seen : Z;       (* records walked, aux included: must equal o_nsyms *)
  o_file_len : Z
}.

Fixpoint take_until_nul (bs : list byte) : list byte :=
  match bs with [] => [] | b :: r => if b =? 0 then [] else b :: take_until_nul r end.

Definition read_section (f : list byte) (off : Z) : option section :=
  match slice off 8 f, u (off + 16) 4 f, u (off + 20) 4 f, u (off + 24) 4 f, u (off + 28) 4 f, u (off + 32) 2 f, u (off + 34) 2 f, u (off + 36) 4 f with
  | Some nm, Some rs, Some rp, Some rl, Some lp, Some nr, Some nl, Some ch =>
      (* raw data, relocations and line numbers must lie inside the file *)
      if (zlen f <? rp + rs) || (zlen f <? rl + 10 * nr) || (zlen f <? lp + 6 * nl) then None
      else Some {| s_name := take_until_nul nm; s_rawsize := rs; s_rawptr := rp; s_relocptr := rl; s_nreloc := nr;
                   s_lineptr := lp; s_nline := nl; s_chars := ch |}
  | _, _, _, _, _, _, _, _ => None
  end.

Fixpoint read_sections (f : list byte) (off : Z) (n : nat) : option (list section) :=
  match n with
  | O => Some []
  | S k => match read_section f off, read_sections f (off + 40) k with
           | Some s, Some r => Some (s :: r)
           | _, _ => None
           end
  end.

(* name: inline 8 bytes, or (0, offset) into the string table *)
Definition resolve_name (f : list byte) (strtab_off strtab_size : Z) (raw : list byte) : option (list byte) :=
  if le_decode (firstn 4 raw) =? 0 then
    let o := le_decode (skipn 4 raw) in
    if (o <? 4) || (strtab_size <=? o) then None
    else match slice (strtab_off + o) (strtab_size - o) f with
         | Some bs => if existsb (Z.eqb 0) bs then Some (take_until_nul bs) else None   (* must be NUL terminated inside the table *)
         | None => None
         end
  else Some (take_until_nul raw).

(* walk [n] records starting at [off]; fuel = n *)
Fixpoint read_symbols (f : list byte) (strtab_off strtab_size : Z) (off : Z) (remaining : Z) (fuel : nat) : option (list symbol) :=
  match fuel with
  | O => if remaining =? 0 then Some [] else None
  | S k =>
      if remaining =? 0 then Some [] else
      match slice off 8 f, u (off + 8) 4 f, u (off + 12) 2 f, u (off + 14) 2 f, u (off + 16) 1 f, u (off + 17) 1 f with
      | Some raw, Some v, Some sec, Some ty, Some cl, Some naux =>
          if remaining <? 1 + naux then None else
          match slice (off + 18) (18 * naux) f, resolve_name f strtab_off strtab_size raw with
          | Some aux, Some nm =>
              match read_symbols f strtab_off strtab_size (off + 18 * (1 + naux)) (remaining - 1 - naux) k with
              | Some r => Some ({| y_name := nm; y_value := v; y_section := sign_ext 16 sec; y_type := ty; y_class := cl; y_naux := naux; y_aux := aux |} :: r)
              | None => None
              end
          | _, _ => None
          end
      | _, _, _, _, _, _ => None
      end
  end.

Definition coff_read (f : list byte) : option coff_obj :=
  match u 0 2 f, u 2 2 f, u 8 4 f, u 12 4 f, u 16 2 f with
  | Some mach, Some nsec, Some symptr, Some nsyms, Some opt =>
      match read_sections f (20 + opt) (Z.to_nat nsec) with
      | None => None
      | Some secs =>
          let strtab_off := symptr + 18 * nsyms in
          match u strtab_off 4 f with
          | None => None
          | Some stsize =>
              if (stsize <? 4) || (zlen f <? strtab_off + stsize) then None else
              match read_symbols f strtab_off stsize symptr nsyms (Z.to_nat nsyms) with
              | None => None
              | Some syms =>
                  Some {| o_machine := mach; o_nsections := nsec; o_symptr := symptr; o_nsyms := nsyms; o_opthdr := opt;
                          o_sections := secs; o_symbols := syms; o_strtab_size := stsize;
                          o_records_seen := fold_right (fun y n => n + 1 + y_naux y) 0 syms; o_file_len := zlen f |}
              end
          end
      end
  | _, _, _, _, _ => None
  end.

(** "structurally valid i386 object in gosk's three-section layout" *)
Definition wellformed (f : list byte) (o : coff_obj) : bool :=
  (o_machine o =? 332) && (o_nsections o =? 3) && (o_opthdr o =? 0)
  && (o_records_seen o =? o_nsyms o)
  && (o_file_len o =? o_symptr o + 18 * o_nsyms o + o_strtab_size o)      (* string table ends the file exactly *)
  && match o_sections o with
     | [t; d; b] => bytes_eqb (s_name t) [46; 116; 101; 120; 116] && bytes_eqb (s_name d) [46; 100; 97; 116; 97]
                    && bytes_eqb (s_name b) [46; 98; 115; 115]
                    && (140 <=? s_rawptr t) && (s_rawptr t + s_rawsize t <=? o_symptr o)
     | _ => false
     end.

Definition text_of (f : list byte) (o : coff_obj) : option (list byte) :=
  match o_sections o with
  | t :: _ => slice (s_rawptr t) (s_rawsize t) f
  | [] => None
  end.
