(** Reference semantics ("what the source means") for programs built from ORG, labels, EQU,
    DB/DW/DD, RESB, ALIGNB.  Written from the NASK language description and Spec/Arith.v only:
    address = origin + bytes so far; a label is the address of the next byte; `$` is the address
    of the current statement; operand values by [aeval].  Two walks: addresses, then bytes. *)
From Coq Require Import List ZArith String Bool.
From Gosk Require Import Base.Bytes Model.Ast Spec.Arith Spec.Data.
Import ListNotations.
Local Open Scope Z_scope.

Definition smap := list (string * Z).
Fixpoint slookup (k : string) (l : smap) : option Z :=
  match l with [] => None | (k', v) :: r => if String.eqb k k' then Some v else slookup k r end.

(* names visible while evaluating: `$`, then EQUs, then labels *)
Definition rho_of (addr : Z) (equs labels : smap) : env :=
  fun s => if String.eqb s "$" then Some addr
           else match slookup s equs with Some v => Some v | None => slookup s labels end.

(* string operand of DB: the parser wraps it as EAdd (EMul (EImm (FStr bs)) []) [] *)
Definition as_string (e : exp) : option (list Z) :=
  match e with
  | EAdd (EMul (EImm (FStr bs)) []) [] => Some bs
  | _ => None
  end.

Definition operand_len (w : nat) (e : exp) : Z :=
  match as_string e with Some bs => zlen bs | None => Z.of_nat w end.

Definition width_of (op : string) : option nat :=
  if String.eqb op "DB" then Some 1%nat else if String.eqb op "DW" then Some 2%nat
  else if String.eqb op "DD" then Some 4%nat else None.

Record walk := { w_addr : Z; w_equs : smap; w_labels : smap; w_ok : bool }.

(* size of one statement at address a (None: not a statement of this fragment / not evaluable) *)
Definition stmt_size (a : Z) (equs labels : smap) (st : stmt) : option Z :=
  match st with
  | SMnem op ops =>
      match width_of op with
      | Some w => Some (fold_left (fun n e => n + operand_len w e) ops 0)
      | None =>
          if String.eqb op "RESB" then
            match ops with [e] => match aeval (rho_of a equs labels) e with Some n => if n <? 0 then None else Some n | None => None end | _ => None end
          else if String.eqb op "ALIGNB" then
            match ops with [e] => match aeval (rho_of a equs labels) e with Some n => if n <=? 0 then None else Some ((n - a mod n) mod n) | None => None end | _ => None end
          else None
      end
  | _ => Some 0
  end.

Definition walk_step (w : walk) (st : stmt) : walk :=
  if negb (w_ok w) then w else
  match st with
  | SLabel l => {| w_addr := w_addr w; w_equs := w_equs w; w_labels := (l, w_addr w) :: w_labels w; w_ok := true |}
  | SEqu n e => match aeval (rho_of (w_addr w) (w_equs w) (w_labels w)) e with
                | Some v => {| w_addr := w_addr w; w_equs := (n, v) :: w_equs w; w_labels := w_labels w; w_ok := true |}
                | None => {| w_addr := w_addr w; w_equs := w_equs w; w_labels := w_labels w; w_ok := false |}
                end
  | SMnem op ops =>
      if String.eqb op "ORG" then
        match ops with
        | [e] => match aeval (rho_of (w_addr w) (w_equs w) (w_labels w)) e with
                 | Some v => {| w_addr := v; w_equs := w_equs w; w_labels := w_labels w; w_ok := true |}
                 | None => {| w_addr := w_addr w; w_equs := w_equs w; w_labels := w_labels w; w_ok := false |}
                 end
        | _ => {| w_addr := w_addr w; w_equs := w_equs w; w_labels := w_labels w; w_ok := false |}
        end
      else match stmt_size (w_addr w) (w_equs w) (w_labels w) st with
           | Some n => {| w_addr := w_addr w + n; w_equs := w_equs w; w_labels := w_labels w; w_ok := true |}
           | None => {| w_addr := w_addr w; w_equs := w_equs w; w_labels := w_labels w; w_ok := false |}
           end
  | _ => w
  end.

Definition walk_all (p : program) : walk :=
  fold_left walk_step p {| w_addr := 0; w_equs := []; w_labels := []; w_ok := true |}.

(* second walk: bytes, with all labels known *)
Definition operand_bytes (w : nat) (rho : env) (e : exp) : option (list byte) :=
  match as_string e with
  | Some bs => if Nat.eqb w 1 then Some bs else None
  | None => match aeval rho e with Some v => Some (le w v) | None => None end
  end.

Fixpoint concat_opt (l : list (option (list byte))) : option (list byte) :=
  match l with
  | [] => Some []
  | None :: _ => None
  | Some x :: r => match concat_opt r with Some y => Some (x ++ y) | None => None end
  end.

Record emit := { e_addr : Z; e_equs : smap; e_out : list byte; e_ok : bool }.

Definition emit_step (labels : smap) (m : emit) (st : stmt) : emit :=
  if negb (e_ok m) then m else
  let rho := rho_of (e_addr m) (e_equs m) labels in
  let bad := {| e_addr := e_addr m; e_equs := e_equs m; e_out := e_out m; e_ok := false |} in
  match st with
  | SEqu n e => match aeval rho e with
                | Some v => {| e_addr := e_addr m; e_equs := (n, v) :: e_equs m; e_out := e_out m; e_ok := true |}
                | None => bad
                end
  | SMnem op ops =>
      if String.eqb op "ORG" then
        match ops with
        | [e] => match aeval rho e with
                 | Some v => {| e_addr := v; e_equs := e_equs m; e_out := e_out m; e_ok := true |}
                 | None => bad
                 end
        | _ => bad
        end
      else match width_of op with
      | Some w =>
          match concat_opt (map (operand_bytes w rho) ops) with
          | Some bs => {| e_addr := e_addr m + zlen bs; e_equs := e_equs m; e_out := e_out m ++ bs; e_ok := true |}
          | None => bad
          end
      | None =>
          match stmt_size (e_addr m) (e_equs m) labels st with
          | Some n => {| e_addr := e_addr m + n; e_equs := e_equs m; e_out := e_out m ++ zeros n; e_ok := true |}
          | None => bad
          end
      end
  | _ => m
  end.

(** the flat binary a data program means; None when the program is outside the fragment *)
Definition ref_data_program (p : program) : option (list byte) :=
  let w := walk_all p in
  if negb (w_ok w) then None else
  let m := fold_left (emit_step (w_labels w)) p {| e_addr := 0; e_equs := []; e_out := []; e_ok := true |} in
  if e_ok m then Some (e_out m) else None.
