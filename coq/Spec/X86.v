(** The x86 instruction set, 16/32-bit subset that gosk can emit, written from the Intel SDM
    (vol. 2: instruction formats, ModR/M and SIB tables 2-1..2-3, opcode maps) and not from gosk.
    [decode m bytes] returns the instruction at the head of [bytes] with its length. *)
From Coq Require Import List ZArith String Bool.
From Gosk Require Import Base.Bytes Spec.Branch.
Import ListNotations.
Local Open Scope string_scope.
Local Open Scope list_scope.
Local Open Scope Z_scope.

Record eaddr := { ea_asize : Z; ea_base : option Z; ea_index : option Z; ea_scale : Z; ea_disp : Z }.

Inductive operand :=
| OReg (w : Z) (n : Z)          (* general register of width w (8/16/32), number n *)
| OSreg (n : Z)
| OCreg (n : Z)
| OImm (z : Z)
| OMem (ea : eaddr)
| ORel (z : Z)
| OFar (sel off : Z).

Record instr := { i_op : string; i_opsize : Z; i_ops : list operand }.

Definition byte_at (bs : list Z) (i : nat) : option Z := nth_error bs i.

Definition get (n : nat) (bs : list Z) : option (list Z * list Z) :=
  if Nat.leb n (Datatypes.length bs) then Some (firstn n bs, skipn n bs) else None.

Definition sxn (n : nat) (bs : list Z) : Z := sign_ext (8 * Z.of_nat n) (le_decode bs).

(** ModR/M + SIB + displacement.  Returns (mod, reg, rm-operand as register number or memory, bytes consumed) *)
Inductive rmop := RmReg (n : Z) | RmMem (ea : eaddr).

Definition base16 (rm : Z) : option Z * option Z :=
  match rm with
  | 0 => (Some 3, Some 6) | 1 => (Some 3, Some 7) | 2 => (Some 5, Some 6) | 3 => (Some 5, Some 7)
  | 4 => (None, Some 6) | 5 => (None, Some 7) | 6 => (Some 5, None) | _ => (Some 3, None)
  end.

Definition decode_modrm (asize : Z) (bs : list Z) : option (Z * rmop * Z) :=
  match bs with
  | [] => None
  | mb :: r =>
      let md := mb / 64 in
      let reg := (mb / 8) mod 8 in
      let rm := mb mod 8 in
      if md =? 3 then Some (reg, RmReg rm, 1) else
      if asize =? 16 then
        if (md =? 0) && (rm =? 6) then
          match get 2 r with Some (d, _) => Some (reg, RmMem {| ea_asize := 16; ea_base := None; ea_index := None; ea_scale := 1; ea_disp := sxn 2 d |}, 3) | None => None end
        else
          let '(b, i) := base16 rm in
          if md =? 0 then Some (reg, RmMem {| ea_asize := 16; ea_base := b; ea_index := i; ea_scale := 1; ea_disp := 0 |}, 1)
          else if md =? 1 then
            match get 1 r with Some (d, _) => Some (reg, RmMem {| ea_asize := 16; ea_base := b; ea_index := i; ea_scale := 1; ea_disp := sxn 1 d |}, 2) | None => None end
          else
            match get 2 r with Some (d, _) => Some (reg, RmMem {| ea_asize := 16; ea_base := b; ea_index := i; ea_scale := 1; ea_disp := sxn 2 d |}, 3) | None => None end
      else
        (* 32-bit addressing *)
        if rm =? 4 then
          match r with
          | [] => None
          | sib :: r2 =>
              let ss := sib / 64 in
              let idx := (sib / 8) mod 8 in
              let bse := sib mod 8 in
              let index := if idx =? 4 then None else Some idx in
              let scale := 2 ^ ss in
              if (md =? 0) && (bse =? 5) then
                match get 4 r2 with Some (d, _) => Some (reg, RmMem {| ea_asize := 32; ea_base := None; ea_index := index; ea_scale := scale; ea_disp := sxn 4 d |}, 6) | None => None end
              else if md =? 0 then Some (reg, RmMem {| ea_asize := 32; ea_base := Some bse; ea_index := index; ea_scale := scale; ea_disp := 0 |}, 2)
              else if md =? 1 then
                match get 1 r2 with Some (d, _) => Some (reg, RmMem {| ea_asize := 32; ea_base := Some bse; ea_index := index; ea_scale := scale; ea_disp := sxn 1 d |}, 3) | None => None end
              else
                match get 4 r2 with Some (d, _) => Some (reg, RmMem {| ea_asize := 32; ea_base := Some bse; ea_index := index; ea_scale := scale; ea_disp := sxn 4 d |}, 6) | None => None end
          end
        else if (md =? 0) && (rm =? 5) then
          match get 4 r with Some (d, _) => Some (reg, RmMem {| ea_asize := 32; ea_base := None; ea_index := None; ea_scale := 1; ea_disp := sxn 4 d |}, 5) | None => None end
        else if md =? 0 then Some (reg, RmMem {| ea_asize := 32; ea_base := Some rm; ea_index := None; ea_scale := 1; ea_disp := 0 |}, 1)
        else if md =? 1 then
          match get 1 r with Some (d, _) => Some (reg, RmMem {| ea_asize := 32; ea_base := Some rm; ea_index := None; ea_scale := 1; ea_disp := sxn 1 d |}, 2) | None => None end
        else
          match get 4 r with Some (d, _) => Some (reg, RmMem {| ea_asize := 32; ea_base := Some rm; ea_index := None; ea_scale := 1; ea_disp := sxn 4 d |}, 5) | None => None end
  end.

Definition rm_operand (w : Z) (x : rmop) : operand := match x with RmReg n => OReg w n | RmMem ea => OMem ea end.

Definition alu_names := ["ADD"; "OR"; "ADC"; "SBB"; "AND"; "SUB"; "XOR"; "CMP"].
Definition shift_names := ["ROL"; "ROR"; "RCL"; "RCR"; "SHL"; "SHR"; "SAL"; "SAR"].
Definition grp3_names := ["TEST"; "TEST"; "NOT"; "NEG"; "MUL"; "IMUL"; "DIV"; "IDIV"].
Definition nm (l : list string) (k : Z) : string := nth (Z.to_nat k) l "?".

(* immediate of n bytes following ModR/M *)
Definition with_imm (n : nat) (signed : bool) (bs : list Z) : option Z :=
  match get n bs with
  | Some (d, _) => Some (if signed then sxn n d else le_decode d)
  | None => None
  end.

(** single-byte, operand-less instructions; the name depends on the operand size where the SDM says so *)
Definition simple_op (os : Z) (b : Z) : option string :=
  match b with
  | 144 => Some "NOP" | 244 => Some "HLT" | 250 => Some "CLI" | 251 => Some "STI" | 252 => Some "CLD" | 253 => Some "STD"
  | 248 => Some "CLC" | 249 => Some "STC" | 245 => Some "CMC" | 159 => Some "LAHF" | 158 => Some "SAHF"
  | 39 => Some "DAA" | 47 => Some "DAS" | 55 => Some "AAA" | 63 => Some "AAS" | 155 => Some "WAIT" | 201 => Some "LEAVE"
  | 206 => Some "INTO" | 195 => Some "RET" | 203 => Some "RETF" | 240 => Some "LOCK"
  | 243 => Some "REP" | 242 => Some "REPNE" | 214 => Some "SETALC" | 241 => Some "ICEBP"
  | 46 => Some "CS" | 62 => Some "DS" | 38 => Some "ES" | 54 => Some "SS" | 100 => Some "FS" | 101 => Some "GS"
  | 96 => Some (if os =? 16 then "PUSHA" else "PUSHAD") | 97 => Some (if os =? 16 then "POPA" else "POPAD")
  | 156 => Some (if os =? 16 then "PUSHF" else "PUSHFD") | 157 => Some (if os =? 16 then "POPF" else "POPFD")
  | 152 => Some (if os =? 16 then "CBW" else "CWDE") | 153 => Some (if os =? 16 then "CWD" else "CDQ")
  | 207 => Some (if os =? 16 then "IRET" else "IRETD")
  | _ => None
  end.

(* two-byte (0F xx) operand-less *)
Definition simple_0f (b : Z) : option string :=
  match b with
  | 162 => Some "CPUID" | 49 => Some "RDTSC" | 50 => Some "RDMSR" | 48 => Some "WRMSR" | 51 => Some "RDPMC" | 6 => Some "CLTS"
  | 8 => Some "INVD" | 9 => Some "WBINVD" | 11 => Some "UD2" | 119 => Some "EMMS" | 170 => Some "RSM" | 52 => Some "SYSENTER"
  | 53 => Some "SYSEXIT" | 5 => Some "SYSCALL" | 7 => Some "SYSRET"
  | _ => None
  end.

Definition mk (op : string) (os : Z) (ops : list operand) (len : Z) : option (instr * Z) :=
  Some ({| i_op := op; i_opsize := os; i_ops := ops |}, len).

(** decode after prefixes: os = operand size, asz = address size, pl = prefix length *)
Definition decode_body (m : bmode) (os asz pl : Z) (bs : list Z) : option (instr * Z) :=
  let wbytes := if os =? 16 then 2%nat else 4%nat in
  match bs with
  | [] => None
  | op :: r =>
      (* ALU block 00..3F, x mod 8 < 6 *)
      if (op <? 64) && (op mod 8 <? 6) then
        let name := nm alu_names (op / 8) in
        let k := op mod 8 in
        if k <? 4 then
          match decode_modrm asz r with
          | None => None
          | Some (reg, x, n) =>
              let w := if k mod 2 =? 0 then 8 else os in
              let ops := if k <? 2 then [rm_operand w x; OReg w reg] else [OReg w reg; rm_operand w x] in
              mk name w ops (pl + 1 + n)
          end
        else if k =? 4 then match with_imm 1 false r with Some v => mk name 8 [OReg 8 0; OImm v] (pl + 2) | None => None end
        else match with_imm wbytes false r with Some v => mk name os [OReg os 0; OImm v] (pl + 1 + Z.of_nat wbytes) | None => None end
      else if (op =? 128) || (op =? 129) || (op =? 131) then
        match decode_modrm asz r with
        | None => None
        | Some (reg, x, n) =>
            let w := if op =? 128 then 8 else os in
            let isz := if op =? 129 then wbytes else 1%nat in
            match with_imm isz (op =? 131) (skipn (Z.to_nat n) r) with
            | Some v => mk (nm alu_names reg) w [rm_operand w x; OImm v] (pl + 1 + n + Z.of_nat isz)
            | None => None
            end
        end
      else if (136 <=? op) && (op <=? 139) then
        match decode_modrm asz r with
        | None => None
        | Some (reg, x, n) =>
            let w := if op mod 2 =? 0 then 8 else os in
            mk "MOV" w (if op <? 138 then [rm_operand w x; OReg w reg] else [OReg w reg; rm_operand w x]) (pl + 1 + n)
        end
      else if op =? 140 then
        match decode_modrm asz r with Some (reg, x, n) => mk "MOV" 16 [rm_operand 16 x; OSreg reg] (pl + 1 + n) | None => None end
      else if op =? 142 then
        match decode_modrm asz r with Some (reg, x, n) => mk "MOV" 16 [OSreg reg; rm_operand 16 x] (pl + 1 + n) | None => None end
      else if (160 <=? op) && (op <=? 163) then
        let an := if asz =? 16 then 2%nat else 4%nat in
        match get an r with
        | None => None
        | Some (d, _) =>
            let w := if op mod 2 =? 0 then 8 else os in
            let ea := OMem {| ea_asize := asz; ea_base := None; ea_index := None; ea_scale := 1; ea_disp := sxn an d |} in
            mk "MOV" w (if op <? 162 then [OReg w 0; ea] else [ea; OReg w 0]) (pl + 1 + Z.of_nat an)
        end
      else if (176 <=? op) && (op <=? 183) then
        match with_imm 1 false r with Some v => mk "MOV" 8 [OReg 8 (op - 176); OImm v] (pl + 2) | None => None end
      else if (184 <=? op) && (op <=? 191) then
        match with_imm wbytes false r with Some v => mk "MOV" os [OReg os (op - 184); OImm v] (pl + 1 + Z.of_nat wbytes) | None => None end
      else if (op =? 198) || (op =? 199) then
        match decode_modrm asz r with
        | None => None
        | Some (reg, x, n) =>
            if negb (reg =? 0) then None else
            let w := if op =? 198 then 8 else os in
            let isz := if op =? 198 then 1%nat else wbytes in
            match with_imm isz false (skipn (Z.to_nat n) r) with
            | Some v => mk "MOV" w [rm_operand w x; OImm v] (pl + 1 + n + Z.of_nat isz)
            | None => None
            end
        end
      else if (op =? 246) || (op =? 247) then
        match decode_modrm asz r with
        | None => None
        | Some (reg, x, n) =>
            let w := if op =? 246 then 8 else os in
            if reg <? 2 then
              let isz := if op =? 246 then 1%nat else wbytes in
              match with_imm isz false (skipn (Z.to_nat n) r) with
              | Some v => mk "TEST" w [rm_operand w x; OImm v] (pl + 1 + n + Z.of_nat isz)
              | None => None
              end
            else mk (nm grp3_names reg) w [rm_operand w x] (pl + 1 + n)
        end
      else if (op =? 192) || (op =? 193) then
        match decode_modrm asz r with
        | None => None
        | Some (reg, x, n) =>
            let w := if op =? 192 then 8 else os in
            match with_imm 1 false (skipn (Z.to_nat n) r) with
            | Some v => mk (nm shift_names reg) w [rm_operand w x; OImm v] (pl + 2 + n)
            | None => None
            end
        end
      else if (op =? 208) || (op =? 209) then
        match decode_modrm asz r with
        | Some (reg, x, n) => let w := if op =? 208 then 8 else os in mk (nm shift_names reg) w [rm_operand w x; OImm 1] (pl + 1 + n)
        | None => None
        end
      else if (op =? 210) || (op =? 211) then
        match decode_modrm asz r with
        | Some (reg, x, n) => let w := if op =? 210 then 8 else os in mk (nm shift_names reg) w [rm_operand w x; OReg 8 1] (pl + 1 + n)
        | None => None
        end
      else if (op =? 105) || (op =? 107) then
        match decode_modrm asz r with
        | None => None
        | Some (reg, x, n) =>
            let isz := if op =? 105 then wbytes else 1%nat in
            match with_imm isz true (skipn (Z.to_nat n) r) with
            | Some v => mk "IMUL" os [OReg os reg; rm_operand os x; OImm v] (pl + 1 + n + Z.of_nat isz)
            | None => None
            end
        end
      else if (80 <=? op) && (op <=? 87) then mk "PUSH" os [OReg os (op - 80)] (pl + 1)
      else if (88 <=? op) && (op <=? 95) then mk "POP" os [OReg os (op - 88)] (pl + 1)
      else if op =? 6 then mk "PUSH" os [OSreg 0] (pl + 1) else if op =? 14 then mk "PUSH" os [OSreg 1] (pl + 1)
      else if op =? 22 then mk "PUSH" os [OSreg 2] (pl + 1) else if op =? 30 then mk "PUSH" os [OSreg 3] (pl + 1)
      else if op =? 7 then mk "POP" os [OSreg 0] (pl + 1) else if op =? 23 then mk "POP" os [OSreg 2] (pl + 1)
      else if op =? 31 then mk "POP" os [OSreg 3] (pl + 1)
      else if op =? 104 then match with_imm wbytes false r with Some v => mk "PUSH" os [OImm v] (pl + 1 + Z.of_nat wbytes) | None => None end
      else if op =? 106 then match with_imm 1 true r with Some v => mk "PUSH" os [OImm v] (pl + 2) | None => None end
      else if op =? 255 then
        match decode_modrm asz r with
        | Some (reg, x, n) =>
            if reg =? 6 then mk "PUSH" os [rm_operand os x] (pl + 1 + n)
            else if reg =? 0 then mk "INC" os [rm_operand os x] (pl + 1 + n)
            else if reg =? 1 then mk "DEC" os [rm_operand os x] (pl + 1 + n) else None
        | None => None
        end
      else if op =? 143 then
        match decode_modrm asz r with
        | Some (reg, x, n) => if reg =? 0 then mk "POP" os [rm_operand os x] (pl + 1 + n) else None
        | None => None
        end
      else if op =? 228 then match with_imm 1 false r with Some v => mk "IN" 8 [OReg 8 0; OImm v] (pl + 2) | None => None end
      else if op =? 229 then match with_imm 1 false r with Some v => mk "IN" os [OReg os 0; OImm v] (pl + 2) | None => None end
      else if op =? 230 then match with_imm 1 false r with Some v => mk "OUT" 8 [OImm v; OReg 8 0] (pl + 2) | None => None end
      else if op =? 231 then match with_imm 1 false r with Some v => mk "OUT" os [OImm v; OReg os 0] (pl + 2) | None => None end
      else if op =? 236 then mk "IN" 8 [OReg 8 0; OReg 16 2] (pl + 1)
      else if op =? 237 then mk "IN" os [OReg os 0; OReg 16 2] (pl + 1)
      else if op =? 238 then mk "OUT" 8 [OReg 16 2; OReg 8 0] (pl + 1)
      else if op =? 239 then mk "OUT" os [OReg 16 2; OReg os 0] (pl + 1)
      else if op =? 205 then match with_imm 1 false r with Some v => mk "INT" 8 [OImm v] (pl + 2) | None => None end
      (* CC: the SDM lists it as "INT 3" / INT3, the one-byte form of the vector-3 software interrupt *)
      else if op =? 204 then mk "INT" 8 [OImm 3] (pl + 1)
      else if op =? 15 then
        match r with
        | [] => None
        | op2 :: r2 =>
            if (op2 =? 32) || (op2 =? 34) then
              match decode_modrm asz r2 with
              | Some (reg, RmReg n, k) => mk "MOV" 32 (if op2 =? 32 then [OReg 32 n; OCreg reg] else [OCreg reg; OReg 32 n]) (pl + 2 + k)
              | _ => None
              end
            else if op2 =? 175 then
              match decode_modrm asz r2 with Some (reg, x, n) => mk "IMUL" os [OReg os reg; rm_operand os x] (pl + 2 + n) | None => None end
            else if op2 =? 160 then mk "PUSH" os [OSreg 4] (pl + 2) else if op2 =? 168 then mk "PUSH" os [OSreg 5] (pl + 2)
            else if op2 =? 161 then mk "POP" os [OSreg 4] (pl + 2) else if op2 =? 169 then mk "POP" os [OSreg 5] (pl + 2)
            else if op2 =? 1 then
              match decode_modrm asz r2 with
              | Some (reg, RmMem ea, n) => if reg =? 2 then mk "LGDT" os [OMem ea] (pl + 2 + n) else if reg =? 3 then mk "LIDT" os [OMem ea] (pl + 2 + n) else None
              | _ => None
              end
            else match simple_0f op2 with Some s => mk s os [] (pl + 2) | None => None end
        end
      else match simple_op os op with Some s => mk s os [] (pl + 1) | None => None end
  end.

(** legacy prefixes 66h / 67h (any order, each at most once) *)
Definition decode (m : bmode) (bs : list Z) : option (instr * Z) :=
  let d16 := match m with B16 => true | B32 => false end in
  let os0 := if d16 then 16 else 32 in
  let flip z := if z =? 16 then 32 else 16 in
  match bs with
  | 102 :: 103 :: r | 103 :: 102 :: r => decode_body m (flip os0) (flip os0) 2 r
  | 102 :: r => decode_body m (flip os0) os0 1 r
  | 103 :: r => decode_body m os0 (flip os0) 1 r
  | _ => decode_body m os0 os0 0 bs
  end.

(** ---------- equivalence of instructions (what "denotes exactly that instruction" means) *)

Definition optz_eqb (a b : option Z) : bool :=
  match a, b with Some x, Some y => x =? y | None, None => true | _, _ => false end.

Definition ea_eqb (a b : eaddr) : bool :=
  (ea_asize a =? ea_asize b)
  && ((ea_disp a) mod 2 ^ (ea_asize a) =? (ea_disp b) mod 2 ^ (ea_asize b))
  && ( (optz_eqb (ea_base a) (ea_base b) && optz_eqb (ea_index a) (ea_index b)
        && (match ea_index a with None => true | Some _ => ea_scale a =? ea_scale b end))
       || (* base + index*1 is commutative *)
          ((ea_scale a =? 1) && (ea_scale b =? 1) && optz_eqb (ea_base a) (ea_index b) && optz_eqb (ea_index a) (ea_base b)
           && match ea_base a, ea_index a with Some _, Some _ => true | _, _ => false end) ).

Definition operand_eqb (w : Z) (a b : operand) : bool :=
  match a, b with
  | OReg w1 n1, OReg w2 n2 => (w1 =? w2) && (n1 =? n2)
  | OSreg x, OSreg y | OCreg x, OCreg y => x =? y
  | OImm x, OImm y => x mod 2 ^ w =? y mod 2 ^ w
  | OMem x, OMem y => ea_eqb x y
  | ORel x, ORel y => x =? y
  | _, _ => false
  end.

Fixpoint operands_eqb (w : Z) (a b : list operand) : bool :=
  match a, b with
  | [], [] => true
  | x :: a', y :: b' => operand_eqb w x y && operands_eqb w a' b'
  | _, _ => false
  end.

Definition instr_eqb (a b : instr) : bool :=
  String.eqb (i_op a) (i_op b) && (i_opsize a =? i_opsize b) && operands_eqb (i_opsize a) (i_ops a) (i_ops b).
