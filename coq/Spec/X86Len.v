(** Shortest valid encoding (in bytes) of an instruction of the compact-form families named by C18,
    derived from the SDM forms: sign-extended imm8 (83 /r ib), accumulator-immediate (04/05 ...),
    accumulator-moffs (A0..A3), register-in-opcode MOV/PUSH/POP, minimal ModR/M+SIB+displacement. *)
From Coq Require Import List ZArith String Bool.
From Gosk Require Import Base.Bytes Spec.Branch Spec.X86.
Import ListNotations.
Local Open Scope string_scope.
Local Open Scope list_scope.
Local Open Scope Z_scope.

Definition fits8 (w v : Z) : bool :=
  let u := v mod 2 ^ w in (u <? 128) || (2 ^ w - 128 <=? u).

(* ModR/M + SIB + displacement *)
Definition ea_len (ea : eaddr) : Z :=
  let d := sign_ext (ea_asize ea) ((ea_disp ea) mod 2 ^ (ea_asize ea)) in
  let d8 := (-128 <=? d) && (d <=? 127) in
  if ea_asize ea =? 16 then
    match ea_base ea, ea_index ea with
    | None, None => 3
    | Some 5, None => if d8 then 2 else 3                       (* [BP] needs a displacement *)
    | _, _ => if d =? 0 then 1 else if d8 then 2 else 3
    end
  else
    match ea_base ea, ea_index ea with
    | None, None => 5
    | None, Some _ => 6                                          (* SIB, no base: disp32 *)
    | Some b, idx =>
        let sib := match idx with Some _ => 1 | None => if b =? 4 then 1 else 0 end in
        1 + sib + (if (d =? 0) && negb (b =? 5) then 0 else if d8 then 1 else 4)
    end.

Definition rm_len (o : operand) : Z := match o with OMem ea => ea_len ea | _ => 1 end.

Definition pfx (m : bmode) (w : Z) (ops : list operand) : Z :=
  let md := match m with B16 => 16 | B32 => 32 end in
  (if (w =? 8) || (w =? md) then 0 else 1)
  + (if existsb (fun o => match o with OMem ea => negb (ea_asize ea =? md) | _ => false end) ops then 1 else 0).

Definition is_alu (s : string) : bool := existsb (String.eqb s) ["ADD"; "OR"; "ADC"; "SBB"; "AND"; "SUB"; "XOR"; "CMP"].

(** shortest length, None when the instruction is outside the families C18 names *)
Definition shortest (m : bmode) (i : instr) : option Z :=
  let w := i_opsize i in
  let p := pfx m w (i_ops i) in
  let ib := w / 8 in
  match i_ops i with
  | [dst; OImm v] =>
      if is_alu (i_op i) then
        let modrm_form := 1 + rm_len dst + (if (w =? 8) then 1 else if fits8 w v then 1 else ib) in
        let acc_form := match dst with OReg _ 0 => Some (1 + ib) | _ => None end in
        Some (p + match acc_form with Some a => Z.min a modrm_form | None => modrm_form end)
      else if String.eqb (i_op i) "MOV" then
        match dst with
        | OReg _ _ => Some (p + 1 + ib)
        | _ => None
        end
      else None
  | [OReg _ 0; OMem ea] | [OMem ea; OReg _ 0] =>
      if String.eqb (i_op i) "MOV" then
        match ea_base ea, ea_index ea with
        | None, None => Some (p + 1 + ea_asize ea / 8)
        | _, _ => None
        end
      else None
  | [OReg _ _] => if String.eqb (i_op i) "PUSH" || String.eqb (i_op i) "POP" then Some (p + 1) else None
  | _ => None
  end.
