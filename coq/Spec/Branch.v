(** ISA specification of the relative branches (Intel SDM vol. 2: JMP, Jcc, CALL) and of the
    condition-code numbering, independent of gosk. *)
From Coq Require Import List ZArith String Bool.
From Gosk Require Import Base.Bytes.
Import ListNotations.
Local Open Scope list_scope.
Local Open Scope Z_scope.

Inductive bmode := B16 | B32.

Inductive bkind := BJmp | BCall | BJcc (cc : Z).

Record branch := { b_kind : bkind; b_rel : Z; b_len : Z; b_opsize : Z (* 16 or 32: width of (E)IP after the branch *) }.

Definition sx (n : nat) (bs : list byte) : Z := sign_ext (8 * Z.of_nat n) (le_decode bs).

Definition take (n : nat) (bs : list byte) : option (list byte) :=
  if Nat.leb n (Datatypes.length bs) then Some (firstn n bs) else None.

(* operand size in force: mode default, toggled by a 66h prefix *)
Definition opsize (m : bmode) (p66 : bool) : Z :=
  match m, p66 with B16, false | B32, true => 16 | _, _ => 32 end.

Definition decode_branch_np (m : bmode) (p66 : bool) (bs : list byte) : option branch :=
  let os := opsize m p66 in
  let w := if os =? 16 then 2%nat else 4%nat in
  let pl := if p66 then 1 else 0 in
  match bs with
  | 235 :: r => match take 1 r with Some d => Some {| b_kind := BJmp; b_rel := sx 1 d; b_len := pl + 2; b_opsize := os |} | None => None end
  | 233 :: r => match take w r with Some d => Some {| b_kind := BJmp; b_rel := sx w d; b_len := pl + 1 + Z.of_nat w; b_opsize := os |} | None => None end
  | 232 :: r => match take w r with Some d => Some {| b_kind := BCall; b_rel := sx w d; b_len := pl + 1 + Z.of_nat w; b_opsize := os |} | None => None end
  | 15 :: op :: r =>
      if (128 <=? op) && (op <=? 143) then
        match take w r with Some d => Some {| b_kind := BJcc (op - 128); b_rel := sx w d; b_len := pl + 2 + Z.of_nat w; b_opsize := os |} | None => None end
      else None
  | op :: r =>
      if (112 <=? op) && (op <=? 127) then
        match take 1 r with Some d => Some {| b_kind := BJcc (op - 112); b_rel := sx 1 d; b_len := pl + 2; b_opsize := os |} | None => None end
      else None
  | [] => None
  end.

Definition decode_branch (m : bmode) (bs : list byte) : option branch :=
  match bs with
  | 102 :: r => decode_branch_np m true r
  | _ => decode_branch_np m false bs
  end.

(** where control goes: next-instruction address plus displacement, truncated to the operand size *)
Definition landing (addr : Z) (b : branch) : Z := (addr + b_len b + b_rel b) mod 2 ^ (b_opsize b).

(** SDM condition numbering tttn: O NO B NB E NE BE NBE S NS P NP L NL LE NLE, and all mnemonic synonyms *)
Local Open Scope string_scope.
Definition cc_of_name (n : string) : option Z :=
  if String.eqb n "JO" then Some 0 else if String.eqb n "JNO" then Some 1
  else if String.eqb n "JB" || String.eqb n "JC" || String.eqb n "JNAE" then Some 2
  else if String.eqb n "JNB" || String.eqb n "JNC" || String.eqb n "JAE" then Some 3
  else if String.eqb n "JE" || String.eqb n "JZ" then Some 4
  else if String.eqb n "JNE" || String.eqb n "JNZ" then Some 5
  else if String.eqb n "JBE" || String.eqb n "JNA" then Some 6
  else if String.eqb n "JNBE" || String.eqb n "JA" then Some 7
  else if String.eqb n "JS" then Some 8 else if String.eqb n "JNS" then Some 9
  else if String.eqb n "JP" || String.eqb n "JPE" then Some 10
  else if String.eqb n "JNP" || String.eqb n "JPO" then Some 11
  else if String.eqb n "JL" || String.eqb n "JNGE" then Some 12
  else if String.eqb n "JNL" || String.eqb n "JGE" then Some 13
  else if String.eqb n "JLE" || String.eqb n "JNG" then Some 14
  else if String.eqb n "JNLE" || String.eqb n "JG" then Some 15
  else None.

Definition kind_of_name (n : string) : option bkind :=
  if String.eqb n "JMP" then Some BJmp else if String.eqb n "CALL" then Some BCall
  else match cc_of_name n with Some c => Some (BJcc c) | None => None end.

Definition bkind_eqb (a b : bkind) : bool :=
  match a, b with
  | BJmp, BJmp | BCall, BCall => true
  | BJcc x, BJcc y => Z.eqb x y
  | _, _ => false
  end.
