(** C03, general form: for ANY statement sequence (data, instructions, branches, ...) in which every step
    advances LOC by exactly the number of bytes codegen will emit for the ocode it records, every label value
    recorded along the way is origin + the real offset of the label in the image and the image length is
    LOC - origin.  The per-statement "size agreement" premise is discharged separately: for the data
    directives by the lemmas of C05, for INT by [size_int], for the instruction cells of the sweeps by
    computation ([size_agree_*] in SweepLemmas.v).  Where the premise fails (known findings of C03/C04:
    IMUL imm, forward jumps beyond rel8, 32-bit jumps) the conclusion fails too. *)
From Coq Require Import List ZArith String Bool Lia.
From Gosk Require Import Base.Bytes Model.Ast Model.Eval Model.Asm.
Import ListNotations.
Local Open Scope list_scope.
Local Open Scope Z_scope.

Section G.
Variable E : encoder.
Variables (m : mode) (st : symtab) (dol : Z).    (* what codegen is run with: final mode, final symbol table, origin *)

Definition emitted (o : ocode) (pos : Z) : option (list byte) :=
  match gen_ocode E m st dol pos o with Bytes b | BytesDiag b => Some b | _ => None end.

Lemma codegen_snoc : forall l acc d o,
  codegen E m st dol acc d (l ++ [o]) =
  match codegen E m st dol acc d l with
  | GOk bs d' => match gen_ocode E m st dol (zlen bs) o with
                 | Bytes b => GOk (bs ++ b) d'
                 | BytesDiag b => GOk (bs ++ b) true
                 | EPanic => GPanic
                 | EUnmod => GUnmod
                 end
  | GPanic => GPanic
  | GUnmod => GUnmod
  end.
Proof.
  induction l as [|x r IH]; intros acc d o; cbn [app codegen].
  - destruct (gen_ocode E m st dol (zlen acc) o); reflexivity.
  - destruct (gen_ocode E m st dol (zlen acc) x); try reflexivity; apply IH.
Qed.

(** LOC = origin + bytes that codegen emits for the ocodes recorded so far *)
Definition Inv2 (s : p1state) : Prop :=
  exists bs d, codegen E m st dol [] false (rev (ocodes s)) = GOk bs d /\ loc s = dol + zlen bs.

Inductive sized : p1state -> p1state -> Prop :=
| SzSilent s s' : ocodes s' = ocodes s -> loc s' = loc s -> sized s s'
| SzPush s s' o b : ocodes s' = o :: ocodes s -> emitted o (loc s - dol) = Some b -> loc s' = loc s + zlen b -> sized s s'.

Lemma inv2_step s s' : Inv2 s -> sized s s' -> Inv2 s'.
Proof.
  intros HI H. destruct H as [s s' Ho Hloc | s s' o b Ho He Hloc]; destruct HI as [bs [d [Hc Hl]]].
  - unfold Inv2. exists bs, d. rewrite Ho, Hloc. split; assumption.
  - unfold emitted in He. replace (loc s - dol) with (zlen bs) in He by lia.
    unfold Inv2. rewrite Ho. cbn [rev]. rewrite codegen_snoc, Hc.
    destruct (gen_ocode E m st dol (zlen bs) o) as [b'|b'| |]; try discriminate; inversion He; subst b'.
    + exists (bs ++ b), d. split; [reflexivity|]. rewrite Hloc, Hl, zlen_app. lia.
    + exists (bs ++ b), true. split; [reflexivity|]. rewrite Hloc, Hl, zlen_app. lia.
Qed.

Inductive run : p1state -> p1state -> Prop :=
| RNil s : run s s
| RCons s1 s2 s3 : run s1 s2 -> sized s2 s3 -> run s1 s3.

Theorem inv2_run s s' : Inv2 s -> run s s' -> Inv2 s'.
Proof. intros HI H. induction H as [s|s1 s2 s3 H12 IH H23]; [exact HI|]. eapply inv2_step; [apply IH; exact HI | exact H23]. Qed.

(** a label recorded after any such run holds origin + the number of bytes really emitted before it *)
Theorem label_exact s0 s l : Inv2 s0 -> run s0 s ->
  exists bs d, codegen E m st dol [] false (rev (ocodes s)) = GOk bs d
               /\ lookup l (sym (set_sym s l (loc s))) = Some (dol + zlen bs).
Proof.
  intros HI H. destruct (inv2_run s0 s HI H) as [bs [d [Hc Hl]]].
  exists bs, d. split; [exact Hc|]. cbn [set_sym sym lookup]. rewrite String.eqb_refl, Hl. reflexivity.
Qed.

Theorem image_length s0 s : Inv2 s0 -> run s0 s ->
  exists bs d, codegen E m st dol [] false (rev (ocodes s)) = GOk bs d /\ zlen bs = loc s - dol.
Proof. intros HI H. destruct (inv2_run s0 s HI H) as [bs [d [Hc Hl]]]. exists bs, d. split; [exact Hc | lia]. Qed.

Lemma inv2_init : dol = 0 -> Inv2 init_state.
Proof. intros H. exists [], false. split; [reflexivity|]. rewrite H. reflexivity. Qed.

(** ---- the model's own steps are [sized] under the size-agreement premise ---- *)

(* an instruction statement handled through the encoder record *)
Lemma sized_instr s op ops n b :
  enc_est E (bmode s) op ops = Some n -> enc_kind_ok E op = true ->
  emitted (OInstr (bmode s) op ops) (loc s - dol) = Some b -> zlen b = n ->
  - 2 ^ 31 <= loc s + n < 2 ^ 31 ->
  sized s (push_ocode (add_loc (with_diag s (enc_diag E (bmode s) op ops)) n) (OInstr (bmode s) op ops)).
Proof.
  intros Hest Hk Hem Hn Hr.
  apply (SzPush _ _ (OInstr (bmode s) op ops) b).
  - unfold with_diag. destruct (enc_diag E (bmode s) op ops); reflexivity.
  - exact Hem.
  - unfold with_diag. destruct (enc_diag E (bmode s) op ops); cbn [push_ocode add_loc set_loc set_diag loc]; rewrite int32_id by lia; lia.
Qed.

(* labels, EQU, GLOBAL, EXTERN, bracket directives *)
Lemma sized_label s l : sized s (set_sym s l (loc s)).
Proof. apply SzSilent; reflexivity. Qed.

End G.

(** ---- instances of [sized] for the statement kinds whose size agreement is proved for all inputs ---- *)
From Gosk Require Import Spec.Data Generated.Tables Lemmas.DataLemmas Lemmas.C05Lemmas Lemmas.C03Lemmas.

Section Instances.
Variable E : encoder.
Variables (m : mode) (st : symtab) (dol : Z).

(* DB / DW / DD with any operand list *)
Lemma sized_data w f s ops ds :
  data_stmt_spec E w f s ops ds -> - 2 ^ 31 <= loc s + zlen (spec_data w ds) < 2 ^ 31 ->
  sized E m st dol s (do_data s w f ops).
Proof.
  intros [vals [Ho [Hg [_ [Hl _]]]]] Hr.
  apply (SzPush E m st dol _ _ (OData w vals) (spec_data w ds)).
  - exact Ho.
  - unfold emitted. rewrite Hg. reflexivity.
  - rewrite Hl. apply int32_id. exact Hr.
Qed.

(* RESB n *)
Lemma sized_resb s n : 0 <= n < 2 ^ 31 -> - 2 ^ 31 <= loc s + n < 2 ^ 31 -> sized E m st dol s (do_resb s [ENum n]).
Proof.
  intros Hn Hr. destruct (resb_stmt E s n Hn) as [Ho [Hg [Hl _]]].
  apply (SzPush E m st dol _ _ (OResb n) (repeat 0 (Z.to_nat n))).
  - exact Ho.
  - unfold emitted. rewrite Hg. reflexivity.
  - rewrite Hl. unfold zlen. rewrite repeat_length, Z2Nat.id by lia. apply int32_id. exact Hr.
Qed.

(* INT n *)
Lemma sized_int s v : 0 <= v <= 255 -> loc s + 2 < 2 ^ 31 -> - 2 ^ 31 <= loc s -> sized E m st dol s (do_int s [ENum v]).
Proof.
  intros Hv Hh Hl. destruct (size_int E m st dol (loc s - dol) s v Hv Hh Hl) as [bs [Hg [Ho Hloc]]].
  apply (SzPush E m st dol _ _ (OInt (Some v)) bs).
  - exact Ho.
  - unfold emitted. rewrite Hg. reflexivity.
  - exact Hloc.
Qed.

(* JMP / Jcc / CALL to a label, 16-bit mode, on the ranges where pass 1's fixed estimate is the emitted length:
   the label's FINAL value (what codegen will look up) lies within the short range of the jump's own address *)
Lemma sized_branch16 s name op r lbl d :
  bmode s = M16 ->
  eval_top (env_of s) op = Ev (EImm (FId lbl)) r ->
  lookup lbl st = Some d ->
  (name = "JMP"%string /\ -126 <= d - loc s <= 129
   \/ name = "CALL"%string /\ -32768 <= d - loc s - 3 <= 32767
   \/ (exists opc, name <> "JMP"%string /\ name <> "CALL"%string /\ lookup name Generated.Tables.jcc_table = Some opc /\ -126 <= d - loc s <= 129)) ->
  - 2 ^ 31 <= loc s -> loc s + 3 < 2 ^ 31 ->
  sized E m st dol s (do_jcc s name [op]).
Proof.
  intros Hb He Hl Hcase Hlo Hhi. unfold do_jcc. rewrite He. rewrite Hb.
  set (s1 := if sym_has lbl (sym s) then s else set_sym s lbl 0).
  assert (Hs1 : ocodes s1 = ocodes s /\ loc s1 = loc s) by (unfold s1; destruct (sym_has lbl (sym s)); split; reflexivity).
  destruct Hs1 as [Ho1 Hl1].
  assert (Hrel : d - (dol + (loc s - dol)) = d - loc s) by lia.
  destruct Hcase as [[Hn Hr] | [[Hn Hr] | [opc [Hn1 [Hn2 [Hopc Hr]]]]]].
  - subst name. apply (SzPush E m st dol _ _ (OJcc M16 "JMP" (JLabel lbl)) (gen_jmp M16 (d - loc s))).
    + cbn [push_ocode add_loc set_loc ocodes]. rewrite Ho1. reflexivity.
    + unfold emitted. cbn [gen_ocode]. rewrite Hl, Hrel. reflexivity.
    + cbn [push_ocode add_loc set_loc loc]. rewrite Hl1, (size_jmp_short16 _ Hr). cbn [estimate_jump String.eqb Ascii.eqb Bool.eqb]. apply int32_id. lia.
  - subst name. apply (SzPush E m st dol _ _ (OJcc M16 "CALL" (JLabel lbl)) (gen_call M16 (d - loc s))).
    + cbn [push_ocode add_loc set_loc ocodes]. rewrite Ho1. reflexivity.
    + unfold emitted. cbn [gen_ocode]. rewrite Hl, Hrel. reflexivity.
    + cbn [push_ocode add_loc set_loc loc]. rewrite Hl1, (size_call16 _ Hr). cbn [estimate_jump String.eqb Ascii.eqb Bool.eqb]. apply int32_id. lia.
  - apply (SzPush E m st dol _ _ (OJcc M16 name (JLabel lbl)) (gen_jcc M16 opc (d - loc s))).
    + cbn [push_ocode add_loc set_loc ocodes]. rewrite Ho1. reflexivity.
    + unfold emitted. cbn [gen_ocode]. rewrite Hl, Hrel.
      apply String.eqb_neq in Hn1. apply String.eqb_neq in Hn2. rewrite Hn1, Hn2, Hopc. reflexivity.
    + cbn [push_ocode add_loc set_loc loc]. rewrite Hl1, (size_jcc_short16 opc _ name Hr Hn2).
      assert (He2 : estimate_jump name M16 = 2) by (unfold estimate_jump; apply String.eqb_neq in Hn2; rewrite Hn2; reflexivity).
      rewrite He2. apply int32_id. lia.
Qed.

(* 32-bit mode: EVERY JMP / Jcc / CALL to a label is sized exactly, wherever the label ends up *)
Lemma sized_branch32 s name op r lbl d :
  bmode s = M32 ->
  eval_top (env_of s) op = Ev (EImm (FId lbl)) r ->
  lookup lbl st = Some d ->
  (name = "JMP"%string \/ name = "CALL"%string
   \/ (exists opc, name <> "JMP"%string /\ name <> "CALL"%string /\ lookup name Generated.Tables.jcc_table = Some opc)) ->
  - 2 ^ 31 <= loc s -> loc s + 6 < 2 ^ 31 ->
  sized E m st dol s (do_jcc s name [op]).
Proof.
  intros Hb He Hl Hcase Hlo Hhi. unfold do_jcc. rewrite He. rewrite Hb.
  set (s1 := if sym_has lbl (sym s) then s else set_sym s lbl 0).
  assert (Hs1 : ocodes s1 = ocodes s /\ loc s1 = loc s) by (unfold s1; destruct (sym_has lbl (sym s)); split; reflexivity).
  destruct Hs1 as [Ho1 Hl1].
  assert (Hrel : d - (dol + (loc s - dol)) = d - loc s) by lia.
  destruct Hcase as [Hn | [Hn | [opc [Hn1 [Hn2 Hopc]]]]].
  - subst name. apply (SzPush E m st dol _ _ (OJcc M32 "JMP" (JLabel lbl)) (gen_jmp M32 (d - loc s))).
    + cbn [push_ocode add_loc set_loc ocodes]. rewrite Ho1. reflexivity.
    + unfold emitted. cbn [gen_ocode]. rewrite Hl, Hrel. reflexivity.
    + cbn [push_ocode add_loc set_loc loc]. rewrite Hl1, size_jmp32. cbn [estimate_jump String.eqb Ascii.eqb Bool.eqb orb]. apply int32_id. lia.
  - subst name. apply (SzPush E m st dol _ _ (OJcc M32 "CALL" (JLabel lbl)) (gen_call M32 (d - loc s))).
    + cbn [push_ocode add_loc set_loc ocodes]. rewrite Ho1. reflexivity.
    + unfold emitted. cbn [gen_ocode]. rewrite Hl, Hrel. reflexivity.
    + cbn [push_ocode add_loc set_loc loc]. rewrite Hl1, size_call32. cbn [estimate_jump String.eqb Ascii.eqb Bool.eqb orb]. apply int32_id. lia.
  - apply (SzPush E m st dol _ _ (OJcc M32 name (JLabel lbl)) (gen_jcc M32 opc (d - loc s))).
    + cbn [push_ocode add_loc set_loc ocodes]. rewrite Ho1. reflexivity.
    + unfold emitted. cbn [gen_ocode]. rewrite Hl, Hrel.
      apply String.eqb_neq in Hn1. apply String.eqb_neq in Hn2. rewrite Hn1, Hn2, Hopc. reflexivity.
    + cbn [push_ocode add_loc set_loc loc]. rewrite Hl1, (size_jcc32 opc _ name Hn1 Hn2).
      assert (He2 : estimate_jump name M32 = 6).
      { unfold estimate_jump. apply String.eqb_neq in Hn1. apply String.eqb_neq in Hn2. rewrite Hn1, Hn2. reflexivity. }
      rewrite He2. apply int32_id. lia.
Qed.

(* far JMP seg:off (ptr16:32): pass 1 reserves 8 bytes in 16-bit mode (66 EA id iw) and 7 in 32-bit mode - what codegen emits *)
Lemma sized_farjmp s op r dt l r0 sv ov :
  eval_top (env_of s) op = Ev (ESeg dt l (Some r0)) r ->
  far_dt_ok dt = true -> seg_num l = Some sv -> seg_num r0 = Some ov ->
  -32768 <= sv <= 32767 -> - 2 ^ 31 <= ov < 2 ^ 31 ->
  - 2 ^ 31 <= loc s -> loc s + 8 < 2 ^ 31 ->
  sized E m st dol s (do_jcc s "JMP" [op]).
Proof.
  intros He Hdt Hsv Hov Hrs Hro Hlo Hhi. unfold do_jcc. rewrite He, Hdt, Hsv, Hov.
  cbn [String.eqb Ascii.eqb Bool.eqb].
  apply (SzPush E m st dol _ _ (OJmpFar (bmode s) sv ov) ((match bmode s with M16 => [102] | M32 => [] end) ++ 234 :: le 4 ov ++ le 2 sv)).
  - reflexivity.
  - unfold emitted. cbn [gen_ocode]. unfold in_range.
    replace (-32768 <=? sv) with true by (symmetry; apply Z.leb_le; lia).
    replace (sv <=? 32767) with true by (symmetry; apply Z.leb_le; lia).
    replace (-2147483648 <=? ov) with true by (symmetry; apply Z.leb_le; lia).
    replace (ov <=? 2147483647) with true by (symmetry; apply Z.leb_le; lia).
    reflexivity.
  - cbn [push_ocode add_loc set_loc loc]. rewrite zlen_app. unfold zlen at 2. cbn [Datatypes.length]. rewrite app_length, !le_length.
    destruct (bmode s); unfold zlen; cbn [Datatypes.length]; rewrite int32_id by lia; lia.
Qed.

(* no-operand mnemonics (NOP, HLT, PUSHAD ...): pass 1 counts one byte, the table emits exactly one *)
Lemma sized_noparam s op b :
  handler_of op = Some "processNoParam"%string -> kind_known op = true -> lookup op Generated.Tables.noparam_table = Some b ->
  - 2 ^ 31 <= loc s -> loc s + 1 < 2 ^ 31 ->
  sized E m st dol s (do_mnemonic E s op []).
Proof.
  intros Hh Hk Hb Hlo Hhi. unfold do_mnemonic. rewrite Hh. cbn [String.eqb Ascii.eqb Bool.eqb].
  unfold emit. rewrite Hk.
  apply (SzPush E m st dol _ _ (ONoParam op) [b]).
  - reflexivity.
  - unfold emitted. cbn [gen_ocode]. rewrite Hb. reflexivity.
  - cbn [push_ocode add_loc set_loc loc]. unfold zlen. cbn [Datatypes.length]. rewrite int32_id by lia. lia.
Qed.

End Instances.
