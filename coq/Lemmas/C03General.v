(** C03, general form: for ANY statement sequence (data, instructions, branches, ...) in which every step
    advances LOC by exactly the number of bytes codegen will emit for the ocode it records, every label value
    recorded along the way is origin + the real offset of the label in the image and the image length is
    LOC - origin.  The per-statement "size agreement" premise is discharged separately: for the data
    directives by the lemmas of C05, for INT by [size_int], for the instruction cells of the sweeps by
    computation ([size_agree_*] in SweepLemmas.v).  Where the premise fails (known findings of C03/C04:
    IMUL imm, forward jumps beyond rel8, 32-bit jumps) the conclusion fails too. *)
From Coq Require Import List ZArith String Bool Lia.
From Gosk Require Import Base.Bytes Model.Ast Model.Eval Model.Asm.
Import ListNotations.
Local Open Scope list_scope.
Local Open Scope Z_scope.

Section G.
Variable E : encoder.
Variables (m : mode) (st : symtab) (dol : Z).    (* what codegen is run with: final mode, final symbol table, origin *)

Definition emitted (o : ocode) (pos : Z) : option (list byte) :=
  match gen_ocode E m st dol pos o with Bytes b | BytesDiag b => Some b | _ => None end.

Lemma codegen_snoc : forall l acc d o,
  codegen E m st dol acc d (l ++ [o]) =
  match codegen E m st dol acc d l with
  | GOk bs d' => match gen_ocode E m st dol (zlen bs) o with
                 | Bytes b => GOk (bs ++ b) d'
                 | BytesDiag b => GOk (bs ++ b) true
                 | EPanic => GPanic
                 | EUnmod => GUnmod
                 end
  | GPanic => GPanic
  | GUnmod => GUnmod
  end.
Proof.
  induction l as [|x r IH]; intros acc d o; cbn [app codegen].
  - destruct (gen_ocode E m st dol (zlen acc) o); reflexivity.
  - destruct (gen_ocode E m st dol (zlen acc) x); try reflexivity; apply IH.
Qed.

(** LOC = origin + bytes that codegen emits for the ocodes recorded so far *)
Definition Inv2 (s : p1state) : Prop :=
  exists bs d, codegen E m st dol [] false (rev (ocodes s)) = GOk bs d /\ loc s = dol + zlen bs.

Inductive sized : p1state -> p1state -> Prop :=
| SzSilent s s' : ocodes s' = ocodes s -> loc s' = loc s -> sized s s'
| SzPush s s' o b : ocodes s' = o :: ocodes s -> emitted o (loc s - dol) = Some b -> loc s' = loc s + zlen b -> sized s s'.

Lemma inv2_step s s' : Inv2 s -> sized s s' -> Inv2 s'.
Proof.
  intros HI H. destruct H as [s s' Ho Hloc | s s' o b Ho He Hloc]; destruct HI as [bs [d [Hc Hl]]].
  - unfold Inv2. exists bs, d. rewrite Ho, Hloc. split; assumption.
  - unfold emitted in He. replace (loc s - dol) with (zlen bs) in He by lia.
    unfold Inv2. rewrite Ho. cbn [rev]. rewrite codegen_snoc, Hc.
    destruct (gen_ocode E m st dol (zlen bs) o) as [b'|b'| |]; try discriminate; inversion He; subst b'.
    + exists (bs ++ b), d. split; [reflexivity|]. rewrite Hloc, Hl, zlen_app. lia.
    + exists (bs ++ b), true. split; [reflexivity|]. rewrite Hloc, Hl, zlen_app. lia.
Qed.

Inductive run : p1state -> p1state -> Prop :=
| RNil s : run s s
| RCons s1 s2 s3 : run s1 s2 -> sized s2 s3 -> run s1 s3.

Theorem inv2_run s s' : Inv2 s -> run s s' -> Inv2 s'.
Proof. intros HI H. induction H as [s|s1 s2 s3 H12 IH H23]; [exact HI|]. eapply inv2_step; [apply IH; exact HI | exact H23]. Qed.

(** a label recorded after any such run holds origin + the number of bytes really emitted before it *)
Theorem label_exact s0 s l : Inv2 s0 -> run s0 s ->
  exists bs d, codegen E m st dol [] false (rev (ocodes s)) = GOk bs d
               /\ lookup l (sym (set_sym s l (loc s))) = Some (dol + zlen bs).
Proof.
  intros HI H. destruct (inv2_run s0 s HI H) as [bs [d [Hc Hl]]].
  exists bs, d. split; [exact Hc|]. cbn [set_sym sym lookup]. rewrite String.eqb_refl, Hl. reflexivity.
Qed.

Theorem image_length s0 s : Inv2 s0 -> run s0 s ->
  exists bs d, codegen E m st dol [] false (rev (ocodes s)) = GOk bs d /\ zlen bs = loc s - dol.
Proof. intros HI H. destruct (inv2_run s0 s HI H) as [bs [d [Hc Hl]]]. exists bs, d. split; [exact Hc | lia]. Qed.

Lemma inv2_init : dol = 0 -> Inv2 init_state.
Proof. intros H. exists [], false. split; [reflexivity|]. rewrite H. reflexivity. Qed.

(** ---- the model's own steps are [sized] under the size-agreement premise ---- *)

(* an instruction statement handled through the encoder record *)
Lemma sized_instr s op ops n b :
  enc_est E (bmode s) op ops = Some n -> enc_kind_ok E op = true ->
  emitted (OInstr op ops) (loc s - dol) = Some b -> zlen b = n ->
  - 2 ^ 31 <= loc s + n < 2 ^ 31 ->
  sized s (push_ocode (add_loc (with_diag s (enc_diag E (bmode s) op ops)) n) (OInstr op ops)).
Proof.
  intros Hest Hk Hem Hn Hr.
  apply (SzPush _ _ (OInstr op ops) b).
  - unfold with_diag. destruct (enc_diag E (bmode s) op ops); reflexivity.
  - exact Hem.
  - unfold with_diag. destruct (enc_diag E (bmode s) op ops); cbn [push_ocode add_loc set_loc set_diag loc]; rewrite int32_id by lia; lia.
Qed.

(* labels, EQU, GLOBAL, EXTERN, bracket directives *)
Lemma sized_label s l : sized s (set_sym s l (loc s)).
Proof. apply SzSilent; reflexivity. Qed.

End G.
