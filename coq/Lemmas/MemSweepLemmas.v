(** Finite sweeps over memory-operand statements: every addressing shape x boundary displacements x three carriers,
    decoded against the ISA specification (C01/C02 on whole statements) and checked for pass-1 size = emitted
    length (C03).  The displacement is universally quantified in C02_modrm16_exact / C02_modrm32_exact (ModR/M level);
    here it ranges over the listed boundary values, because the statement-level functions go through the tabulated
    FindEncoding and are closed by computation. *)
From Coq Require Import List ZArith String Bool.
From Gosk Require Import Base.Bytes Model.Ast Model.Eval Model.Asm Model.X86Enc Model.Encoder Spec.X86 Spec.Denote Check.Common Check.C01
     Lemmas.SweepLemmas Lemmas.ModRMLemmas Lemmas.ModRM32Lemmas.
Import ListNotations.
Local Open Scope string_scope.
Local Open Scope list_scope.
Local Open Scope Z_scope.

Definition mem_of (dt : datatype) (b i : string) (sc d : Z) : exp :=
  let regs := (if String.eqb b "" then [] else [EMul (EImm (FId b)) []])
              ++ (if String.eqb i "" then [] else [if sc <=? 1 then EMul (EImm (FId i)) [] else EMul (EImm (FId i)) [(OpMul, EImm (FNum sc))]]) in
  let disp : list (addop * exp) :=
    match regs with
    | [] => [(OpPlus, EMul (EImm (FNum d)) [])]
    | _ => if (d =? 0) && negb (String.eqb b "") then [] else if d <? 0 then [(OpMinus, EMul (EImm (FNum (- d))) [])] else [(OpPlus, EMul (EImm (FNum d)) [])]
    end in
  match map (fun r => (OpPlus, r)) regs ++ disp with
  | [] => EMem dt JtNone (num 0) None
  | (_, h) :: t => EMem dt JtNone (EAdd h t) None
  end.

(* pass-1 LOC after the statement = number of bytes emitted (origin 0, no diagnostic) *)
Definition ok03 (c : Z * stmt) : bool :=
  match assemble gosk_encoder ((if fst c =? 32 then [SConfig CBits (FNum 32)] else []) ++ [snd c]) with
  | Done bs false s => loc s =? zlen bs
  | _ => false
  end.

(* both the decoded meaning (C01/C02) and the pass-1 size (C03) of a one-statement program *)
Definition ok013 (c : Z * stmt) : bool :=
  match assemble gosk_encoder ((if fst c =? 32 then [SConfig CBits (FNum 32)] else []) ++ [snd c]) with
  | Done bs false s => (check_c01 (fst c, snd c, bs) =? 0) && (loc s =? zlen bs)
  | _ => false
  end.

Definition carriers (b i : string) (sc d : Z) : list stmt :=
  let m := mem_of DtNone b i sc d in
  [SMnem "MOV" [ident "CX"; m]; SMnem "MOV" [m; ident "DL"]; SMnem "ADD" [ident "ESI"; m];
   SMnem "MOV" [ident "AX"; m]; SMnem "MOV" [m; ident "AL"];      (* the accumulator must not take the moffs form here *)
   SMnem "CMP" [mem_of DtByte b i sc d; num 5]; SMnem "MOV" [mem_of DtWord b i sc d; num 4660]; SMnem "ADD" [mem_of DtDword b i sc d; num 1]].
Definition carriers4 (b i : string) (sc d : Z) : list stmt :=
  let m := mem_of DtNone b i sc d in
  [SMnem "MOV" [ident "CX"; m]; SMnem "MOV" [m; ident "DL"]; SMnem "ADD" [ident "ESI"; m]; SMnem "MOV" [mem_of DtWord b i sc d; num 4660];
   SMnem "MOV" [ident "EAX"; m]; SMnem "MOV" [m; ident "AL"]].

Definition disps16 : list Z := [0; 1; -1; 127; 128; -128; -129; 4660; 32767; -32768].
Definition disps32 : list Z := [0; 1; 127; 128; -128; -129; 305419896].

(* 16-bit addressing in 16-bit mode: the 8 register shapes and the absolute form *)
Definition sweep_mem16 : list (Z * stmt) :=
  flat_map (fun '(b, i, _, _) => flat_map (fun d => map (fun st => (16, st)) (carriers b i 0 d)) disps16) shapes16
  ++ flat_map (fun d => map (fun st => (16, st)) (carriers "" "" 0 d)) [0; 1; 4660; 32767; 65535].

(* the same 16-bit register shapes in 32-bit mode (67h prefix; the absolute form is a 32-bit address there) *)
Definition sweep_mem16_in32 : list (Z * stmt) :=
  flat_map (fun '(b, i, _, _) => flat_map (fun d => map (fun st => (32, st)) (carriers b i 0 d)) disps16) shapes16.

(* 32-bit addressing in both modes: all 261 shapes and the absolute form (BITS 32 only: in 16-bit mode [disp] is a 16-bit address) *)
Definition sweep_mem32 : list (Z * stmt) :=
  flat_map (fun md => flat_map (fun '(b, i, sc, _, _, _) => flat_map (fun d => map (fun st => (md, st)) (carriers4 b i sc d)) disps32) shapes32) [16; 32]
  ++ flat_map (fun d => map (fun st => (32, st)) (carriers "" "" 0 d)) [0; 1; 4660; 305419896].

Definition bad {A} (f : A -> bool) (l : list A) : list A := filter (fun x => negb (f x)) l.

Lemma sweep_mem16_ok : forallb ok013 sweep_mem16 = true.
Proof. vm_compute. reflexivity. Qed.
Lemma sweep_mem16_in32_ok : forallb ok013 sweep_mem16_in32 = true.
Proof. vm_compute. reflexivity. Qed.
Lemma sweep_mem32_ok : forallb ok013 sweep_mem32 = true.
Proof. vm_compute. reflexivity. Qed.

(* IMUL r,imm (69 /r iw|id): every 16/32-bit register x boundary immediates x both modes; pass 1 sizes the form codegen
   selects since the FindExactImmOutputSize fix in /repo *)
Definition sweep_imul : list (Z * stmt) :=
  flat_map (fun m => flat_map (fun wr => flat_map (fun r => flat_map (fun v =>
      if (- 2 ^ (fst wr - 1) <=? v) && (v <? 2 ^ (fst wr - 1)) then [(m, SMnem "IMUL" [ident r; num v])] else [])
        [0; 1; 4; 100; -1; -128; 127; 128; -129; 1000; 4608; 32767; -32768; 100000; 2147483647]) (snd wr)) [(16, r16); (32, r32)]) modes.
Lemma sweep_imul_ok : forallb ok013 sweep_imul = true.
Proof. vm_compute. reflexivity. Qed.

(* shifts, NOT (registers and typed memory) and PUSH/POP of 16-bit memory operands *)
Definition sweep_shift : list (Z * stmt) :=
  flat_map (fun m => flat_map (fun op => flat_map (fun r => map (fun v => (m, SMnem op [ident r; num v])) [1; 2; 3; 7; 15; 31]) (r8 ++ r16 ++ r32)) ["SHL"; "SHR"; "SAR"]) modes
  ++ flat_map (fun m => map (fun r => (m, SMnem "NOT" [ident r])) (r8 ++ r16 ++ r32)) modes
  ++ flat_map (fun m => flat_map (fun op => flat_map (fun dt => map (fun v => (m, SMnem op [mem_of dt "BX" "" 0 4; num v])) [1; 4; 7]) [DtByte; DtWord; DtDword]) ["SHL"; "SHR"; "SAR"]) modes
  ++ flat_map (fun m => map (fun dt => (m, SMnem "NOT" [mem_of dt "EBX" "ESI" 4 8])) [DtByte; DtWord; DtDword]) modes
  ++ flat_map (fun op => flat_map (fun '(b, i, _, _) => map (fun d => (16, SMnem op [mem_of DtWord b i 0 d])) [0; 4; -128; 4660]) shapes16) ["PUSH"; "POP"].
Lemma sweep_shift_ok : forallb ok013 sweep_shift = true.
Proof. vm_compute. reflexivity. Qed.

Lemma sweep_sizes_ok : forallb ok03 (sweep_rr ++ sweep_ri ++ sweep_sreg ++ sweep_stack ++ sweep_push_imm ++ sweep_port) = true.
Proof. vm_compute. reflexivity. Qed.
