(** C06: on closed constant expressions the model of gosk's Eval computes exactly Spec/Arith.aeval. *)
From Coq Require Import List ZArith String Bool Lia.
From Gosk Require Import Base.Bytes Model.Ast Model.Eval Spec.Arith.
Import ListNotations.
Local Open Scope Z_scope.

Definition in_i64 (z : Z) : Prop := - 2 ^ 63 <= z < 2 ^ 63.

Lemma int64_range z : in_i64 (int64 z).
Proof.
  unfold in_i64, int64, swrap, sign_ext.
  pose proof (Z.mod_pos_bound z (2 ^ 64) ltac:(lia)) as H.
  change (64 - 1) with 63.
  destruct (z mod 2 ^ 64 <? 2 ^ 63) eqn:E.
  - apply Z.ltb_lt in E. lia.
  - apply Z.ltb_ge in E. lia.
Qed.

Lemma w64_int64 z : w64 z = int64 z. Proof. reflexivity. Qed.

(** literals the grammar can produce: decimal literals within int64 (strconv.Atoi succeeded), hex digits non-negative *)
Fixpoint lits_ok (e : exp) : Prop :=
  match e with
  | EImm (FNum z) => in_i64 z
  | EImm (FHex z) => 0 <= z
  | EImm _ => True
  | ENum z => in_i64 z
  | EAdd h t => lits_ok h /\ (fix all (l : list (addop * exp)) : Prop := match l with [] => True | x :: r => lits_ok (snd x) /\ all r end) t
  | EMul h t => lits_ok h /\ (fix all (l : list (mulop * exp)) : Prop := match l with [] => True | x :: r => lits_ok (snd x) /\ all r end) t
  | EMem _ _ l r => lits_ok l /\ match r with Some x => lits_ok x | None => True end
  | ESeg _ l r => lits_ok l /\ match r with Some x => lits_ok x | None => True end
  end.

Definition all_lits {O} (t : list (O * exp)) : Prop := Forall (fun x => lits_ok (snd x)) t.

Lemma lits_add h t : lits_ok (EAdd h t) <-> lits_ok h /\ all_lits t.
Proof.
  cbn [lits_ok]. split; intros [H1 H2]; split; auto.
  - induction t as [|x r IH]; constructor; [apply H2 | apply IH, H2].
  - induction H2 as [|x r Hx Hr IH]; [exact I | split; assumption].
Qed.
Lemma lits_mul h t : lits_ok (EMul h t) <-> lits_ok h /\ all_lits t.
Proof.
  cbn [lits_ok]. split; intros [H1 H2]; split; auto.
  - induction t as [|x r IH]; constructor; [apply H2 | apply IH, H2].
  - induction H2 as [|x r Hx Hr IH]; [exact I | split; assumption].
Qed.

(** the environment the specification sees through a pass-1 state *)
Definition rho_env (env : eenv) : Arith.env :=
  fun s => if String.eqb s "$" then Some (eloc env)
           else match lookup s (macros env) with Some (ENum v) => Some v | _ => None end.

Definition env_ok (env : eenv) : Prop :=
  in_i64 (eloc env) /\ forall s v, lookup s (macros env) = Some (ENum v) -> in_i64 v.

(** aeval unfolded through named inner loops *)
Definition go_add (ev : exp -> option Z) :=
  fix go (acc : Z) (l : list (addop * exp)) {struct l} : option Z :=
    match l with
    | [] => Some acc
    | (o, x) :: r => match ev x with None => None | Some v => go (app_add acc o v) r end
    end.
Definition go_mul (ev : exp -> option Z) :=
  fix go (acc : Z) (l : list (mulop * exp)) {struct l} : option Z :=
    match l with
    | [] => Some acc
    | (o, x) :: r => match ev x with
                     | None => None
                     | Some v => match app_mul acc o v with None => None | Some a' => go a' r end
                     end
    end.

Lemma aeval_add rho h t :
  aeval rho (EAdd h t) = match aeval rho h with None => None | Some v0 => go_add (aeval rho) v0 t end.
Proof. reflexivity. Qed.
Lemma aeval_mul rho h t :
  aeval rho (EMul h t) = match aeval rho h with None => None | Some v0 => go_mul (aeval rho) v0 t end.
Proof. reflexivity. Qed.

Lemma app_add_range a o b : in_i64 (app_add a o b).
Proof. destruct o; cbn [app_add]; rewrite w64_int64; apply int64_range. Qed.
Lemma app_mul_range a o b v : app_mul a o b = Some v -> in_i64 v.
Proof.
  destruct o; cbn [app_mul]; [intros H; inversion H; apply int64_range| |];
  destruct (b =? 0); intros H; inversion H; apply int64_range.
Qed.

Lemma go_add_range ev acc t v : in_i64 acc -> go_add ev acc t = Some v -> in_i64 v.
Proof.
  revert acc; induction t as [|[o x] r IH]; intros acc Ha H; cbn [go_add] in H.
  - inversion H; subst; exact Ha.
  - destruct (ev x); [|discriminate]. eapply IH; [|exact H]. apply app_add_range.
Qed.
Lemma go_mul_range ev acc t v : in_i64 acc -> go_mul ev acc t = Some v -> in_i64 v.
Proof.
  revert acc; induction t as [|[o x] r IH]; intros acc Ha H; cbn [go_mul] in H.
  - inversion H; subst; exact Ha.
  - destruct (ev x); [|discriminate]. destruct (app_mul acc o z) eqn:E; [|discriminate].
    eapply IH; [|exact H]. eapply app_mul_range; exact E.
Qed.

(** the value of any well-formed closed expression is a 64-bit integer *)
Lemma aeval_range env : env_ok env -> forall n e v, (esize e <= n)%nat -> lits_ok e -> aeval (rho_env env) e = Some v -> in_i64 v.
Proof.
  intros [Hloc Hmac]. induction n as [|n IH]; intros e v Hn Hl H.
  - destruct e; cbn [esize] in Hn; lia.
  - destruct e as [f|z|h t|h t|dt jt l r|dt l r].
    + destruct f as [z|z|s|bs|bs]; cbn [aeval] in H; try discriminate.
      * inversion H; subst. exact Hl.
      * destruct (z <=? max_i64) eqn:E; [|discriminate]. inversion H; subst.
        apply Z.leb_le in E. unfold max_i64 in E. cbn [lits_ok] in Hl. unfold in_i64. lia.
      * unfold rho_env in H. destruct (String.eqb s "$"); [inversion H; subst; exact Hloc|].
        destruct (lookup s (macros env)) as [m|] eqn:L; [|discriminate].
        destruct m; try discriminate. inversion H; subst. eapply Hmac; exact L.
    + cbn [aeval] in H. inversion H; subst. exact Hl.
    + rewrite aeval_add in H. apply lits_add in Hl as [Hh Ht].
      destruct (aeval (rho_env env) h) as [v0|] eqn:E0; [|discriminate].
      eapply go_add_range; [|exact H]. eapply (IH h); [cbn [esize] in Hn; lia | exact Hh | exact E0].
    + rewrite aeval_mul in H. apply lits_mul in Hl as [Hh Ht].
      destruct (aeval (rho_env env) h) as [v0|] eqn:E0; [|discriminate].
      eapply go_mul_range; [|exact H]. eapply (IH h); [cbn [esize] in Hn; lia | exact Hh | exact E0].
    + discriminate.
    + discriminate.
Qed.

Definition tail_size {O} (t : list (O * exp)) : nat := fold_right (fun x n => esize (snd x) + n)%nat 0%nat t.

Lemma tail_size_in {O} (t : list (O * exp)) x : In x t -> (esize (snd x) <= tail_size t)%nat.
Proof.
  induction t as [|y r IH]; [contradiction|]. intros [->|H]; cbn [tail_size fold_right]; [lia|].
  specialize (IH H). unfold tail_size in IH. lia.
Qed.

(** the accumulation loop of AddExp.Eval over all-constant tails *)
Section AddLoop.
Variable env : eenv.
Variable fuel : nat.
Let rho := rho_env env.

Definition add_step (a : add_acc) (x : addop * eres) : add_acc :=
  let '(cs, terms, ops, red) := a in
  match snd x with
  | Stuck => a
  | Ev et rt =>
      let red' := red || rt in
      match get_const et with
      | Some v => (match fst x with OpPlus => int64 (cs + v) | OpMinus => int64 (cs - v) end, terms, ops, red')
      | None =>
          match terms, fst x with
          | [], OpMinus => (cs, [et; ENum 0], [OpMinus], red')
          | [], OpPlus => (cs, [et], ops, red')
          | _, _ => (cs, et :: terms, fst x :: ops, red')
          end
      end
  end.

Lemma add_loop t : forall cs red v,
  (forall x, In x t -> forall vx, aeval rho (snd x) = Some vx -> eval env fuel (snd x) = Ev (ENum vx) true) ->
  go_add (aeval rho) cs t = Some v ->
  exists red', fold_left add_step (map (fun ot => (fst ot, eval env fuel (snd ot))) t) (cs, [], [], red) = (v, [], [], red').
Proof.
  induction t as [|[o x] r IH]; intros cs red v Hall H; cbn [go_add] in H.
  - inversion H; subst. exists red. reflexivity.
  - destruct (aeval rho x) as [vx|] eqn:Ex; [|discriminate].
    pose proof (Hall (o, x) (or_introl eq_refl) vx Ex) as Hx. cbn [snd] in Hx.
    cbn [map fold_left fst snd]. rewrite Hx.
    cbn [add_step snd fst get_const].
    assert (Hs : (match o with OpPlus => int64 (cs + vx) | OpMinus => int64 (cs - vx) end) = app_add cs o vx)
      by (destruct o; reflexivity).
    rewrite Hs. apply IH; [|exact H].
    intros y Hy. apply Hall. right; exact Hy.
Qed.

Lemma no_stuck {O} (t : list (O * exp)) :
  (forall x, In x t -> exists vx, eval env fuel (snd x) = Ev (ENum vx) true) ->
  existsb (fun x : O * eres => match snd x with Stuck => true | _ => false end)
          (map (fun ot => (fst ot, eval env fuel (snd ot))) t) = false.
Proof.
  induction t as [|x r IH]; intros H; [reflexivity|]. cbn [map existsb snd].
  destruct (H x (or_introl eq_refl)) as [vx ->]. cbn [orb]. apply IH. intros y Hy; apply H; right; exact Hy.
Qed.

(** the product loop *)
Lemma mul_loop t : forall acc v,
  (forall x, In x t -> forall vx, aeval rho (snd x) = Some vx -> eval env fuel (snd x) = Ev (ENum vx) true) ->
  go_mul (aeval rho) acc t = Some v ->
  let ets := map (fun ot => (fst ot, eval env fuel (snd ot))) t in
  let ts := map (fun x : mulop * eres => (fst x, match snd x with Ev e' _ => e' | Stuck => ENum 0 end)) ets in
  forallb (fun x => is_num (snd x)) ts = true /\ fold_left mul_fold_step ts (Some acc) = Some v.
Proof.
  induction t as [|[o x] r IH]; intros acc v Hall H; cbn [go_mul] in H.
  - inversion H; subst. split; reflexivity.
  - destruct (aeval rho x) as [vx|] eqn:Ex; [|discriminate].
    destruct (app_mul acc o vx) as [a'|] eqn:Ea; [|discriminate].
    pose proof (Hall (o, x) (or_introl eq_refl) vx Ex) as Hx. cbn [snd] in Hx.
    cbn zeta. cbn [map fst snd forallb fold_left].
    rewrite Hx. cbn [is_num andb].
    assert (Hall' : forall y, In y r -> forall vy, aeval rho (snd y) = Some vy -> eval env fuel (snd y) = Ev (ENum vy) true)
      by (intros y Hy; apply Hall; right; exact Hy).
    destruct (IH a' v Hall' H) as [I1 I2]. split; [exact I1|].
    assert (Hstep : mul_fold_step (Some acc) (o, ENum vx) = Some a').
    { cbn [mul_fold_step fst snd num_val]. destruct o; cbn [app_mul] in Ea.
      - inversion Ea; reflexivity.
      - destruct (vx =? 0); [discriminate|]. inversion Ea; reflexivity.
      - destruct (vx =? 0); [discriminate|]. inversion Ea; reflexivity. }
    rewrite Hstep. exact I2.
Qed.
End AddLoop.

(** main theorem, by induction on the fuel *)
Theorem eval_const_correct env : env_ok env ->
  forall fuel e v, (2 * esize e < fuel)%nat -> lits_ok e ->
  aeval (rho_env env) e = Some v -> eval env fuel e = Ev (ENum v) true.
Proof.
  intros Hok. pose proof Hok as [Hloc Hmac].
  induction fuel as [|fuel IH]; intros e v Hf Hl H; [lia|].
  destruct e as [f|z|h t|h t|dt jt l r|dt l r].
  - destruct f as [z|z|s|bs|bs]; cbn [aeval] in H; try discriminate; cbn [eval].
    + inversion H; subst. reflexivity.
    + change (2 ^ 63 - 1) with max_i64. destruct (z <=? max_i64); [|discriminate]. inversion H; subst. reflexivity.
    + unfold rho_env in H. destruct (String.eqb s "$"); [inversion H; subst; reflexivity|].
      destruct (lookup s (macros env)) as [m|]; [|discriminate]. destruct m; try discriminate.
      inversion H; subst. cbn [esize] in Hf. destruct fuel as [|fuel']; [lia|]. reflexivity.
  - cbn [aeval] in H. inversion H; subst. reflexivity.
  - (* EAdd *)
    rewrite aeval_add in H. apply lits_add in Hl as [Hh Ht].
    destruct (aeval (rho_env env) h) as [v0|] eqn:E0; [|discriminate].
    cbn [esize] in Hf. fold (tail_size t) in Hf.
    assert (Eh : eval env fuel h = Ev (ENum v0) true) by (apply IH; [lia | exact Hh | exact E0]).
    assert (Hall : forall x, In x t -> forall vx, aeval (rho_env env) (snd x) = Some vx -> eval env fuel (snd x) = Ev (ENum vx) true).
    { intros x Hx vx Hvx. apply IH; [pose proof (tail_size_in t x Hx); lia | | exact Hvx].
      unfold all_lits in Ht. rewrite Forall_forall in Ht. apply Ht; exact Hx. }
    assert (Hv0 : in_i64 v0) by (eapply (aeval_range env Hok (esize h) h); [lia | exact Hh | exact E0]).
    cbn [eval]. rewrite Eh.
    (* no tail is stuck *)
    assert (Hex : forall x, In x t -> exists vx, eval env fuel (snd x) = Ev (ENum vx) true).
    { intros x Hx.
      assert (Hsome : exists vx, aeval (rho_env env) (snd x) = Some vx).
      { clear - H Hx. revert v0 H. induction t as [|[o y] r IHt]; intros v0 H; [contradiction|].
        cbn [go_add] in H. destruct (aeval (rho_env env) y) as [vy|] eqn:Ey; [|discriminate].
        destruct Hx as [<-|Hx]; [exists vy; exact Ey|]. eapply IHt; [exact Hx | exact H]. }
      destruct Hsome as [vx Hvx]. exists vx. apply Hall; assumption. }
    rewrite (no_stuck env fuel t Hex).
    cbn [get_const]. rewrite (int64_id v0) by exact Hv0.
    destruct (add_loop env fuel t v0 true v Hall H) as [red' Hfold].
    unfold add_step in Hfold. rewrite Hfold. reflexivity.
  - (* EMul *)
    rewrite aeval_mul in H. apply lits_mul in Hl as [Hh Ht].
    destruct (aeval (rho_env env) h) as [v0|] eqn:E0; [|discriminate].
    cbn [esize] in Hf. fold (tail_size t) in Hf.
    assert (Eh : eval env fuel h = Ev (ENum v0) true) by (apply IH; [lia | exact Hh | exact E0]).
    assert (Hall : forall x, In x t -> forall vx, aeval (rho_env env) (snd x) = Some vx -> eval env fuel (snd x) = Ev (ENum vx) true).
    { intros x Hx vx Hvx. apply IH; [pose proof (tail_size_in t x Hx); lia | | exact Hvx].
      unfold all_lits in Ht. rewrite Forall_forall in Ht. apply Ht; exact Hx. }
    cbn [eval]. rewrite Eh.
    destruct t as [|x0 r0].
    + cbn [go_mul] in H. inversion H; subst. reflexivity.
    + cbv iota. set (t := x0 :: r0) in *.
      assert (Hex : forall x, In x t -> exists vx, eval env fuel (snd x) = Ev (ENum vx) true).
      { intros x Hx.
        assert (Hsome : exists vx, aeval (rho_env env) (snd x) = Some vx).
        { clear - H Hx. revert v0 H. induction t as [|[o y] r IHt]; intros v0 H; [contradiction|].
          cbn [go_mul] in H. destruct (aeval (rho_env env) y) as [vy|] eqn:Ey; [|discriminate].
          destruct (app_mul v0 o vy) as [a'|]; [|discriminate].
          destruct Hx as [<-|Hx]; [exists vy; exact Ey|]. eapply IHt; [exact Hx | exact H]. }
        destruct Hsome as [vx Hvx]. exists vx. apply Hall; assumption. }
      rewrite (no_stuck env fuel t Hex).
      destruct (mul_loop env fuel t v0 v Hall H) as [M1 M2].
      cbn zeta in M1, M2. rewrite M1. cbn [is_num andb num_val]. rewrite M2.
      reflexivity.
  - discriminate.
  - discriminate.
Qed.
