From Coq Require Import List ZArith String Bool Lia.
From Gosk Require Import Base.Bytes Model.Ast Model.Eval Model.Asm Spec.Data Generated.Tables Lemmas.DataLemmas.
Import ListNotations.
Local Open Scope Z_scope.

Section WithEncoder.
Variable E : encoder.

(** One statement: what pass 1 records and what codegen later emits for it, for DB/DW/DD. *)
Definition data_stmt_spec (w : nat) (f : symtab -> exp -> list Z * bool) (s : p1state) (ops : list exp) (ds : list dval) : Prop :=
  let s' := do_data s w f ops in
  exists vals,
    ocodes s' = OData w vals :: ocodes s
    /\ (forall m st dol len, gen_ocode E m st dol len (OData w vals) = Bytes (spec_data w ds))
    /\ diag s' = diag s
    /\ loc s' = int32 (loc s + zlen (spec_data w ds))
    /\ sym s' = sym s /\ mac s' = mac s /\ bmode s' = bmode s /\ dollar s' = dollar s.

Lemma do_data_spec w f s ops ds :
  flat_map (le w) (fst (data_operands f (sym s) ops)) = spec_data w ds ->
  snd (data_operands f (sym s) ops) = false ->
  data_stmt_spec w f s ops ds.
Proof.
  intros H1 H2. unfold data_stmt_spec, do_data.
  destruct (data_operands f (sym s) ops) as [vals d] eqn:D. cbn [fst snd] in *. subst d.
  exists vals. cbn [with_diag push_ocode add_loc set_loc ocodes diag loc sym mac bmode dollar].
  repeat split; try reflexivity.
  - intros. cbn [gen_ocode]. now rewrite H1.
  - rewrite <- H1, flat_le_length. reflexivity.
Qed.

Lemma db_stmt s ops ds : denote_all (db_denote (sym s)) ops = Some ds -> Forall dval_ok ds ->
  data_stmt_spec 1 db_operand s ops ds.
Proof. intros H Hok. destruct (db_all (sym s) ops ds H Hok). now apply do_data_spec. Qed.

Lemma dw_stmt s ops ds : denote_all (dwd_denote (sym s)) ops = Some ds ->
  data_stmt_spec 2 dw_operand s ops ds.
Proof. intros H. destruct (dw_all (sym s) ops ds H). now apply do_data_spec. Qed.

Lemma dd_stmt s ops ds : denote_all (dwd_denote (sym s)) ops = Some ds ->
  data_stmt_spec 4 dd_operand s ops ds.
Proof. intros H. destruct (dd_all (sym s) ops ds H). now apply do_data_spec. Qed.

(** RESB n: n zero bytes, LOC + n *)
Lemma resb_stmt s n : 0 <= n < 2 ^ 31 ->
  let s' := do_resb s [ENum n] in
  ocodes s' = OResb n :: ocodes s
  /\ (forall m st dol len, gen_ocode E m st dol len (OResb n) = Bytes (repeat 0 (Z.to_nat n)))
  /\ loc s' = int32 (loc s + n) /\ diag s' = diag s.
Proof.
  intros Hn. cbn [do_resb].
  assert (Hlt : (n <? 0) = false) by (apply Z.ltb_ge; lia). rewrite Hlt.
  cbn [push_ocode add_loc set_loc ocodes loc diag].
  repeat split; try reflexivity.
  - intros. cbn [gen_ocode]. rewrite Hlt. reflexivity.
  - rewrite (int32_id n) by lia. reflexivity.
Qed.

(** ALIGNB n at address LOC = origin + len, origin a multiple of n, n a power of two:
    pass 1 and codegen agree and pad minimally *)
Lemma alignb_stmt s n dol len :
  0 < n < 2 ^ 31 -> Z.land n (n - 1) = 0 -> 0 <= len -> 0 <= loc s -> loc s + n < 2 ^ 31 ->
  loc s = dol + len ->
  let s' := do_alignb s [ENum n] in
  let pad := (n - loc s mod n) mod n in
  is_min_pad (loc s) n pad
  /\ ocodes s' = OAlignb n :: ocodes s
  /\ loc s' = loc s + pad
  /\ (forall m st, gen_ocode E m st dol len (OAlignb n) = Bytes (repeat 0 (Z.to_nat pad))).
Proof.
  intros Hn Hp Hlen Hl Hov Horg. cbn zeta.
  assert (Hmod : (dol + len) mod n = loc s mod n) by (rewrite Horg; reflexivity).
  split; [apply min_pad_formula; lia|].
  cbn [do_alignb]. rewrite (int32_id n) by lia.
  assert (H0 : (n <=? 0) = false) by (apply Z.leb_gt; lia). rewrite H0.
  pose proof (Z.mod_pos_bound (loc s) n ltac:(lia)) as Hb.
  assert (Hpad : (if Z.rem (loc s) n =? 0 then 0
                  else int32 (int32 (Z.quot (int32 (loc s + n - 1)) n * n) - loc s)) = (n - loc s mod n) mod n).
  { rewrite <- pass1_pad_formula by lia.
    destruct (Z.rem (loc s) n =? 0); [reflexivity|].
    rewrite (int32_id (loc s + n - 1)) by lia.
    assert (Hq : 0 <= Z.quot (loc s + n - 1) n * n <= loc s + n - 1).
    { rewrite Z.quot_div_nonneg by lia.
      pose proof (Z.div_mod (loc s + n - 1) n ltac:(lia)).
      pose proof (Z.mod_pos_bound (loc s + n - 1) n ltac:(lia)).
      assert (0 <= (loc s + n - 1) / n) by (apply Z.div_pos; lia). nia. }
    rewrite (int32_id (Z.quot (loc s + n - 1) n * n)) by lia.
    assert (Hge : loc s <= Z.quot (loc s + n - 1) n * n).
    { rewrite Z.quot_div_nonneg by lia.
      pose proof (Z.div_mod (loc s + n - 1) n ltac:(lia)).
      pose proof (Z.mod_pos_bound (loc s + n - 1) n ltac:(lia)). nia. }
    apply int32_id; lia. }
  rewrite Hpad.
  pose proof (Z.mod_pos_bound (n - loc s mod n) n ltac:(lia)) as Hpb.
  cbn [push_ocode add_loc set_loc ocodes loc].
  repeat split; try reflexivity.
  - apply int32_id; lia.
  - intros. cbn [gen_ocode]. rewrite H0. rewrite Hp, Z.eqb_refl. cbn [negb orb].
    rewrite Hmod. reflexivity.
Qed.

(** statements that must emit nothing and leave LOC alone *)
Definition silent (st : stmt) : bool :=
  match st with
  | SLabel _ | SEqu _ _ | SGlobal _ | SExtern _ | SConfig _ _ => true
  | _ => false
  end.

Lemma silent_step s st : silent st = true -> ocodes (step E s st) = ocodes s /\ loc (step E s st) = loc s.
Proof.
  intros H. unfold step. destruct (stuck s); [split; reflexivity|].
  destruct st as [l|n e|l|l|c f|op ops|op]; try discriminate H.
  - split; reflexivity.
  - destruct (eval_top (env_of s) e) as [e0 r0|]; [destruct (equ_reaches _ _ n e0)|]; split; reflexivity.
  - split; reflexivity.
  - split; reflexivity.
  - destruct c; try (split; reflexivity).
    + destruct (bits_of f); split; reflexivity.
    + destruct f; split; reflexivity.
    + destruct f; split; reflexivity.
    + destruct f; split; reflexivity.
Qed.

(** ORG emits nothing *)
Lemma org_stmt s v : ocodes (do_org s [ENum v]) = ocodes s /\ loc (do_org s [ENum v]) = int32 v.
Proof. split; reflexivity. Qed.

End WithEncoder.
