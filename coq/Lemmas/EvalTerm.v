(** Termination of the model of Eval: on EVERY expression (constant or not, any depth), with the EQU table
    holding evaluated numbers, the evaluator answers within fuel 2 * size: the Stuck outcome (= unbounded Go
    recursion) is unreachable. *)
From Coq Require Import List ZArith String Bool Lia.
From Gosk Require Import Base.Bytes Model.Ast Model.Eval Lemmas.EvalLemmas.
Import ListNotations.
Local Open Scope Z_scope.

Definition nums_env (env : eenv) : Prop := forall s m, lookup s (macros env) = Some m -> exists v, m = ENum v.

Lemma existsb_stuck_false {O} env fuel (t : list (O * exp)) :
  (forall x, In x t -> eval env fuel (snd x) <> Stuck) ->
  existsb (fun x : O * eres => match snd x with Stuck => true | _ => false end)
          (map (fun ot => (fst ot, eval env fuel (snd ot))) t) = false.
Proof.
  induction t as [|x r IH]; intros H; [reflexivity|]. cbn [map existsb snd].
  destruct (eval env fuel (snd x)) eqn:Ex; [|exfalso; exact (H x (or_introl eq_refl) Ex)].
  cbn [orb]. apply IH. intros y Hy; apply H; right; exact Hy.
Qed.

Ltac break_match :=
  repeat match goal with
         | |- context [match ?x with _ => _ end] => destruct x
         | |- context [if ?x then _ else _] => destruct x
         end.

Theorem eval_terminates env : nums_env env ->
  forall fuel e, (2 * esize e <= fuel)%nat -> eval env fuel e <> Stuck.
Proof.
  intros Hn. induction fuel as [|f IH]; intros e Hf.
  - destruct e; cbn [esize] in Hf; lia.
  - destruct e as [i|z|h t|h t|dt jt l r|dt l r]; cbn [eval].
    + destruct i as [z|z|s|s|s]; try discriminate.
      * destruct (z <=? 2 ^ 63 - 1); discriminate.
      * destruct (String.eqb s "$"); [discriminate|].
        destruct (lookup s (macros env)) as [m|] eqn:El; [|discriminate].
        destruct (Hn s m El) as [v ->]. cbn [esize] in Hf. destruct f as [|f']; [lia|]. cbn [eval]. discriminate.
    + discriminate.
    + cbn [esize] in Hf. fold (tail_size t) in Hf.
      assert (Hh : eval env f h <> Stuck) by (apply IH; lia).
      destruct (eval env f h) as [eh rh|]; [|congruence].
      rewrite existsb_stuck_false by (intros x Hx; apply IH; pose proof (tail_size_in t x Hx); lia).
      cbv zeta. break_match; discriminate.
    + cbn [esize] in Hf. fold (tail_size t) in Hf.
      assert (Hh : eval env f h <> Stuck) by (apply IH; lia).
      destruct (eval env f h) as [eh rh|]; [|congruence].
      destruct t as [|x t']; [discriminate|].
      rewrite existsb_stuck_false by (intros y Hy; apply IH; pose proof (tail_size_in (x :: t') y Hy); lia).
      cbv zeta. break_match; discriminate.
    + cbn [esize] in Hf.
      assert (Hl : eval env f l <> Stuck) by (apply IH; lia).
      destruct (eval env f l) as [el rl|]; [|congruence].
      destruct r as [r0|].
      * assert (Hr : eval env f r0 <> Stuck) by (apply IH; lia).
        destruct (eval env f r0) as [er rr|]; [|congruence]. break_match; discriminate.
      * break_match; discriminate.
    + cbn [esize] in Hf.
      assert (Hl : eval env f l <> Stuck) by (apply IH; lia).
      destruct (eval env f l) as [el rl|]; [|congruence].
      destruct r as [r0|].
      * assert (Hr : eval env f r0 <> Stuck) by (apply IH; lia).
        destruct (eval env f r0) as [er rr|]; [|congruence]. break_match; discriminate.
      * break_match; discriminate.
Qed.

Corollary eval_top_terminates env : nums_env env -> forall e, eval_top env e <> Stuck.
Proof. intros Hn e. unfold eval_top. apply eval_terminates; [exact Hn|]. unfold eval_fuel. lia. Qed.
