From Coq Require Import List ZArith Znumtheory String Bool Lia.
From Gosk Require Import Base.Bytes Model.Ast Model.Eval Model.Asm Spec.Data Generated.Tables.
Import ListNotations.
Local Open Scope Z_scope.


Lemma land_255 v : Z.land v 255 = v mod 256.
Proof. change 255 with (Z.ones 8). rewrite Z.land_ones by lia. reflexivity. Qed.
Lemma land_65535 v : Z.land v 65535 = v mod 65536.
Proof. change 65535 with (Z.ones 16). rewrite Z.land_ones by lia. reflexivity. Qed.

Lemma le1_land v : le 1 (Z.land v 255) = le 1 v.
Proof. rewrite land_255. change 256 with (256 ^ Z.of_nat 1). apply le_mod. Qed.

Lemma le_int32 n v : (n <= 4)%nat -> le n (int32 v) = le n v.
Proof.
  intros Hn. apply le_eq_mod.
  assert (E : (int32 v) mod 2 ^ 32 = v mod 2 ^ 32) by (apply swrap_mod; lia).
  assert (P1 : 0 < 256 ^ Z.of_nat n) by (apply Z.pow_pos_nonneg; lia).
  assert (Dv : (256 ^ Z.of_nat n | 2 ^ 32)).
  { exists (256 ^ (4 - Z.of_nat n)). rewrite <- Z.pow_add_r by lia.
    replace (4 - Z.of_nat n + Z.of_nat n) with 4 by lia. reflexivity. }
  rewrite (Zmod_div_mod _ (2 ^ 32) (int32 v)) by (try lia; exact Dv).
  rewrite (Zmod_div_mod _ (2 ^ 32) v) by (try lia; exact Dv).
  now rewrite E.
Qed.

Lemma le2_dw v : le 2 (int32 (Z.land v 65535)) = le 2 v.
Proof.
  rewrite le_int32 by lia. rewrite land_65535. change 65536 with (256 ^ Z.of_nat 2). apply le_mod.
Qed.

(** fold_left formulation = flat_map formulation *)
Lemma data_operands_spec f st ops :
  data_operands f st ops = (flat_map (fun e => fst (f st e)) ops, existsb (fun e => snd (f st e)) ops).
Proof.
  unfold data_operands.
  assert (G : forall acc,
    fold_left (fun acc e => let '(vs, d) := f st e in (fst acc ++ vs, snd acc || d)) ops acc
    = (fst acc ++ flat_map (fun e => fst (f st e)) ops, snd acc || existsb (fun e => snd (f st e)) ops)).
  { induction ops as [|e r IH]; intros [a d]; simpl.
    - now rewrite app_nil_r, orb_false_r.
    - destruct (f st e) as [vs d'] eqn:E. rewrite IH. simpl. now rewrite app_assoc, orb_assoc. }
  rewrite G. reflexivity.
Qed.

(** what each well-formed evaluated operand denotes *)
Definition db_denote (st : symtab) (e : exp) : option dval :=
  match e with
  | ENum v => Some (DNum v)
  | EImm (FStr bs) => Some (DStr bs)
  | EImm (FId s) => match lookup s st with Some a => Some (DAddr a) | None => None end
  | _ => None
  end.

Definition dwd_denote (st : symtab) (e : exp) : option dval :=
  match e with
  | ENum v => Some (DNum v)
  | EImm (FId s) => match lookup s st with Some a => Some (DAddr a) | None => None end
  | _ => None
  end.

Fixpoint denote_all (f : exp -> option dval) (ops : list exp) : option (list dval) :=
  match ops with
  | [] => Some []
  | e :: r => match f e, denote_all f r with Some d, Some ds => Some (d :: ds) | _, _ => None end
  end.

Definition bytes_ok (bs : list Z) : Prop := Forall (fun b => 0 <= b < 256) bs.
Definition dval_ok (d : dval) : Prop := match d with DStr bs => bytes_ok bs | _ => True end.

Lemma flat_le1_bytes bs : bytes_ok bs -> flat_map (le 1) bs = bs.
Proof.
  induction 1 as [|b r Hb Hr IH]; [reflexivity|].
  change (flat_map (le 1) (b :: r)) with (le 1 b ++ flat_map (le 1) r). rewrite IH.
  cbn [le app]. f_equal. apply Z.mod_small. lia.
Qed.

Lemma flat_map_single {A B} (g : A -> list B) x : flat_map g [x] = g x.
Proof. cbn [flat_map]. apply app_nil_r. Qed.

Lemma db_operand_ok st e d : db_denote st e = Some d -> dval_ok d ->
  flat_map (le 1) (fst (db_operand st e)) = spec_bytes 1 d /\ snd (db_operand st e) = false.
Proof.
  intros D Hok.
  destruct e as [f|z|h t|h t|dt jt l r|dt l r]; try discriminate D.
  - destruct f as [z|z|s|bs|bs]; try discriminate D.
    + cbn [db_denote db_operand] in *. destruct (lookup s st) as [a|]; [|discriminate D].
      inversion D; subst. cbn [fst snd spec_bytes]. rewrite flat_map_single, le1_land. split; reflexivity.
    + cbn [db_denote db_operand] in *. inversion D; subst. cbn [fst snd spec_bytes].
      split; [apply flat_le1_bytes; exact Hok | reflexivity].
  - cbn [db_denote db_operand] in *. inversion D; subst. cbn [fst snd spec_bytes].
    rewrite flat_map_single, le1_land. split; reflexivity.
Qed.

Lemma dw_operand_ok st e d : dwd_denote st e = Some d ->
  flat_map (le 2) (fst (dw_operand st e)) = spec_bytes 2 d /\ snd (dw_operand st e) = false.
Proof.
  intros D.
  destruct e as [f|z|h t|h t|dt jt l r|dt l r]; try discriminate D.
  - destruct f as [z|z|s|bs|bs]; try discriminate D.
    cbn [dwd_denote dw_operand] in *. destruct (lookup s st) as [a|]; [|discriminate D].
    inversion D; subst. cbn [fst snd spec_bytes]. rewrite flat_map_single. split; reflexivity.
  - cbn [dwd_denote dw_operand] in *. inversion D; subst. cbn [fst snd spec_bytes].
    rewrite flat_map_single, le2_dw. split; reflexivity.
Qed.

Lemma dd_operand_ok st e d : dwd_denote st e = Some d ->
  flat_map (le 4) (fst (dd_operand st e)) = spec_bytes 4 d /\ snd (dd_operand st e) = false.
Proof.
  intros D.
  destruct e as [f|z|h t|h t|dt jt l r|dt l r]; try discriminate D.
  - destruct f as [z|z|s|bs|bs]; try discriminate D.
    cbn [dwd_denote dd_operand] in *. destruct (lookup s st) as [a|]; [|discriminate D].
    inversion D; subst. cbn [fst snd spec_bytes]. rewrite flat_map_single. split; reflexivity.
  - cbn [dwd_denote dd_operand] in *. inversion D; subst. cbn [fst snd spec_bytes].
    rewrite flat_map_single, le_int32 by lia. split; reflexivity.
Qed.

Lemma data_all (w : nat) (f : symtab -> exp -> list Z * bool) (den : exp -> option dval) (ok : dval -> Prop) st :
  (forall e d, den e = Some d -> ok d ->
     flat_map (le w) (fst (f st e)) = spec_bytes w d /\ snd (f st e) = false) ->
  forall ops ds, denote_all den ops = Some ds -> Forall ok ds ->
  flat_map (le w) (fst (data_operands f st ops)) = spec_data w ds
  /\ snd (data_operands f st ops) = false.
Proof.
  intros Hone ops. rewrite data_operands_spec. cbn [fst snd].
  induction ops as [|e r IH]; intros ds H Hok.
  - cbn [denote_all] in H. inversion H; subst. split; reflexivity.
  - cbn [denote_all] in H.
    destruct (den e) as [d|] eqn:D; [|discriminate H].
    destruct (denote_all den r) as [ds'|] eqn:R; [|discriminate H].
    inversion H; subst. inversion Hok as [|? ? Hd Hds]; subst.
    destruct (IH ds' eq_refl Hds) as [IH1 IH2].
    destruct (Hone e d D Hd) as [H1 H2].
    cbn [flat_map existsb]. rewrite flat_map_app, IH1, IH2, H1, H2. split; reflexivity.
Qed.

Lemma db_all st ops ds : denote_all (db_denote st) ops = Some ds -> Forall dval_ok ds ->
  flat_map (le 1) (fst (data_operands db_operand st ops)) = spec_data 1 ds
  /\ snd (data_operands db_operand st ops) = false.
Proof. apply data_all. apply db_operand_ok. Qed.

Lemma dw_all st ops ds : denote_all (dwd_denote st) ops = Some ds ->
  flat_map (le 2) (fst (data_operands dw_operand st ops)) = spec_data 2 ds
  /\ snd (data_operands dw_operand st ops) = false.
Proof.
  intros H. apply (data_all 2 dw_operand (dwd_denote st) (fun _ => True)); [|exact H|].
  - intros e d D _. now apply dw_operand_ok.
  - clear H. induction ds; constructor; auto.
Qed.

Lemma dd_all st ops ds : denote_all (dwd_denote st) ops = Some ds ->
  flat_map (le 4) (fst (data_operands dd_operand st ops)) = spec_data 4 ds
  /\ snd (data_operands dd_operand st ops) = false.
Proof.
  intros H. apply (data_all 4 dd_operand (dwd_denote st) (fun _ => True)); [|exact H|].
  - intros e d D _. now apply dd_operand_ok.
  - clear H. induction ds; constructor; auto.
Qed.

(** length of the emission = LOC advance *)
Lemma flat_le_length w vals : zlen (flat_map (le w) vals) = Z.of_nat w * zlen vals.
Proof.
  induction vals as [|v r IH].
  - unfold zlen; cbn [flat_map Datatypes.length]. now rewrite Z.mul_0_r.
  - change (flat_map (le w) (v :: r)) with (le w v ++ flat_map (le w) r).
    rewrite zlen_app, zlen_le, IH. unfold zlen. cbn [Datatypes.length]. rewrite Nat2Z.inj_succ. ring.
Qed.

(** ALIGNB *)
Lemma min_pad_formula a n : 0 < n -> is_min_pad a n ((n - a mod n) mod n).
Proof.
  intros Hn. unfold is_min_pad. repeat split.
  - apply Z.mod_pos_bound; lia.
  - pose proof (Z.mod_pos_bound a n Hn) as Ha.
    destruct (Z.eq_dec (a mod n) 0) as [E|E].
    + rewrite E, Z.sub_0_r, Z.mod_same, Z.add_0_r by lia. exact E.
    + rewrite (Z.mod_small (n - a mod n)) by lia.
      pose proof (Z.div_mod a n ltac:(lia)) as Hd.
      replace (a + (n - a mod n)) with (0 + (a / n + 1) * n) by lia.
      rewrite Z_mod_plus_full. apply Z.mod_0_l. lia.
  - intros q Hq Hz.
    pose proof (Z.mod_pos_bound a n Hn) as Ha.
    destruct (Z.eq_dec (a mod n) 0) as [E|E].
    + rewrite E, Z.sub_0_r, Z.mod_same by lia. exact Hq.
    + rewrite (Z.mod_small (n - a mod n)) by lia.
      (* (a+q) mod n = 0 and a mod n <> 0  ->  q >= n - a mod n *)
      destruct (Z_lt_dec q (n - a mod n)) as [Hlt|]; [|lia].
      exfalso.
      assert (Hs : (a + q) mod n = a mod n + q).
      { rewrite (Z.div_mod a n) at 1 by lia.
        replace (n * (a / n) + a mod n + q) with ((a mod n + q) + (a / n) * n) by lia.
        rewrite Z_mod_plus_full. apply Z.mod_small. lia. }
      lia.
Qed.

(* pass 1's arithmetic: when LOC is not aligned, ((LOC+unit-1)/unit)*unit - LOC *)
Lemma pass1_pad_formula l n : 0 <= l -> 0 < n ->
  (if Z.rem l n =? 0 then 0 else Z.quot (l + n - 1) n * n - l) = (n - l mod n) mod n.
Proof.
  intros Hl Hn.
  rewrite Z.rem_mod_nonneg by lia. rewrite Z.quot_div_nonneg by lia.
  pose proof (Z.mod_pos_bound l n Hn) as Hb.
  destruct (l mod n =? 0) eqn:E.
  - apply Z.eqb_eq in E. rewrite E, Z.sub_0_r, Z.mod_same by lia. reflexivity.
  - apply Z.eqb_neq in E. rewrite (Z.mod_small (n - l mod n)) by lia.
    assert (Hq : (l + n - 1) / n = l / n + 1).
    { rewrite (Z.div_mod l n) at 1 by lia.
      replace (n * (l / n) + l mod n + n - 1) with ((l mod n + n - 1) + (l / n) * n) by lia.
      rewrite Z_div_plus_full by lia.
      assert ((l mod n + n - 1) / n = 1).
      { symmetry. apply Z.div_unique with (r := l mod n - 1); lia. }
      lia. }
    rewrite Hq. pose proof (Z.div_mod l n). lia.
Qed.
