(** Finite sweeps closed by computation over the regenerated FindEncoding table: every register in
    every position for the register/register, register/immediate, stack and port forms, in both
    modes.  Re-proved whenever Generated/Rows.v or Generated/Tables.v change. *)
From Coq Require Import List ZArith String Bool.
From Gosk Require Import Base.Bytes Model.Ast Model.Eval Model.Asm Model.X86Enc Model.Encoder Spec.Branch Spec.X86 Spec.Denote Spec.X86Len Check.Common Check.C01.
Import ListNotations.
Local Open Scope string_scope.
Local Open Scope list_scope.
Local Open Scope Z_scope.

Definition model_bytes (m : Z) (st : stmt) : option (list Z) :=
  match assemble gosk_encoder ((if m =? 32 then [SConfig CBits (FNum 32)] else []) ++ [st]) with
  | Done bs false _ => Some bs
  | _ => None
  end.

Definition ok01 (c : Z * stmt) : bool :=
  match model_bytes (fst c) (snd c) with Some bs => check_c01 (fst c, snd c, bs) =? 0 | None => false end.
Definition ok18 (c : Z * stmt) : bool :=
  match model_bytes (fst c) (snd c) with Some bs => check_c18 (fst c, snd c, bs) =? 0 | None => false end.

Definition r8 := ["AL"; "CL"; "DL"; "BL"; "AH"; "CH"; "DH"; "BH"].
Definition r16 := ["AX"; "CX"; "DX"; "BX"; "SP"; "BP"; "SI"; "DI"].
Definition r32 := ["EAX"; "ECX"; "EDX"; "EBX"; "ESP"; "EBP"; "ESI"; "EDI"].
Definition alu := ["ADD"; "OR"; "AND"; "SUB"; "XOR"; "CMP"].
Definition modes : list Z := [16; 32].

Definition pairs {A B} (l : list A) (r : list B) : list (A * B) := flat_map (fun a => map (fun b => (a, b)) r) l.

Definition sweep_rr : list (Z * stmt) :=
  flat_map (fun m => flat_map (fun op => flat_map (fun rs => map (fun ab => (m, SMnem op [ident (fst ab); ident (snd ab)])) (pairs rs rs)) [r8; r16; r32]) ("MOV" :: alu)) modes.

(* every immediate that is representable in the operand width (signed or unsigned reading); before the Require66h fix in
   /repo this had to exclude the cells where the size class of the immediate produced a bogus 66h prefix *)
Definition imm_ok (m w v : Z) : bool := (- 2 ^ (w - 1) <=? v) && (v <? 2 ^ w).
Definition imms : list Z := [0; 1; -1; 127; 128; 255; -128; -129; 256; 32767; 32768; -32768; 4660; 65407; 65408; 65535; 65536; 2147483647; 2147483648; -2147483648; 305419896; 4294967167; 4294967168; 4294967295].
Definition sweep_ri : list (Z * stmt) :=
  flat_map (fun m => flat_map (fun op => flat_map (fun wr => flat_map (fun r => flat_map (fun v =>
      if imm_ok m (fst wr) v then [(m, SMnem op [ident r; num v])] else []) imms) (snd wr)) [(8, r8); (16, r16); (32, r32)]) ("MOV" :: alu)) modes.

Definition sweep_stack : list (Z * stmt) :=
  flat_map (fun m => flat_map (fun op => map (fun r => (m, SMnem op [ident r])) (r16 ++ r32)) ["PUSH"; "POP"]) modes.

Definition sweep_port : list (Z * stmt) :=
  flat_map (fun m => flat_map (fun a => [(m, SMnem "IN" [ident a; ident "DX"]); (m, SMnem "OUT" [ident "DX"; ident a]);
                                          (m, SMnem "OUT" [num 33; ident a])]
                                         ++ (if String.eqb a "EAX" then [] else [(m, SMnem "IN" [ident a; num 96])]   (* IN EAX,imm8 is diagnosed by pass 1 *)
                                         )) ["AL"; "AX"; "EAX"]) modes.

(* MOV between every 16-bit general register and every segment register, both directions, both modes
   (MOV CS,r16 is not a valid instruction and is left out) *)
Definition sregs := ["ES"; "CS"; "SS"; "DS"; "FS"; "GS"].
Definition sweep_sreg : list (Z * stmt) :=
  flat_map (fun m => flat_map (fun r => flat_map (fun sr =>
     (m, SMnem "MOV" [ident r; ident sr]) :: (if String.eqb sr "CS" then [] else [(m, SMnem "MOV" [ident sr; ident r])])) sregs) r16) modes.

Lemma sweep_rr_ok : forallb ok01 sweep_rr = true.
Proof. vm_compute. reflexivity. Qed.
Lemma sweep_ri_ok : forallb ok01 sweep_ri = true.
Proof. vm_compute. reflexivity. Qed.
(* PUSH imm: every boundary immediate in both modes (the value is pushed with the operand size of the mode) *)
Definition sweep_push_imm : list (Z * stmt) := flat_map (fun m => map (fun v => (m, SMnem "PUSH" [num v])) imms) modes.
Lemma sweep_push_imm_ok : forallb ok01 sweep_push_imm = true.
Proof. vm_compute. reflexivity. Qed.
Lemma sweep_sreg_ok : forallb ok01 sweep_sreg = true.
Proof. vm_compute. reflexivity. Qed.
Lemma sweep_stack_ok : forallb ok01 sweep_stack = true.
Proof. vm_compute. reflexivity. Qed.
Lemma sweep_port_ok : forallb ok01 sweep_port = true.
Proof. vm_compute. reflexivity. Qed.

(* C18: the same register/immediate and stack cells are emitted in the shortest form *)
(* C18 domain: the cells of sweep_ri except 16/32-bit immediates written as unsigned values >= 2^(w-1) whose value modulo
   2^w fits int8 (0xff80..0xffff, 0xffffff80..0xffffffff): gosk encodes those with the full-width immediate
   (finding C18-unsigned-imm-not-sign-extended) *)
Definition wrap_fits8 (w v : Z) : bool := negb (w =? 8) && (2 ^ (w - 1) <=? v) && (-128 <=? v - 2 ^ w).
Definition width_of_reg (st : stmt) : Z :=
  match st with
  | SMnem _ (EAdd (EMul (EImm (FId r)) []) [] :: _) => if existsb (String.eqb r) r8 then 8 else if existsb (String.eqb r) r16 then 16 else 32
  | _ => 0
  end.
Definition imm_of (st : stmt) : Z :=
  match st with SMnem _ [_; EAdd (EMul (EImm (FNum v)) []) []] => v | _ => 0 end.
Definition is_mov (st : stmt) : bool := match st with SMnem op _ => String.eqb op "MOV" | _ => false end.
Definition sweep_ri18 : list (Z * stmt) :=
  filter (fun c => is_mov (snd c) || negb (wrap_fits8 (width_of_reg (snd c)) (imm_of (snd c)))) sweep_ri.
Lemma sweep_ri_short : forallb ok18 sweep_ri18 = true.
Proof. vm_compute. reflexivity. Qed.
Lemma sweep_stack_short : forallb ok18 sweep_stack = true.
Proof. vm_compute. reflexivity. Qed.
