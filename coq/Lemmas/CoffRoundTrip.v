(** C08: the independent reader Spec/CoffRead.v reads back what the writer model Model/Coff.v wrote. *)
From Coq Require Import List ZArith String Bool Ascii Lia Permutation.
From Gosk Require Import Base.Bytes Model.Ast Model.Eval Model.Coff Spec.CoffRead Lemmas.CoffLemmas.
Import ListNotations.
Local Open Scope list_scope.
Local Open Scope Z_scope.

(** ---------- slicing a concatenation ---------- *)
Lemma slice_at (pre mid post : list byte) :
  slice (zlen pre) (zlen mid) (pre ++ mid ++ post) = Some mid.
Proof.
  unfold slice. pose proof (zlen_nonneg pre). pose proof (zlen_nonneg mid). pose proof (zlen_nonneg post).
  replace (zlen pre <? 0) with false by (symmetry; apply Z.ltb_ge; lia).
  replace (zlen mid <? 0) with false by (symmetry; apply Z.ltb_ge; lia).
  rewrite !zlen_app.
  replace (zlen pre + (zlen mid + zlen post) <? zlen pre + zlen mid) with false by (symmetry; apply Z.ltb_ge; lia).
  cbn [orb]. unfold zlen. rewrite !Nat2Z.id.
  rewrite skipn_app, skipn_all, Nat.sub_diag. cbn [skipn app].
  rewrite firstn_app, firstn_all, Nat.sub_diag. cbn [firstn]. rewrite app_nil_r. reflexivity.
Qed.

Lemma slice_at' f pre mid post off len :
  f = pre ++ mid ++ post -> off = zlen pre -> len = zlen mid -> slice off len f = Some mid.
Proof. intros -> -> ->. apply slice_at. Qed.

Lemma u_at f pre n x post off :
  f = pre ++ le n x ++ post -> off = zlen pre -> u off n f = Some (x mod 256 ^ Z.of_nat n).
Proof.
  intros Hf Ho. unfold u. rewrite (slice_at' f pre (le n x) post); auto.
  - rewrite le_decode_le. reflexivity.
  - rewrite zlen_le. reflexivity.
Qed.

Lemma u1_at f pre b post off :
  f = pre ++ [b] ++ post -> off = zlen pre -> u off 1 f = Some b.
Proof.
  intros Hf Ho. unfold u. rewrite (slice_at' f pre [b] post); auto.
  cbn [le_decode]. f_equal. lia.
Qed.

(** ---------- one symbol record ---------- *)
Definition naux_of (e : sym_entry) : Z := naux e.
Definition aux_of (e : sym_entry) : list byte := match se_aux e with Some a => a | None => [] end.

Lemma zlen_cons {A} (x : A) l : zlen (x :: l) = 1 + zlen l.
Proof. unfold zlen. cbn [Datatypes.length]. lia. Qed.

Lemma read_record f pre e post : f = pre ++ pack_sym e ++ post -> entry_ok e ->
  let off := zlen pre in
  slice off 8 f = Some (se_name e)
  /\ u (off + 8) 4 f = Some (se_value e mod 2 ^ 32)
  /\ u (off + 12) 2 f = Some (se_section e mod 2 ^ 16)
  /\ u (off + 14) 2 f = Some (se_type e mod 2 ^ 16)
  /\ u (off + 16) 1 f = Some (se_class e mod 256)
  /\ u (off + 17) 1 f = Some (naux_of e)
  /\ slice (off + 18) (18 * naux_of e) f = Some (aux_of e).
Proof.
  intros Hf [Hn Ha] off. unfold pack_sym in Hf.
  assert (Hn8 : zlen (se_name e) = 8) by (unfold zlen; rewrite Hn; reflexivity).
  set (nm := se_name e) in *. set (v := le 4 (se_value e)) in *. set (sc := le 2 (se_section e)) in *.
  set (ty := le 2 (se_type e)) in *.
  assert (Hv : zlen v = 4) by (unfold v; rewrite zlen_le; reflexivity).
  assert (Hsc : zlen sc = 2) by (unfold sc; rewrite zlen_le; reflexivity).
  assert (Hty : zlen ty = 2) by (unfold ty; rewrite zlen_le; reflexivity).
  change (match se_aux e with Some a => zlen a / 18 | None => 0 end) with (naux_of e) in Hf. fold (aux_of e) in Hf.
  assert (Hal : zlen (aux_of e) = 18 * naux_of e).
  { unfold aux_of, naux_of, naux. destruct (se_aux e) as [a|]; [|reflexivity].
    destruct Ha as [Hm _]. pose proof (Z.div_mod (zlen a) 18 ltac:(lia)) as Hd. rewrite Hm in Hd. lia. }
  repeat split.
  - apply (slice_at' f pre nm (v ++ sc ++ ty ++ [se_class e mod 256] ++ [naux_of e] ++ aux_of e ++ post)); auto.
    rewrite Hf. rewrite <- !app_assoc. reflexivity.
  - change (2 ^ 32) with (256 ^ Z.of_nat 4).
    apply (u_at f (pre ++ nm) 4 (se_value e) (sc ++ ty ++ [se_class e mod 256] ++ [naux_of e] ++ aux_of e ++ post)).
    + rewrite Hf. rewrite <- !app_assoc. reflexivity.
    + rewrite zlen_app. unfold off. lia.
  - change (2 ^ 16) with (256 ^ Z.of_nat 2).
    apply (u_at f (pre ++ nm ++ v) 2 (se_section e) (ty ++ [se_class e mod 256] ++ [naux_of e] ++ aux_of e ++ post)).
    + rewrite Hf. rewrite <- !app_assoc. reflexivity.
    + rewrite !zlen_app. unfold off. lia.
  - change (2 ^ 16) with (256 ^ Z.of_nat 2).
    apply (u_at f (pre ++ nm ++ v ++ sc) 2 (se_type e) ([se_class e mod 256] ++ [naux_of e] ++ aux_of e ++ post)).
    + rewrite Hf. rewrite <- !app_assoc. reflexivity.
    + rewrite !zlen_app. unfold off. lia.
  - apply (u1_at f (pre ++ nm ++ v ++ sc ++ ty) (se_class e mod 256) ([naux_of e] ++ aux_of e ++ post)).
    + rewrite Hf. rewrite <- !app_assoc. reflexivity.
    + rewrite !zlen_app. unfold off. lia.
  - apply (u1_at f (pre ++ nm ++ v ++ sc ++ ty ++ [se_class e mod 256]) (naux_of e) (aux_of e ++ post)).
    + rewrite Hf. rewrite <- !app_assoc. reflexivity.
    + rewrite !zlen_app, zlen_cons. unfold off. change (zlen (@nil Z)) with 0. lia.
  - apply (slice_at' f (pre ++ nm ++ v ++ sc ++ ty ++ [se_class e mod 256] ++ [naux_of e]) (aux_of e) post); auto.
    + rewrite Hf. rewrite <- !app_assoc. reflexivity.
    + rewrite !zlen_app, !zlen_cons. unfold off. change (zlen (@nil Z)) with 0. lia.
Qed.

(** ---------- the symbol table walk ---------- *)
Definition sym_of (nm : sym_entry -> list byte) (e : sym_entry) : symbol :=
  {| y_name := nm e; y_value := se_value e mod 2 ^ 32; y_section := sign_ext 16 (se_section e mod 2 ^ 16);
     y_type := se_type e mod 2 ^ 16; y_class := se_class e mod 256; y_naux := naux_of e; y_aux := aux_of e |}.

Lemma nrecords_cons e r : nrecords (e :: r) = nrecords r + 1 + naux_of e.
Proof. reflexivity. Qed.

Lemma nrecords_nonneg es : 0 <= nrecords es.
Proof.
  induction es as [|e r IH]; [unfold nrecords; cbn [fold_right]; lia|]. rewrite nrecords_cons. unfold naux_of, naux.
  destruct (se_aux e) as [a|]; [|lia]. pose proof (Z.div_pos (zlen a) 18 (zlen_nonneg a) ltac:(lia)). lia.
Qed.

Lemma nrecords_app a b : nrecords (a ++ b) = nrecords a + nrecords b.
Proof. induction a as [|e r IH]; [unfold nrecords at 2; cbn [app fold_right]; lia|]. cbn [app]. rewrite !nrecords_cons, IH. lia. Qed.

Lemma read_symbols_ok f so ss nm : forall es pre post fuel,
  f = pre ++ flat_map pack_sym es ++ post -> Forall entry_ok es ->
  (forall e, In e es -> resolve_name f so ss (se_name e) = Some (nm e)) ->
  (Datatypes.length es <= fuel)%nat ->
  read_symbols f so ss (zlen pre) (nrecords es) fuel = Some (map (sym_of nm) es).
Proof.
  induction es as [|e r IH]; intros pre post fuel Hf Hok Hres Hfuel.
  - destruct fuel; cbn [read_symbols nrecords fold_right map]; reflexivity.
  - destruct fuel as [|k]; [cbn in Hfuel; lia|].
    pose proof (Forall_inv Hok) as He. pose proof (Forall_inv_tail Hok) as Hr.
    cbn [flat_map] in Hf. rewrite <- app_assoc in Hf.
    destruct (read_record _ pre e (flat_map pack_sym r ++ post) Hf He) as [R1 [R2 [R3 [R4 [R5 [R6 R7]]]]]].
    cbn [read_symbols]. rewrite nrecords_cons.
    pose proof (nrecords_nonneg r) as Hnn.
    assert (Hna : 0 <= naux_of e).
    { unfold naux_of, naux. destruct (se_aux e) as [a|]; [|lia]. apply Z.div_pos; [apply zlen_nonneg | lia]. }
    replace (nrecords r + 1 + naux_of e =? 0) with false by (symmetry; apply Z.eqb_neq; lia).
    rewrite R1, R2, R3, R4, R5, R6.
    replace (nrecords r + 1 + naux_of e <? 1 + naux_of e) with false by (symmetry; apply Z.ltb_ge; lia).
    rewrite R7, (Hres e (or_introl eq_refl)).
    replace (nrecords r + 1 + naux_of e - 1 - naux_of e) with (nrecords r) by lia.
    assert (Hlen : zlen pre + 18 * (1 + naux_of e) = zlen (pre ++ pack_sym e)).
    { rewrite zlen_app. destruct He as [Hn Ha]. rewrite (pack_sym_length e Hn Ha). unfold naux_of. lia. }
    rewrite Hlen.
    rewrite (IH (pre ++ pack_sym e) post k).
    + cbn [map]. reflexivity.
    + rewrite Hf. rewrite <- !app_assoc. reflexivity.
    + exact Hr.
    + intros e' He'. apply Hres. right. exact He'.
    + cbn [Datatypes.length] in Hfuel. lia.
Qed.

(** ---------- names: inline or through the string table ---------- *)
Definition nul_free (bs : list byte) : Prop := Forall (fun b => 1 <= b < 256) bs.

Definition tab_has (tab nb : list byte) (off : Z) : Prop :=
  exists pre post, tab = pre ++ nb ++ [0] ++ post /\ off = zlen pre + 4.

(* what a reader must report for the 8 raw name bytes, as a function of the string table *)
Definition name_in (tab raw : list byte) : list byte :=
  if le_decode (firstn 4 raw) =? 0 then take_until_nul (skipn (Z.to_nat (le_decode (skipn 4 raw) - 4)) tab)
  else take_until_nul raw.

Definition raw_ok (tab raw : list byte) : Prop :=
  le_decode (firstn 4 raw) <> 0
  \/ exists off nb, raw = le 4 0 ++ le 4 off /\ tab_has tab nb off /\ nul_free nb /\ off < 2 ^ 32.

Lemma take_until_nul_app nb post : nul_free nb -> take_until_nul (nb ++ 0 :: post) = nb.
Proof.
  induction 1 as [|b r Hb Hr IH]; [reflexivity|].
  cbn [app take_until_nul]. replace (b =? 0) with false by (symmetry; apply Z.eqb_neq; lia). now rewrite IH.
Qed.

Lemma take_until_nul_zeros nb k : nul_free nb -> take_until_nul (nb ++ repeat 0 k) = nb.
Proof.
  intros H. destruct k as [|k].
  - cbn [repeat]. rewrite app_nil_r. induction H as [|b r Hb Hr IH]; [reflexivity|].
    cbn [take_until_nul]. replace (b =? 0) with false by (symmetry; apply Z.eqb_neq; lia). now rewrite IH.
  - cbn [repeat]. apply take_until_nul_app. exact H.
Qed.

Lemma existsb_nul nb post : existsb (Z.eqb 0) (nb ++ 0 :: post) = true.
Proof. rewrite existsb_app. cbn [existsb]. change (0 =? 0) with true. cbn [orb]. apply orb_true_r. Qed.

Lemma resolve_ok f X tab raw :
  f = X ++ le 4 (zlen tab + 4) ++ tab -> raw_ok tab raw ->
  resolve_name f (zlen X) (zlen tab + 4) raw = Some (name_in tab raw).
Proof.
  intros Hf [Hnz | [off [nb [Hraw [[pre [post [Htab Hoff]]] [Hnf Hlt]]]]]]; unfold resolve_name, name_in.
  - apply Z.eqb_neq in Hnz. rewrite Hnz. reflexivity.
  - assert (H4 : firstn 4 raw = le 4 0).
    { rewrite Hraw. reflexivity. }
    assert (S4 : skipn 4 raw = le 4 off).
    { rewrite Hraw. reflexivity. }
    rewrite H4, S4, !le_decode_le. change (0 mod 256 ^ Z.of_nat 4) with 0. cbn [Z.eqb].
    pose proof (zlen_nonneg pre) as Hp.
    change (256 ^ Z.of_nat 4) with (2 ^ 32). rewrite (Z.mod_small off) by lia.
    assert (Hlt2 : zlen pre < zlen tab).
    { rewrite Htab, !zlen_app. pose proof (zlen_nonneg nb). pose proof (zlen_nonneg post).
      change (zlen [0]) with 1. lia. }
    replace (off <? 4) with false by (symmetry; apply Z.ltb_ge; lia).
    replace (zlen tab + 4 <=? off) with false by (symmetry; apply Z.leb_gt; lia).
    cbn [orb].
    rewrite (slice_at' f (X ++ le 4 (zlen tab + 4) ++ pre) (nb ++ [0] ++ post) []).
    + cbn [app]. rewrite existsb_nul. rewrite (take_until_nul_app nb post Hnf).
      replace (Z.to_nat (off - 4)) with (Datatypes.length pre) by (unfold zlen in Hoff; lia).
      rewrite Htab. rewrite skipn_app, skipn_all, Nat.sub_diag. cbn [skipn app].
      rewrite (take_until_nul_app nb post Hnf). reflexivity.
    + rewrite Hf, Htab. rewrite app_nil_r. rewrite <- !app_assoc. reflexivity.
    + rewrite !zlen_app, zlen_le. change (Z.of_nat 4) with 4. lia.
    + rewrite Htab, !zlen_app. lia.
Qed.

(** ---------- the writer's name conversion keeps the string-table invariant ---------- *)
Definition name_ok (n : string) : Prop := nul_free (bytes_of_string n) /\ bytes_of_string n <> [].
Definition seen_ok (tab : list byte) (seen : list (string * Z)) : Prop :=
  forall n off, lookup n seen = Some off -> tab_has tab (bytes_of_string n) off.

Lemma tab_has_app tab more nb off : tab_has tab nb off -> tab_has (tab ++ more) nb off.
Proof.
  intros [pre [post [Ht Ho]]]. exists pre, (post ++ more). split; [|exact Ho].
  rewrite Ht. rewrite <- !app_assoc. reflexivity.
Qed.

Lemma tab_has_bound tab nb off : tab_has tab nb off -> 4 <= off /\ off < zlen tab + 4.
Proof.
  intros [pre [post [Ht Ho]]]. pose proof (zlen_nonneg pre). pose proof (zlen_nonneg nb). pose proof (zlen_nonneg post).
  rewrite Ht, !zlen_app. change (zlen [0]) with 1. lia.
Qed.

Lemma le_decode_nonneg bs : Forall (fun b => 0 <= b) bs -> 0 <= le_decode bs.
Proof. induction 1 as [|b r Hb Hr IH]; cbn [le_decode]; lia. Qed.

Lemma nul_free_nonneg bs : nul_free bs -> Forall (fun b => 0 <= b) bs.
Proof. intros H. eapply Forall_impl; [|exact H]. cbn. intros; lia. Qed.

Lemma Forall_firstn_ {A} (P : A -> Prop) n : forall l, Forall P l -> Forall P (firstn n l).
Proof.
  induction n as [|n IH]; intros l H; [constructor|]. destruct l as [|x r]; [constructor|].
  cbn [firstn]. constructor; [exact (Forall_inv H) | apply IH; exact (Forall_inv_tail H)].
Qed.

Lemma inline_name nb tab : nul_free nb -> nb <> [] -> zlen nb <= 8 ->
  raw_ok tab (pad_to 8 nb) /\ name_in tab (pad_to 8 nb) = nb.
Proof.
  intros Hnf Hne Hlen.
  assert (Hpad : pad_to 8 nb = nb ++ repeat 0 (8 - Datatypes.length nb)).
  { unfold pad_to. rewrite firstn_all2 by (unfold zlen in Hlen; lia). reflexivity. }
  assert (Hnz : le_decode (firstn 4 (pad_to 8 nb)) <> 0).
  { rewrite Hpad. destruct nb as [|b r]; [congruence|]. cbn [app firstn le_decode].
    pose proof (Forall_inv Hnf) as Hb. cbn in Hb.
    assert (0 <= le_decode (firstn 3 (r ++ repeat 0 (8 - Datatypes.length (b :: r))))).
    { apply le_decode_nonneg. apply Forall_firstn_. apply Forall_app. split.
      - apply nul_free_nonneg. exact (Forall_inv_tail Hnf).
      - apply Forall_forall. intros x Hx. apply repeat_spec in Hx. lia. }
    lia. }
  split; [left; exact Hnz|].
  unfold name_in. apply Z.eqb_neq in Hnz. rewrite Hnz. rewrite Hpad. apply take_until_nul_zeros. exact Hnf.
Qed.

Lemma table_name nb tab off : nul_free nb -> tab_has tab nb off -> zlen tab + 4 <= 2 ^ 32 ->
  raw_ok tab (le 4 0 ++ le 4 off) /\ name_in tab (le 4 0 ++ le 4 off) = nb.
Proof.
  intros Hnf Hhas Hb. pose proof (tab_has_bound _ _ _ Hhas) as [H4 Hlt].
  split.
  - right. exists off, nb. repeat split; auto. lia.
  - unfold name_in. change (firstn 4 (le 4 0 ++ le 4 off)) with (le 4 0). change (skipn 4 (le 4 0 ++ le 4 off)) with (le 4 off).
    rewrite !le_decode_le. change (0 mod 256 ^ Z.of_nat 4) with 0. cbn [Z.eqb].
    change (256 ^ Z.of_nat 4) with (2 ^ 32). rewrite Z.mod_small by lia.
    destruct Hhas as [pre [post [Ht Ho]]].
    replace (Z.to_nat (off - 4)) with (Datatypes.length pre) by (unfold zlen in Ho; lia).
    rewrite Ht. rewrite skipn_app, skipn_all, Nat.sub_diag. cbn [skipn app].
    apply take_until_nul_app. exact Hnf.
Qed.

Lemma convert_name_spec n tab seen : name_ok n -> seen_ok tab seen ->
  let r := convert_name n (tab, seen) in
  (exists more, fst (snd r) = tab ++ more) /\ seen_ok (fst (snd r)) (snd (snd r)) /\
  forall T m, T = fst (snd r) ++ m -> zlen T + 4 <= 2 ^ 32 ->
    raw_ok T (fst r) /\ name_in T (fst r) = bytes_of_string n.
Proof.
  intros [Hnf Hne] Hseen. unfold convert_name. set (nb := bytes_of_string n) in *.
  destruct (8 <? zlen nb) eqn:E8.
  - destruct (lookup n seen) as [off|] eqn:El; cbn [fst snd].
    + split; [exists []; now rewrite app_nil_r|]. split; [exact Hseen|].
      intros T m HT Hb. apply table_name; auto. rewrite HT. apply tab_has_app. apply Hseen. exact El.
    + split; [exists (nb ++ [0]); reflexivity|]. split.
      * intros n' off'. cbn [lookup]. destruct (String.eqb n' n) eqn:En.
        -- intros H. inversion H; subst off'. apply String.eqb_eq in En. subst n'.
           exists tab, []. split; [cbn [app]; reflexivity | reflexivity].
        -- intros H. apply tab_has_app. apply Hseen. exact H.
      * intros T m HT Hb. apply table_name; auto. rewrite HT. apply tab_has_app.
        exists tab, []. split; [cbn [app]; reflexivity | reflexivity].
  - cbn [fst snd]. split; [exists []; now rewrite app_nil_r|]. split; [exact Hseen|].
    intros T m _ _. apply inline_name; auto. apply Z.ltb_ge in E8. exact E8.
Qed.

(** what the record of a GLOBAL name must say *)
Definition gentry_ok (symtab : list (string * Z)) (T : list byte) (e : sym_entry) (n : string) : Prop :=
  raw_ok T (se_name e) /\ name_in T (se_name e) = bytes_of_string n
  /\ se_class e = 2 /\ se_type e = 0 /\ se_aux e = None
  /\ match lookup n symtab with
     | Some a => se_section e = 1 /\ se_value e = a mod 2 ^ 32
     | None => se_section e = 0 /\ se_value e = 0
     end.

Lemma global_entries_spec symtab : forall names tab seen,
  Forall name_ok names -> seen_ok tab seen ->
  let r := global_entries symtab names (tab, seen) in
  (exists more, fst (snd r) = tab ++ more) /\ seen_ok (fst (snd r)) (snd (snd r)) /\
  forall T m, T = fst (snd r) ++ m -> zlen T + 4 <= 2 ^ 32 -> Forall2 (gentry_ok symtab T) (fst r) names.
Proof.
  induction names as [|n rest IH]; intros tab seen Hnames Hseen.
  - cbn [global_entries fst snd]. split; [exists []; now rewrite app_nil_r|]. split; [exact Hseen|]. intros; constructor.
  - cbn [global_entries]. unfold global_entry.
    pose proof (convert_name_spec n tab seen (Forall_inv Hnames) Hseen) as C. cbn zeta in C.
    destruct (convert_name n (tab, seen)) as [nm [tab1 seen1]] eqn:EC. cbn [fst snd] in C.
    destruct C as [[more1 Hm1] [Hs1 Hn1]].
    specialize (IH tab1 seen1 (Forall_inv_tail Hnames) Hs1). cbn zeta in IH.
    destruct (lookup n symtab) as [a|] eqn:El;
      (destruct (global_entries symtab rest (tab1, seen1)) as [es [tab2 seen2]] eqn:EG; cbn [fst snd] in *;
       destruct IH as [[more2 Hm2] [Hs2 Hf2]];
       split; [exists (more1 ++ more2); rewrite Hm2, Hm1, <- app_assoc; reflexivity|];
       split; [exact Hs2|];
       intros T m HT Hb; constructor;
       [ destruct (Hn1 T (more2 ++ m)) as [R1 R2]; [rewrite HT, Hm2, <- app_assoc; reflexivity | exact Hb |];
         unfold gentry_ok; cbn [se_name se_class se_type se_aux se_section se_value]; rewrite El; repeat split; auto
       | apply (Hf2 T m HT Hb) ]).
Qed.

(** ---------- section headers ---------- *)
Lemma read_section_at f pre name rs rp rl ch post :
  f = pre ++ sec_header name rs rp rl ch ++ post ->
  0 <= rs < 2 ^ 32 -> 0 <= rp < 2 ^ 32 -> 0 <= rl < 2 ^ 32 -> 0 <= ch < 2 ^ 32 ->
  rp + rs <= zlen f -> rl <= zlen f ->
  read_section f (zlen pre) =
    Some {| s_name := take_until_nul (pad_to 8 name); s_rawsize := rs; s_rawptr := rp; s_relocptr := rl; s_nreloc := 0;
            s_lineptr := 0; s_nline := 0; s_chars := ch |}.
Proof.
  intros Hf Hrs Hrp Hrl Hch Hb1 Hb2. unfold sec_header in Hf. unfold read_section.
  set (nm := pad_to 8 name) in *.
  assert (Hnm : zlen nm = 8) by (unfold zlen, nm; rewrite pad_to_length; reflexivity).
  pose proof (zlen_nonneg f) as Hfl.
  rewrite (slice_at' f pre nm (le 4 0 ++ le 4 0 ++ le 4 rs ++ le 4 rp ++ le 4 rl ++ le 4 0 ++ le 2 0 ++ le 2 0 ++ le 4 ch ++ post));
    [| rewrite Hf, <- !app_assoc; reflexivity | reflexivity | symmetry; exact Hnm].
  rewrite (u_at f (pre ++ nm ++ le 4 0 ++ le 4 0) 4 rs (le 4 rp ++ le 4 rl ++ le 4 0 ++ le 2 0 ++ le 2 0 ++ le 4 ch ++ post));
    [| rewrite Hf, <- !app_assoc; reflexivity | rewrite !zlen_app, !zlen_le; change (Z.of_nat 4) with 4; lia].
  rewrite (u_at f (pre ++ nm ++ le 4 0 ++ le 4 0 ++ le 4 rs) 4 rp (le 4 rl ++ le 4 0 ++ le 2 0 ++ le 2 0 ++ le 4 ch ++ post));
    [| rewrite Hf, <- !app_assoc; reflexivity | rewrite !zlen_app, !zlen_le; change (Z.of_nat 4) with 4; lia].
  rewrite (u_at f (pre ++ nm ++ le 4 0 ++ le 4 0 ++ le 4 rs ++ le 4 rp) 4 rl (le 4 0 ++ le 2 0 ++ le 2 0 ++ le 4 ch ++ post));
    [| rewrite Hf, <- !app_assoc; reflexivity | rewrite !zlen_app, !zlen_le; change (Z.of_nat 4) with 4; lia].
  rewrite (u_at f (pre ++ nm ++ le 4 0 ++ le 4 0 ++ le 4 rs ++ le 4 rp ++ le 4 rl) 4 0 (le 2 0 ++ le 2 0 ++ le 4 ch ++ post));
    [| rewrite Hf, <- !app_assoc; reflexivity | rewrite !zlen_app, !zlen_le; change (Z.of_nat 4) with 4; lia].
  rewrite (u_at f (pre ++ nm ++ le 4 0 ++ le 4 0 ++ le 4 rs ++ le 4 rp ++ le 4 rl ++ le 4 0) 2 0 (le 2 0 ++ le 4 ch ++ post));
    [| rewrite Hf, <- !app_assoc; reflexivity | rewrite !zlen_app, !zlen_le; change (Z.of_nat 4) with 4; lia].
  rewrite (u_at f (pre ++ nm ++ le 4 0 ++ le 4 0 ++ le 4 rs ++ le 4 rp ++ le 4 rl ++ le 4 0 ++ le 2 0) 2 0 (le 4 ch ++ post));
    [| rewrite Hf, <- !app_assoc; reflexivity | rewrite !zlen_app, !zlen_le; change (Z.of_nat 4) with 4; change (Z.of_nat 2) with 2; lia].
  rewrite (u_at f (pre ++ nm ++ le 4 0 ++ le 4 0 ++ le 4 rs ++ le 4 rp ++ le 4 rl ++ le 4 0 ++ le 2 0 ++ le 2 0) 4 ch post);
    [| rewrite Hf, <- !app_assoc; reflexivity | rewrite !zlen_app, !zlen_le; change (Z.of_nat 4) with 4; change (Z.of_nat 2) with 2; lia].
  change (256 ^ Z.of_nat 4) with (2 ^ 32). change (256 ^ Z.of_nat 2) with (2 ^ 16).
  rewrite !(Z.mod_small rs), !(Z.mod_small rp), !(Z.mod_small rl), !(Z.mod_small ch) by lia.
  change (0 mod 2 ^ 32) with 0. change (0 mod 2 ^ 16) with 0.
  replace (zlen f <? rp + rs) with false by (symmetry; apply Z.ltb_ge; lia).
  replace (zlen f <? rl + 10 * 0) with false by (symmetry; apply Z.ltb_ge; lia).
  replace (zlen f <? 0 + 6 * 0) with false by (symmetry; apply Z.ltb_ge; lia).
  reflexivity.
Qed.

(** ---------- the whole file ---------- *)
Lemma nrecords_ge_length es : Z.of_nat (Datatypes.length es) <= nrecords es.
Proof.
  induction es as [|e r IH]; [unfold nrecords; cbn; lia|].
  rewrite nrecords_cons. cbn [Datatypes.length]. unfold naux_of, naux.
  destruct (se_aux e) as [a|]; [|lia]. pose proof (Z.div_pos (zlen a) 18 (zlen_nonneg a) ltac:(lia)). lia.
Qed.

Lemma records_seen nm es : fold_right (fun y n => n + 1 + y_naux y) 0 (map (sym_of nm) es) = nrecords es.
Proof. induction es as [|e r IH]; [reflexivity|]. cbn [map fold_right]. rewrite IH, nrecords_cons. reflexivity. Qed.

Lemma fixed_raw_ok tab t srcfile : Forall (fun e => raw_ok tab (se_name e)) (fixed_entries t srcfile).
Proof.
  unfold fixed_entries, sec_sym. repeat (constructor; [cbn [se_name]; left; vm_compute; discriminate|]). constructor.
Qed.

Lemma Forall2_in_l {A B} (R : A -> B -> Prop) l l' x : Forall2 R l l' -> In x l -> exists y, In y l' /\ R x y.
Proof.
  induction 1 as [|a b r r' Hab Hr IH]; intros Hin; [destruct Hin|].
  destruct Hin as [->|Hin]; [exists b; split; [left; reflexivity | exact Hab]|].
  destruct (IH Hin) as [y [Hy Hxy]]. exists y. split; [right; exact Hy | exact Hxy].
Qed.

Definition entries_of (text srcfile : list byte) (globals : list string) (symtab : list (string * Z)) : list sym_entry :=
  fixed_entries (zlen text) srcfile ++ sort_stable (fst (global_entries symtab globals ([], []))).
Definition strtab_of (globals : list string) (symtab : list (string * Z)) : list byte :=
  fst (snd (global_entries symtab globals ([], []))).

Theorem coff_read_write text srcfile globals symtab :
  let f := coff_write text srcfile globals symtab in
  let entries := entries_of text srcfile globals symtab in
  let strtab := strtab_of globals symtab in
  Forall name_ok globals -> zlen f < 2 ^ 32 ->
  exists o,
    coff_read f = Some o /\ wellformed f o = true /\ text_of f o = Some text
    /\ o_symbols o = map (sym_of (fun e => name_in strtab (se_name e))) entries
    /\ Forall2 (gentry_ok symtab strtab) (fst (global_entries symtab globals ([], []))) globals.
Proof.
  intros f entries strtab Hnames Hsmall.
  destruct (coff_write_shape text srcfile globals symtab) as [es [stb [Hf [He Hs]]]].
  fold f in Hf. assert (Ees : es = entries) by exact He. assert (Est : stb = strtab) by exact Hs.
  clear He Hs. subst es stb.
  (* invariant of the name conversion *)
  assert (Hseen0 : seen_ok [] []) by (intros n off H; discriminate H).
  pose proof (global_entries_spec symtab globals [] [] Hnames Hseen0) as G. cbn zeta in G.
  destruct G as [_ [_ G]]. fold strtab in G.
  (* sizes *)
  assert (Hok : Forall entry_ok entries).
  { unfold entries, entries_of. apply Forall_app. split; [apply fixed_entries_ok|].
    eapply perm_forall; [apply sort_perm | apply global_entries_ok]. }
  set (t := zlen text) in *. set (n := nrecords entries) in *. set (syms := flat_map pack_sym entries) in *.
  assert (Hsyms : zlen syms = 18 * n) by (apply flat_pack_length; exact Hok).
  assert (Hlen : zlen f = 140 + t + 18 * n + 4 + zlen strtab).
  { rewrite Hf, !zlen_app, zlen_le, Hsyms. unfold zlen at 1. rewrite hdr_length. fold t.
    change (Z.of_nat 140) with 140. change (Z.of_nat 4) with 4. lia. }
  pose proof (zlen_nonneg text) as Ht0. fold t in Ht0. pose proof (nrecords_nonneg entries) as Hn0. fold n in Hn0.
  pose proof (zlen_nonneg strtab) as Hs0.
  specialize (G strtab [] (eq_sym (app_nil_r _)) ltac:(lia)).
  (* flat view of the file *)
  set (sh1 := sec_header dot_text t 140 (140 + t) 1611661344) in *.
  set (sh2 := sec_header dot_data 0 0 0 3222274112) in *.
  set (sh3 := sec_header dot_bss 0 0 0 3222274176) in *.
  set (sz := le 4 (zlen strtab + 4)) in *.
  assert (Hf' : f = le 2 332 ++ le 2 3 ++ le 4 0 ++ le 4 (140 + t) ++ le 4 n ++ le 2 0 ++ le 2 0 ++ sh1 ++ sh2 ++ sh3 ++ text ++ syms ++ sz ++ strtab).
  { rewrite Hf. unfold hdr_of. fold sh1 sh2 sh3. rewrite <- !app_assoc. reflexivity. }
  assert (L1 : zlen sh1 = 40) by (unfold zlen, sh1; rewrite sec_header_length; reflexivity).
  assert (L2 : zlen sh2 = 40) by (unfold zlen, sh2; rewrite sec_header_length; reflexivity).
  assert (L3 : zlen sh3 = 40) by (unfold zlen, sh3; rewrite sec_header_length; reflexivity).
  assert (Lsz : zlen sz = 4) by (unfold sz; rewrite zlen_le; reflexivity).
  (* header fields *)
  assert (U0 : u 0 2 f = Some 332).
  { rewrite (u_at f [] 2 332 (le 2 3 ++ le 4 0 ++ le 4 (140 + t) ++ le 4 n ++ le 2 0 ++ le 2 0 ++ sh1 ++ sh2 ++ sh3 ++ text ++ syms ++ sz ++ strtab) 0); [reflexivity | exact Hf' | reflexivity]. }
  assert (U2 : u 2 2 f = Some 3).
  { rewrite (u_at f (le 2 332) 2 3 (le 4 0 ++ le 4 (140 + t) ++ le 4 n ++ le 2 0 ++ le 2 0 ++ sh1 ++ sh2 ++ sh3 ++ text ++ syms ++ sz ++ strtab) 2); [reflexivity | rewrite Hf', <- ?app_assoc; reflexivity | reflexivity]. }
  assert (U8 : u 8 4 f = Some (140 + t)).
  { rewrite (u_at f (le 2 332 ++ le 2 3 ++ le 4 0) 4 (140 + t) (le 4 n ++ le 2 0 ++ le 2 0 ++ sh1 ++ sh2 ++ sh3 ++ text ++ syms ++ sz ++ strtab) 8);
      [change (256 ^ Z.of_nat 4) with (2 ^ 32); rewrite Z.mod_small by lia; reflexivity | rewrite Hf', <- ?app_assoc; reflexivity | reflexivity]. }
  assert (U12 : u 12 4 f = Some n).
  { rewrite (u_at f (le 2 332 ++ le 2 3 ++ le 4 0 ++ le 4 (140 + t)) 4 n (le 2 0 ++ le 2 0 ++ sh1 ++ sh2 ++ sh3 ++ text ++ syms ++ sz ++ strtab) 12);
      [change (256 ^ Z.of_nat 4) with (2 ^ 32); rewrite Z.mod_small by lia; reflexivity | rewrite Hf', <- ?app_assoc; reflexivity | reflexivity]. }
  assert (U16 : u 16 2 f = Some 0).
  { rewrite (u_at f (le 2 332 ++ le 2 3 ++ le 4 0 ++ le 4 (140 + t) ++ le 4 n) 2 0 (le 2 0 ++ sh1 ++ sh2 ++ sh3 ++ text ++ syms ++ sz ++ strtab) 16);
      [reflexivity | rewrite Hf', <- ?app_assoc; reflexivity | reflexivity]. }
  (* sections *)
  set (h20 := le 2 332 ++ le 2 3 ++ le 4 0 ++ le 4 (140 + t) ++ le 4 n ++ le 2 0 ++ le 2 0) in *.
  assert (L20 : zlen h20 = 20) by (unfold h20; rewrite !zlen_app, !zlen_le; reflexivity).
  assert (S1 : read_section f 20 = Some {| s_name := take_until_nul (pad_to 8 dot_text); s_rawsize := t; s_rawptr := 140; s_relocptr := 140 + t;
                                             s_nreloc := 0; s_lineptr := 0; s_nline := 0; s_chars := 1611661344 |}).
  { rewrite <- L20. apply (read_section_at f h20 dot_text t 140 (140 + t) 1611661344 (sh2 ++ sh3 ++ text ++ syms ++ sz ++ strtab)); try lia.
    rewrite Hf'. unfold h20. rewrite <- ?app_assoc. reflexivity. }
  assert (S2 : read_section f 60 = Some {| s_name := take_until_nul (pad_to 8 dot_data); s_rawsize := 0; s_rawptr := 0; s_relocptr := 0;
                                             s_nreloc := 0; s_lineptr := 0; s_nline := 0; s_chars := 3222274112 |}).
  { replace 60 with (zlen (h20 ++ sh1)) by (rewrite zlen_app; lia).
    apply (read_section_at f (h20 ++ sh1) dot_data 0 0 0 3222274112 (sh3 ++ text ++ syms ++ sz ++ strtab)); try lia.
    rewrite Hf'. unfold h20. rewrite <- ?app_assoc. reflexivity. }
  assert (S3 : read_section f 100 = Some {| s_name := take_until_nul (pad_to 8 dot_bss); s_rawsize := 0; s_rawptr := 0; s_relocptr := 0;
                                              s_nreloc := 0; s_lineptr := 0; s_nline := 0; s_chars := 3222274176 |}).
  { replace 100 with (zlen (h20 ++ sh1 ++ sh2)) by (rewrite !zlen_app; lia).
    apply (read_section_at f (h20 ++ sh1 ++ sh2) dot_bss 0 0 0 3222274176 (text ++ syms ++ sz ++ strtab)); try lia.
    rewrite Hf'. unfold h20. rewrite <- ?app_assoc. reflexivity. }
  (* string table size field *)
  set (X := h20 ++ sh1 ++ sh2 ++ sh3 ++ text ++ syms) in *.
  assert (LX : zlen X = 140 + t + 18 * n) by (unfold X; rewrite !zlen_app; fold t; lia).
  assert (HfX : f = X ++ sz ++ strtab) by (rewrite Hf'; unfold X, h20; rewrite <- ?app_assoc; reflexivity).
  assert (Usz : u (140 + t + 18 * n) 4 f = Some (zlen strtab + 4)).
  { rewrite (u_at f X 4 (zlen strtab + 4) strtab (140 + t + 18 * n)); [change (256 ^ Z.of_nat 4) with (2 ^ 32); rewrite Z.mod_small by lia; reflexivity | exact HfX | lia]. }
  (* symbols *)
  set (nm := fun e => name_in strtab (se_name e)).
  assert (Hres : forall e, In e entries -> resolve_name f (140 + t + 18 * n) (zlen strtab + 4) (se_name e) = Some (nm e)).
  { intros e Hin. rewrite <- LX. apply resolve_ok; [exact HfX|].
    unfold entries, entries_of in Hin. apply in_app_or in Hin. destruct Hin as [Hin|Hin].
    - pose proof (fixed_raw_ok strtab (zlen text) srcfile) as Hfx. rewrite Forall_forall in Hfx. apply Hfx. exact Hin.
    - apply (Permutation_in _ (sort_perm _)) in Hin.
      destruct (Forall2_in_l _ _ _ _ G Hin) as [gn [_ Hg]]. exact (proj1 Hg). }
  set (P := h20 ++ sh1 ++ sh2 ++ sh3 ++ text) in *.
  assert (LP : zlen P = 140 + t) by (unfold P; rewrite !zlen_app; fold t; lia).
  assert (Hsy : read_symbols f (140 + t + 18 * n) (zlen strtab + 4) (zlen P) n (Z.to_nat n) = Some (map (sym_of nm) entries)).
  { apply (read_symbols_ok f _ _ nm entries P (sz ++ strtab)).
    - rewrite Hf'. unfold P, h20. fold syms. rewrite <- ?app_assoc. reflexivity.
    - exact Hok.
    - exact Hres.
    - pose proof (nrecords_ge_length entries) as Hge. fold n in Hge. lia. }
  rewrite LP in Hsy.
  (* assemble *)
  unfold coff_read. rewrite U0, U2, U8, U12, U16.
  change (Z.to_nat 3) with 3%nat. cbn [read_sections]. change (20 + 0) with 20. change (20 + 40) with 60. change (60 + 40) with 100.
  rewrite S1, S2, S3. rewrite Usz.
  replace (zlen strtab + 4 <? 4) with false by (symmetry; apply Z.ltb_ge; lia).
  replace (zlen f <? 140 + t + 18 * n + (zlen strtab + 4)) with false by (symmetry; apply Z.ltb_ge; lia).
  cbn [orb]. rewrite Hsy.
  eexists. split; [reflexivity|]. split; [|split; [|split]].
  - unfold wellformed. cbn [o_machine o_nsections o_opthdr o_records_seen o_nsyms o_file_len o_symptr o_strtab_size o_sections s_name s_rawptr s_rawsize].
    rewrite records_seen. fold n. rewrite !Z.eqb_refl. rewrite Hlen.
    replace (140 + t + 18 * n + 4 + zlen strtab =? 140 + t + 18 * n + (zlen strtab + 4)) with true by (symmetry; apply Z.eqb_eq; lia).
    replace (140 + t <=? 140 + t) with true by (symmetry; apply Z.leb_le; lia).
    reflexivity.
  - unfold text_of. cbn [o_sections s_rawptr s_rawsize].
    apply (slice_at' f (h20 ++ sh1 ++ sh2 ++ sh3) text (syms ++ sz ++ strtab)).
    + rewrite Hf'. unfold h20. rewrite <- ?app_assoc. reflexivity.
    + rewrite !zlen_app. lia.
    + reflexivity.
  - reflexivity.
  - exact G.
Qed.

(** C09 corollary: the names the reader reports for the external symbols are exactly the GLOBAL names *)
Lemma forall2_map_eq {A B C} (f : A -> C) (g : B -> C) (R : A -> B -> Prop) l l' :
  (forall a b, R a b -> f a = g b) -> Forall2 R l l' -> map f l = map g l'.
Proof. intros H. induction 1 as [|a b r r' Hab Hr IH]; [reflexivity|]. cbn [map]. rewrite (H a b Hab), IH. reflexivity. Qed.

Theorem coff_read_global_names text srcfile globals symtab :
  let f := coff_write text srcfile globals symtab in
  Forall name_ok globals -> zlen f < 2 ^ 32 ->
  exists o, coff_read f = Some o
    /\ Permutation (map y_name (skipn 4 (o_symbols o))) (map bytes_of_string globals)
    /\ Forall (fun y => y_class y = 2 /\ y_naux y = 0) (skipn 4 (o_symbols o)).
Proof.
  intros f Hn Hs. destruct (coff_read_write text srcfile globals symtab Hn Hs) as [o [Hr [_ [_ [Hsy G]]]]].
  exists o. split; [exact Hr|]. rewrite Hsy. unfold entries_of, fixed_entries. cbn [app map skipn].
  set (gents := fst (global_entries symtab globals ([], []))) in *.
  set (nm := fun e => name_in (strtab_of globals symtab) (se_name e)).
  split.
  - rewrite map_map. cbn [sym_of y_name].
    apply (Permutation_trans (l' := map nm gents)).
    + apply Permutation_map. apply sort_perm.
    + rewrite (forall2_map_eq nm bytes_of_string _ _ _ (fun a b H => proj1 (proj2 H)) G). apply Permutation_refl.
  - apply Forall_forall. intros y Hy. apply in_map_iff in Hy. destruct Hy as [e [<- He]].
    apply (Permutation_in _ (sort_perm _)) in He.
    destruct (Forall2_in_l _ _ _ _ G He) as [gn [_ [_ [_ [Hc [_ [Ha _]]]]]]].
    cbn [sym_of y_class y_naux]. unfold naux_of, naux. rewrite Hc, Ha. split; reflexivity.
Qed.
