(** C17 at program level: a [BITS n] directive commutes with every statement that neither reads nor sets the mode
    (labels, EQU, GLOBAL, EXTERN, the other bracket directives, DB/DW/DD/RESB/ALIGNB/ORG), so its position among such
    statements in front of an instruction group does not matter: the whole pass-1 state, hence the image, is the same. *)
From Coq Require Import List ZArith String Bool.
From Gosk Require Import Base.Bytes Model.Ast Model.Eval Model.Asm Lemmas.AsmLemmas.
Import ListNotations.
Local Open Scope string_scope.
Local Open Scope list_scope.
Local Open Scope Z_scope.

Definition blind_handler (h : string) : bool :=
  existsb (String.eqb h) ["processDB"; "processDW"; "processDD"; "processRESB"; "processALIGNB"; "processORG"].

Definition mode_blind (st : stmt) : bool :=
  match st with
  | SLabel _ | SEqu _ _ | SGlobal _ | SExtern _ => true
  | SConfig c _ => match c with CBits => false | _ => true end
  | SMnem op _ | SOp op => match handler_of op with Some h => blind_handler h | None => true end
  end.

Section Commute.
Variable E : encoder.

Lemma blind_mnemonic_commute s m op ops : (match handler_of op with Some h => blind_handler h | None => true end) = true ->
  do_mnemonic E (set_mode s m) op ops = set_mode (do_mnemonic E s op ops) m.
Proof.
  intros Hb. unfold do_mnemonic. destruct (handler_of op) as [h|]; [|reflexivity].
  unfold blind_handler in Hb. cbn [existsb] in Hb.
  destruct (String.eqb h "processDB") eqn:E1.
  { unfold do_data. cbn [set_mode sym]. destruct (data_operands db_operand (sym s) ops) as [v d]. destruct d; reflexivity. }
  destruct (String.eqb h "processDW") eqn:E2.
  { unfold do_data. cbn [set_mode sym]. destruct (data_operands dw_operand (sym s) ops) as [v d]. destruct d; reflexivity. }
  destruct (String.eqb h "processDD") eqn:E3.
  { unfold do_data. cbn [set_mode sym]. destruct (data_operands dd_operand (sym s) ops) as [v d]. destruct d; reflexivity. }
  destruct (String.eqb h "processRESB") eqn:E4.
  { unfold do_resb. destruct ops as [|[f|v|h0 t0|h0 t0|dt jt l r|dt l r] [|]]; try reflexivity. destruct (v <? 0); reflexivity. }
  destruct (String.eqb h "processALIGNB") eqn:E5.
  { unfold do_alignb. destruct ops as [|[f|v|h0 t0|h0 t0|dt jt l r|dt l r] [|]]; try reflexivity.
    destruct (int32 v <=? 0); [reflexivity|]. cbn [set_mode loc]. reflexivity. }
  destruct (String.eqb h "processORG") eqn:E6.
  { unfold do_org. destruct ops as [|[f|v|h0 t0|h0 t0|dt jt l r|dt l r] [|]]; reflexivity. }
  cbn [orb] in Hb. discriminate.
Qed.

Lemma blind_mnemonic_commute_diag s op ops : (match handler_of op with Some h => blind_handler h | None => true end) = true ->
  do_mnemonic E (set_diag s) op ops = set_diag (do_mnemonic E s op ops).
Proof.
  intros Hb. unfold do_mnemonic. destruct (handler_of op) as [h|]; [|reflexivity].
  unfold blind_handler in Hb. cbn [existsb] in Hb.
  destruct (String.eqb h "processDB") eqn:E1.
  { unfold do_data. cbn [set_diag sym]. destruct (data_operands db_operand (sym s) ops) as [v d]. destruct d; reflexivity. }
  destruct (String.eqb h "processDW") eqn:E2.
  { unfold do_data. cbn [set_diag sym]. destruct (data_operands dw_operand (sym s) ops) as [v d]. destruct d; reflexivity. }
  destruct (String.eqb h "processDD") eqn:E3.
  { unfold do_data. cbn [set_diag sym]. destruct (data_operands dd_operand (sym s) ops) as [v d]. destruct d; reflexivity. }
  destruct (String.eqb h "processRESB") eqn:E4.
  { unfold do_resb. destruct ops as [|[f|v|h0 t0|h0 t0|dt jt l r|dt l r] [|]]; try reflexivity. destruct (v <? 0); reflexivity. }
  destruct (String.eqb h "processALIGNB") eqn:E5.
  { unfold do_alignb. destruct ops as [|[f|v|h0 t0|h0 t0|dt jt l r|dt l r] [|]]; try reflexivity.
    destruct (int32 v <=? 0); [reflexivity|]. cbn [set_diag loc]. reflexivity. }
  destruct (String.eqb h "processORG") eqn:E6.
  { unfold do_org. destruct ops as [|[f|v|h0 t0|h0 t0|dt jt l r|dt l r] [|]]; reflexivity. }
  cbn [orb] in Hb. discriminate.
Qed.

(* B = what a BITS directive does to a state that is not stuck *)
Definition bits_act (f : factor) (x : p1state) : p1state := match bits_of f with Some m => set_mode x m | None => set_diag x end.

Lemma step_bits x f : stuck x = false -> step E x (SConfig CBits f) = bits_act f x.
Proof. intros H. unfold step. rewrite H. reflexivity. Qed.

Lemma blind_step_commute s f st : mode_blind st = true -> stuck s = false ->
  step E (bits_act f s) st = bits_act f (step E s st).
Proof.
  intros Hb Hs. unfold bits_act. destruct (bits_of f) as [m|].
  - destruct st as [l|n e|g|x|c f0|op ops|op]; cbn [mode_blind] in Hb; unfold step; cbn [set_mode stuck]; rewrite Hs.
    + reflexivity.
    + unfold env_of. cbn [set_mode mac loc]. destruct (eval_top {| macros := mac s; eloc := loc s |} e) as [e' r|]; [|reflexivity].
      destruct (equ_reaches (S (Datatypes.length (mac s))) (mac s) n e'); reflexivity.
    + reflexivity.
    + reflexivity.
    + destruct c; try discriminate; try reflexivity; destruct f0; reflexivity.
    + unfold env_of. cbn [set_mode mac loc]. destruct (eval_operands {| macros := mac s; eloc := loc s |} ops) as [ops'|]; [|reflexivity].
      apply blind_mnemonic_commute. exact Hb.
    + apply blind_mnemonic_commute. exact Hb.
  - destruct st as [l|n e|g|x|c f0|op ops|op]; cbn [mode_blind] in Hb; unfold step; cbn [set_diag stuck]; rewrite Hs.
    + reflexivity.
    + unfold env_of. cbn [set_diag mac loc]. destruct (eval_top {| macros := mac s; eloc := loc s |} e) as [e' r|]; [|reflexivity].
      destruct (equ_reaches (S (Datatypes.length (mac s))) (mac s) n e'); reflexivity.
    + reflexivity.
    + reflexivity.
    + destruct c; try discriminate; try reflexivity; destruct f0; reflexivity.
    + unfold env_of. cbn [set_diag mac loc]. destruct (eval_operands {| macros := mac s; eloc := loc s |} ops) as [ops'|]; [|reflexivity].
      apply blind_mnemonic_commute_diag. exact Hb.
    + apply blind_mnemonic_commute_diag. exact Hb.
Qed.

Lemma bits_act_stuck f x : stuck (bits_act f x) = stuck x.
Proof. unfold bits_act. destruct (bits_of f); reflexivity. Qed.

Lemma bits_commute s f st : mode_blind st = true -> stuck (step E s st) = false ->
  step E (step E s (SConfig CBits f)) st = step E (step E s st) (SConfig CBits f).
Proof.
  intros Hb Hk. destruct (stuck s) eqn:Hs.
  { unfold step in Hk. rewrite Hs in Hk. congruence. }
  rewrite (step_bits s f Hs), (step_bits _ f Hk). apply blind_step_commute; assumption.
Qed.

(* stuck is sticky *)
Lemma step_stuck_sticky s st : stuck s = true -> step E s st = s.
Proof. intros H. unfold step. rewrite H. reflexivity. Qed.
Lemma fold_stuck_sticky P : forall s, stuck s = true -> fold_left (step E) P s = s.
Proof. induction P as [|st r IH]; intros s H; [reflexivity|]. cbn [fold_left]. rewrite step_stuck_sticky by exact H. apply IH. exact H. Qed.

(* moving the directive over a whole run of mode-blind statements *)
Lemma bits_slides f : forall mid s, Forall (fun st => mode_blind st = true) mid ->
  stuck (fold_left (step E) mid s) = false ->
  fold_left (step E) mid (step E s (SConfig CBits f)) = step E (fold_left (step E) mid s) (SConfig CBits f).
Proof.
  induction mid as [|st r IH]; intros s Hb Hk; [reflexivity|].
  inversion Hb as [|? ? Hst Hr]; subst. cbn [fold_left] in *.
  assert (Hk1 : stuck (step E s st) = false).
  { destruct (stuck (step E s st)) eqn:Ek; [|reflexivity]. rewrite fold_stuck_sticky in Hk by exact Ek. congruence. }
  rewrite (bits_commute s f st Hst Hk1). apply IH; assumption.
Qed.

Theorem bits_position_irrelevant f pre mid post :
  Forall (fun st => mode_blind st = true) mid ->
  (exists bs d s, assemble E (pre ++ mid ++ SConfig CBits f :: post) = Done bs d s) ->
  assemble E (pre ++ SConfig CBits f :: mid ++ post) = assemble E (pre ++ mid ++ SConfig CBits f :: post).
Proof.
  intros Hb [bs [d [s0 Hd]]]. unfold assemble in *. unfold pass1 in *.
  rewrite !fold_left_app in *. cbn [fold_left] in *. rewrite !fold_left_app in *. cbn [fold_left] in *.
  set (s := fold_left (step E) pre init_state) in *.
  assert (Hk : stuck (fold_left (step E) mid s) = false).
  { destruct (stuck (fold_left (step E) mid s)) eqn:Ek; [|reflexivity].
    rewrite (step_stuck_sticky _ _ Ek), (fold_stuck_sticky post _ Ek), Ek in Hd. discriminate. }
  rewrite (bits_slides f mid s Hb Hk). reflexivity.
Qed.
End Commute.
