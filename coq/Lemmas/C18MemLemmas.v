(** C18 on memory destinations: the six immediate-group ALU operations with a BYTE/WORD/DWORD memory destination, every
    16-bit addressing shape in both modes and a cross-section of the 32-bit shapes, immediates on both sides of -128/127:
    the emitted statement is never longer than the shortest valid encoding (Spec/X86Len.shortest). *)
From Coq Require Import List ZArith String Bool.
From Gosk Require Import Base.Bytes Model.Ast Model.Eval Model.Asm Model.X86Enc Model.Encoder Spec.Branch Spec.X86 Spec.Denote Spec.X86Len Check.Common Check.C01
     Lemmas.SweepLemmas Lemmas.ModRMLemmas Lemmas.ModRM32Lemmas Lemmas.MemSweepLemmas.
Import ListNotations.
Local Open Scope string_scope.
Local Open Scope list_scope.
Local Open Scope Z_scope.

Definition imms18 : list Z := [1; 127; 128; 200; 255; 256; 4660; -1; -128; -129].
Definition dts18 : list (datatype * Z) := [(DtByte, 8); (DtWord, 16); (DtDword, 32)].
Definition disps18 : list Z := [0; 1; 127; 128; -128].

Definition cells18_ops (ops : list string) (md : Z) (b i : string) (sc d : Z) : list (Z * stmt) :=
  flat_map (fun op => flat_map (fun dw => flat_map (fun v =>
     if imm_ok md (snd dw) v then [(md, SMnem op [mem_of (fst dw) b i sc d; num v])] else []) imms18) dts18) ops.
Definition cells18 := cells18_ops alu.

(* every ninth 32-bit shape (base-only forms, ESP/EBP special cases, index*scale with and without base all occur) *)
Fixpoint every9 {A} (l : list A) : list A := match l with a :: _ :: _ :: _ :: _ :: _ :: _ :: _ :: _ :: r => a :: every9 r | a :: _ => [a] | [] => [] end.

Definition sweep_mi18 : list (Z * stmt) :=
  flat_map (fun md => flat_map (fun '(b, i, _, _) => flat_map (fun d => cells18 md b i 0 d) disps18) shapes16) [16; 32]
  ++ flat_map (fun d => cells18 16 "" "" 0 d) [1; 4660; 65535]
  ++ flat_map (fun d => cells18 32 "" "" 0 d) [1; 4660; 305419896]
  ++ flat_map (fun md => flat_map (fun '(b, i, sc, _, _, _) => flat_map (fun d => cells18_ops ["ADD"; "CMP"; "AND"] md b i sc d) [0; 128]) (every9 shapes32)) [16; 32].

Lemma sweep_mi18_short : forallb ok18 sweep_mi18 = true.
Proof. vm_compute. reflexivity. Qed.

Lemma sweep_mi18_size : Z.of_nat (Datatypes.length sweep_mi18) = 23328.
Proof. vm_compute. reflexivity. Qed.
