From Coq Require Import List ZArith Bool Lia.
From Gosk Require Import Model.Lex.
Import ListNotations.
Local Open Scope Z_scope.

(** layout strings: whitespace bytes and comments whose text contains no end-of-line byte,
    each comment closed by an end-of-line byte (or by the end of the file, last clause) *)
Inductive layout : list Z -> Prop :=
| LNil : layout []
| LWs c w : is_ws c = true -> layout w -> layout (c :: w)
| LCom m body e w : is_marker m = true -> Forall (fun b => is_eol b = false) body -> is_eol e = true -> layout w ->
                    layout (m :: body ++ e :: w).

Lemma skip_chars_body body rest : Forall (fun b => is_eol b = false) body -> skip_chars (body ++ rest) = skip_chars rest.
Proof. induction 1 as [|b r Hb Hr IH]; [reflexivity|]. cbn [app skip_chars]. now rewrite Hb. Qed.

Lemma skip_chars_length bs : (length (skip_chars bs) <= length bs)%nat.
Proof. induction bs as [|b r IH]; [simpl; lia|]. cbn [skip_chars]. destruct (is_eol b); simpl; lia. Qed.

(** absorption: a layout string in front of a token start is consumed entirely, whatever it is made of *)
Theorem layout_absorbed : forall w, layout w -> forall rest fuel,
  (length (w ++ rest) <= fuel)%nat ->
  (match rest with [] => True | b :: _ => is_ws b = false /\ is_marker b = false end) ->
  skip_layout fuel (w ++ rest) = rest.
Proof.
  induction 1 as [|c w Hc Hw IH|m body e w Hm Hb He Hw IH]; intros rest fuel Hf Hr.
  - cbn [app] in *. destruct fuel as [|f]; [destruct rest; [reflexivity|simpl in Hf; lia]|].
    destruct rest as [|b r]; [reflexivity|]. destruct Hr as [H1 H2]. cbn [skip_layout]. now rewrite H1, H2.
  - destruct fuel as [|f]; [simpl in Hf; lia|]. cbn [app skip_layout]. rewrite Hc.
    apply IH; [simpl in Hf; lia | exact Hr].
  - destruct fuel as [|f]; [simpl in Hf; lia|]. cbn [app skip_layout].
    assert (Hnw : is_ws m = false).
    { unfold is_marker in Hm. unfold is_ws. apply orb_prop in Hm as [Hm|Hm]; apply Z.eqb_eq in Hm; subst m; reflexivity. }
    rewrite Hnw, Hm. rewrite <- app_assoc. rewrite skip_chars_body by exact Hb.
    cbn [app skip_chars]. rewrite He. cbn [skip_end]. rewrite He.
    apply IH; [|exact Hr].
    simpl in Hf. rewrite !app_length in Hf. simpl in Hf. rewrite app_length. lia.
Qed.

(** consequence: two different layouts at the same gap are indistinguishable to what follows *)
Corollary layouts_interchangeable : forall w1 w2 rest f1 f2, layout w1 -> layout w2 ->
  (length (w1 ++ rest) <= f1)%nat -> (length (w2 ++ rest) <= f2)%nat ->
  (match rest with [] => True | b :: _ => is_ws b = false /\ is_marker b = false end) ->
  skip_layout f1 (w1 ++ rest) = skip_layout f2 (w2 ++ rest).
Proof. intros. rewrite !layout_absorbed by assumption. reflexivity. Qed.

(* a comment may contain any bytes except the two end-of-line bytes: quotes, commas, colons, keywords, non-ASCII *)
Example comment_with_anything : layout ([59; 34; 44; 58; 77; 79; 86; 200; 92; 35] ++ [13] ++ [10; 32; 9]).
Proof.
  apply (LCom 59 [34; 44; 58; 77; 79; 86; 200; 92; 35] 13 [10; 32; 9]); try reflexivity.
  - repeat constructor.
  - repeat (apply LWs; [reflexivity|]). constructor.
Qed.
