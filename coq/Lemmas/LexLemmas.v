From Coq Require Import List ZArith Bool Lia.
From Gosk Require Import Model.Lex.
Import ListNotations.
Local Open Scope Z_scope.

(** layout strings: whitespace bytes and comments whose text contains no end-of-line byte,
    each comment closed by an end-of-line byte (or by the end of the file, last clause) *)
Inductive layout : list Z -> Prop :=
| LNil : layout []
| LWs c w : is_ws c = true -> layout w -> layout (c :: w)
| LCom m body e w : is_marker m = true -> Forall (fun b => is_eol b = false) body -> is_eol e = true -> layout w ->
                    layout (m :: body ++ e :: w).

Lemma skip_chars_body body rest : Forall (fun b => is_eol b = false) body -> skip_chars (body ++ rest) = skip_chars rest.
Proof. induction 1 as [|b r Hb Hr IH]; [reflexivity|]. cbn [app skip_chars]. now rewrite Hb. Qed.

Lemma skip_chars_length bs : (length (skip_chars bs) <= length bs)%nat.
Proof. induction bs as [|b r IH]; [simpl; lia|]. cbn [skip_chars]. destruct (is_eol b); simpl; lia. Qed.

(** absorption: a layout string in front of a token start is consumed entirely, whatever it is made of *)
Theorem layout_absorbed : forall w, layout w -> forall rest fuel,
  (length (w ++ rest) <= fuel)%nat ->
  (match rest with [] => True | b :: _ => is_ws b = false /\ is_marker b = false end) ->
  skip_layout fuel (w ++ rest) = rest.
Proof.
  induction 1 as [|c w Hc Hw IH|m body e w Hm Hb He Hw IH]; intros rest fuel Hf Hr.
  - cbn [app] in *. destruct fuel as [|f]; [destruct rest; [reflexivity|simpl in Hf; lia]|].
    destruct rest as [|b r]; [reflexivity|]. destruct Hr as [H1 H2]. cbn [skip_layout]. now rewrite H1, H2.
  - destruct fuel as [|f]; [simpl in Hf; lia|]. cbn [app skip_layout]. rewrite Hc.
    apply IH; [simpl in Hf; lia | exact Hr].
  - destruct fuel as [|f]; [simpl in Hf; lia|]. cbn [app skip_layout].
    assert (Hnw : is_ws m = false).
    { unfold is_marker in Hm. unfold is_ws. apply orb_prop in Hm as [Hm|Hm]; apply Z.eqb_eq in Hm; subst m; reflexivity. }
    rewrite Hnw, Hm. rewrite <- app_assoc. rewrite skip_chars_body by exact Hb.
    cbn [app skip_chars]. rewrite He. cbn [skip_end]. rewrite He.
    apply IH; [|exact Hr].
    simpl in Hf. rewrite !app_length in Hf. simpl in Hf. rewrite app_length. lia.
Qed.

(** consequence: two different layouts at the same gap are indistinguishable to what follows *)
Corollary layouts_interchangeable : forall w1 w2 rest f1 f2, layout w1 -> layout w2 ->
  (length (w1 ++ rest) <= f1)%nat -> (length (w2 ++ rest) <= f2)%nat ->
  (match rest with [] => True | b :: _ => is_ws b = false /\ is_marker b = false end) ->
  skip_layout f1 (w1 ++ rest) = skip_layout f2 (w2 ++ rest).
Proof. intros. rewrite !layout_absorbed by assumption. reflexivity. Qed.

(* a comment may contain any bytes except the two end-of-line bytes: quotes, commas, colons, keywords, non-ASCII *)
Example comment_with_anything : layout ([59; 34; 44; 58; 77; 79; 86; 200; 92; 35] ++ [13] ++ [10; 32; 9]).
Proof.
  apply (LCom 59 [34; 44; 58; 77; 79; 86; 200; 92; 35] 13 [10; 32; 9]); try reflexivity.
  - repeat constructor.
  - repeat (apply LWs; [reflexivity|]). constructor.
Qed.

(** ------------------------------------------------------------------------------------------
    Converse direction: the layout rule drops NOTHING BUT layout.  [layoutE] is [layout] plus a
    last comment closed by the end of the file (END <- EOL / EOF). *)

Inductive layoutE : list Z -> Prop :=
| ENil : layoutE []
| EWs c w : is_ws c = true -> layoutE w -> layoutE (c :: w)
| ECom m body e w : is_marker m = true -> Forall (fun b => is_eol b = false) body -> is_eol e = true -> layoutE w ->
                    layoutE (m :: body ++ e :: w)
| EComEof m body : is_marker m = true -> Forall (fun b => is_eol b = false) body -> layoutE (m :: body).

Lemma skip_chars_split bs : exists body, Forall (fun b => is_eol b = false) body /\ bs = body ++ skip_chars bs
  /\ (match skip_chars bs with [] => True | e :: _ => is_eol e = true end).
Proof.
  induction bs as [|b r IH].
  - exists []. repeat split; constructor.
  - cbn [skip_chars]. destruct (is_eol b) eqn:Hb.
    + exists []. repeat split; [constructor | exact Hb].
    + destruct IH as [body [Hf [He Ht]]]. exists (b :: body). repeat split.
      * constructor; assumption.
      * cbn [app]. f_equal. exact He.
      * exact Ht.
Qed.

Definition token_start (rest : list Z) : Prop :=
  match rest with [] => True | b :: _ => is_ws b = false /\ is_marker b = false end.

Theorem skip_only_layout : forall fuel bs, (length bs <= fuel)%nat ->
  exists w, layoutE w /\ bs = w ++ skip_layout fuel bs /\ token_start (skip_layout fuel bs).
Proof.
  induction fuel as [|f IH]; intros bs Hl.
  - destruct bs; [|simpl in Hl; lia]. exists []. repeat split; constructor.
  - destruct bs as [|b r]; [exists []; repeat split; constructor|].
    cbn [skip_layout]. simpl in Hl.
    destruct (is_ws b) eqn:Hw.
    + destruct (IH r ltac:(lia)) as [w [Hlw [He Ht]]]. exists (b :: w). repeat split.
      * constructor; assumption.
      * cbn [app]. f_equal. exact He.
      * exact Ht.
    + destruct (is_marker b) eqn:Hm.
      * destruct (skip_chars_split r) as [body [Hf [Hr Hhd]]].
        destruct (skip_chars r) as [|e r'] eqn:Hs.
        -- cbn [skip_end]. exists (b :: body). destruct f; cbn [skip_layout]; repeat split;
             try (apply EComEof; assumption); try (rewrite app_nil_r in *; f_equal; exact Hr).
        -- cbn [skip_end]. rewrite Hhd.
           assert (Hlen : (length r' <= f)%nat).
           { rewrite Hr in Hl. rewrite app_length in Hl. simpl in Hl. lia. }
           destruct (IH r' Hlen) as [w [Hlw [He Ht]]]. exists (b :: body ++ e :: w). repeat split.
           ++ apply ECom; assumption.
           ++ cbn [app]. f_equal. rewrite <- app_assoc. cbn [app]. rewrite <- He. exact Hr.
           ++ exact Ht.
      * exists []. repeat split; [constructor | exact Hw | exact Hm].
Qed.

Lemma skip_chars_noeol body : Forall (fun b => is_eol b = false) body -> skip_chars body = [].
Proof. induction 1 as [|b r Hb Hr IH]; [reflexivity|]. cbn [skip_chars]. now rewrite Hb. Qed.

Lemma marker_not_ws m : is_marker m = true -> is_ws m = false.
Proof. unfold is_marker, is_ws. intros Hm. apply orb_prop in Hm as [Hm|Hm]; apply Z.eqb_eq in Hm; subst m; reflexivity. Qed.

(** a file that ends inside layout (last comment closed by the end of the file included) is consumed to the end *)
Theorem layoutE_absorbed_eof : forall w, layoutE w -> forall fuel, (length w <= fuel)%nat -> skip_layout fuel w = [].
Proof.
  induction 1 as [|c w Hc Hw IH|m body e w Hm Hb He Hw IH|m body Hm Hb]; intros fuel Hf.
  - destruct fuel; reflexivity.
  - destruct fuel as [|f]; [simpl in Hf; lia|]. cbn [skip_layout]. rewrite Hc. apply IH. simpl in Hf; lia.
  - destruct fuel as [|f]; [simpl in Hf; lia|]. cbn [skip_layout]. rewrite (marker_not_ws m Hm), Hm.
    destruct (skip_chars_split (body ++ e :: w)) as [b2 [_ _]].
    assert (Hs : skip_chars (body ++ e :: w) = e :: w).
    { clear -Hb He. induction Hb as [|b r Hb Hr IH]; cbn [app skip_chars]; [now rewrite He | now rewrite Hb]. }
    rewrite Hs. cbn [skip_end]. rewrite He. apply IH.
    simpl in Hf. rewrite app_length in Hf. simpl in Hf. lia.
  - destruct fuel as [|f]; [simpl in Hf; lia|]. cbn [skip_layout]. rewrite (marker_not_ws m Hm), Hm.
    rewrite (skip_chars_noeol body Hb). cbn [skip_end]. destruct f; reflexivity.
Qed.

Lemma layout_layoutE w : layout w -> layoutE w.
Proof. induction 1; [constructor | apply EWs; assumption | apply ECom; assumption]. Qed.
