(** C14 at program level: for statements whose bytes depend neither on their position nor on names defined elsewhere
    (everything but labels, EQU, directives, ALIGNB, ORG, relative branches and operands using `$`), assembling A;B in one
    file gives the bytes of A followed by the bytes of B, in either mode.  The proof is a frame argument on pass 1 (such a
    statement reads only the mode and the symbol table, appends ocodes and may set the diagnostic flag) composed with the
    concatenation lemma of the emission fold. *)
From Coq Require Import List ZArith String Bool Lia.
From Gosk Require Import Base.Bytes Model.Ast Model.Eval Model.Asm Lemmas.AsmLemmas.
Import ListNotations.
Local Open Scope string_scope.
Local Open Scope list_scope.
Local Open Scope Z_scope.

(** ---- evaluation does not look at the location counter unless `$` occurs ---- *)

Lemma mentions_add n h t : mentions n (EAdd h t) = mentions n h || existsb (fun x => mentions n (snd x)) t.
Proof.
  cbn [mentions]. f_equal. induction t as [|[o x] r IH]; [reflexivity|]. cbn [existsb snd]. rewrite <- IH. reflexivity.
Qed.
Lemma mentions_mul n h t : mentions n (EMul h t) = mentions n h || existsb (fun x => mentions n (snd x)) t.
Proof.
  cbn [mentions]. f_equal. induction t as [|[o x] r IH]; [reflexivity|]. cbn [existsb snd]. rewrite <- IH. reflexivity.
Qed.

Lemma existsb_false_in {A} (f : A -> bool) l : existsb f l = false -> forall x, In x l -> f x = false.
Proof.
  intros H x Hx. destruct (f x) eqn:E; [|reflexivity].
  assert (existsb f l = true) by (apply existsb_exists; exists x; split; assumption). congruence.
Qed.

Lemma eval_loc_indep a b : forall fuel e, mentions "$" e = false ->
  eval {| macros := []; eloc := a |} fuel e = eval {| macros := []; eloc := b |} fuel e.
Proof.
  induction fuel as [|f IH]; intros e Hm; [reflexivity|].
  destruct e as [fc|z|h t|h t|dt jt l r|dt l r].
  - destruct fc; try reflexivity. cbn [mentions] in Hm. cbn [eval]. rewrite Hm. reflexivity.
  - reflexivity.
  - rewrite mentions_add in Hm. apply orb_false_elim in Hm as [Hh Ht].
    assert (Eh : eval {| macros := []; eloc := a |} f h = eval {| macros := []; eloc := b |} f h) by (apply IH; exact Hh).
    assert (Et : map (fun ot : addop * exp => (fst ot, eval {| macros := []; eloc := a |} f (snd ot))) t
               = map (fun ot : addop * exp => (fst ot, eval {| macros := []; eloc := b |} f (snd ot))) t).
    { apply map_ext_in. intros x Hx. f_equal. apply IH. exact (existsb_false_in _ _ Ht x Hx). }
    cbn [eval]. rewrite Eh, Et. reflexivity.
  - rewrite mentions_mul in Hm. apply orb_false_elim in Hm as [Hh Ht].
    assert (Eh : eval {| macros := []; eloc := a |} f h = eval {| macros := []; eloc := b |} f h) by (apply IH; exact Hh).
    assert (Et : map (fun ot : mulop * exp => (fst ot, eval {| macros := []; eloc := a |} f (snd ot))) t
               = map (fun ot : mulop * exp => (fst ot, eval {| macros := []; eloc := b |} f (snd ot))) t).
    { apply map_ext_in. intros x Hx. f_equal. apply IH. exact (existsb_false_in _ _ Ht x Hx). }
    cbn [eval]. rewrite Eh, Et. reflexivity.
  - cbn [mentions] in Hm. apply orb_false_elim in Hm as [Hl Hr].
    assert (El : eval {| macros := []; eloc := a |} f l = eval {| macros := []; eloc := b |} f l) by (apply IH; exact Hl).
    cbn [eval]. rewrite El. destruct r as [r0|]; [|reflexivity].
    rewrite (IH r0 Hr). reflexivity.
  - cbn [mentions] in Hm. apply orb_false_elim in Hm as [Hl Hr].
    assert (El : eval {| macros := []; eloc := a |} f l = eval {| macros := []; eloc := b |} f l) by (apply IH; exact Hl).
    cbn [eval]. rewrite El. destruct r as [r0|]; [|reflexivity].
    rewrite (IH r0 Hr). reflexivity.
Qed.

Lemma eval_top_loc_indep a b e : mentions "$" e = false ->
  eval_top {| macros := []; eloc := a |} e = eval_top {| macros := []; eloc := b |} e.
Proof. intros H. unfold eval_top, eval_fuel. cbn [macros]. apply eval_loc_indep. exact H. Qed.

Lemma eval_operands_loc_indep a b ops : forallb (fun e => negb (mentions "$" e)) ops = true ->
  eval_operands {| macros := []; eloc := a |} ops = eval_operands {| macros := []; eloc := b |} ops.
Proof.
  induction ops as [|e r IH]; intros H; [reflexivity|]. cbn [forallb] in H. apply andb_prop in H as [He Hr].
  cbn [eval_operands]. rewrite (eval_top_loc_indep a b e) by (destruct (mentions "$" e); [discriminate|reflexivity]).
  rewrite (IH Hr). reflexivity.
Qed.

(** ---- the frame of a plain statement ---- *)

Definition canon (md : mode) (sy : symtab) : p1state :=
  {| loc := 0; bmode := md; sym := sy; mac := []; dollar := 0; globals := []; externs := [];
     fmt := []; srcfile := []; ocodes := []; diag := false; stuck := false |}.

Definition plain_op (op : string) : bool :=
  match handler_of op with
  | None => true
  | Some h => negb (String.eqb h "processALIGNB") && negb (String.eqb h "processORG")
              && negb (String.eqb h "processCalcJcc") && negb (String.eqb h "processCALL")
  end.

Definition closed (st : stmt) : bool :=
  match st with
  | SMnem op ops => plain_op op && forallb (fun e => negb (mentions "$" e)) ops
  | SOp op => plain_op op
  | _ => false
  end.

(* what the statement did to [s] is what it does to the blank state of the same mode and symbol table, appended *)
Definition Framed (s s' c' : p1state) : Prop :=
  ocodes s' = ocodes c' ++ ocodes s /\ diag s' = diag s || diag c' /\ stuck s' = stuck c' /\
  bmode s' = bmode s /\ sym s' = sym s /\ mac s' = mac s /\ dollar s' = dollar s /\
  forallb pos_indep (ocodes c') = true /\ bmode c' = bmode s /\ sym c' = sym s /\ mac c' = [] /\ dollar c' = 0.

Section Frame.
Variable E : encoder.

Ltac fin :=
  unfold Framed; cbn [canon ocodes diag stuck bmode sym mac dollar push_ocode add_loc set_loc set_diag set_stuck app forallb pos_indep andb];
  rewrite ?orb_false_r, ?orb_true_r; repeat split; first [reflexivity | assumption].

Lemma mnemonic_frame s op ops : plain_op op = true -> stuck s = false ->
  Framed s (do_mnemonic E s op ops) (do_mnemonic E (canon (bmode s) (sym s)) op ops).
Proof.
  intros Hp Hs. unfold do_mnemonic, plain_op in *. destruct (handler_of op) as [h|]; [|fin].
  apply andb_prop in Hp as [Hp H4]. apply andb_prop in Hp as [Hp H3]. apply andb_prop in Hp as [H1 H2].
  apply negb_true_iff in H1, H2, H3, H4. rewrite H1, H2, H3, H4.
  cbn [canon bmode sym].
  repeat match goal with |- context [if String.eqb h ?k then _ else _] => destruct (String.eqb h k) end.
  - unfold do_data. cbn [canon sym]. destruct (data_operands db_operand (sym s) ops) as [vals d]. unfold with_diag. destruct d; fin.
  - unfold do_data. cbn [canon sym]. destruct (data_operands dw_operand (sym s) ops) as [vals d]. unfold with_diag. destruct d; fin.
  - unfold do_data. cbn [canon sym]. destruct (data_operands dd_operand (sym s) ops) as [vals d]. unfold with_diag. destruct d; fin.
  - unfold do_resb. destruct ops as [|[f|v|h0 t0|h0 t0|dt jt l r|dt l r] [|]]; try (fin).
    destruct (v <? 0); fin.
  - unfold emit. destruct (kind_known op); fin.
  - unfold emit. destruct (kind_known "RET"); fin.
  - unfold do_int. destruct ops as [|o [|]]; fin.
  - destruct (enc_unmodelled E (bmode s) op ops); [fin|].
    destruct (enc_est E (bmode s) op ops) as [n|]; [|fin].
    unfold with_diag. destruct (enc_diag E (bmode s) op ops); destruct (enc_kind_ok E op); fin.
Qed.

Lemma step_frame s st : closed st = true -> mac s = [] -> stuck s = false ->
  Framed s (step E s st) (step E (canon (bmode s) (sym s)) st).
Proof.
  intros Hc Hm Hs. unfold step. rewrite Hs. cbn [canon stuck].
  destruct st as [l|n e|g|x|c f|op ops|op]; try discriminate Hc; cbn [closed] in Hc.
  - apply andb_prop in Hc as [Hp Ho]. unfold env_of. rewrite Hm. cbn [canon mac loc].
    rewrite (eval_operands_loc_indep (loc s) 0 ops Ho).
    destruct (eval_operands {| macros := []; eloc := 0 |} ops) as [ops'|].
    + apply mnemonic_frame; assumption.
    + fin.
  - apply mnemonic_frame; assumption.
Qed.

Lemma fold_stuck P : forall s, stuck s = true -> fold_left (step E) P s = s.
Proof. induction P as [|st r IH]; intros s H; [reflexivity|]. cbn [fold_left]. unfold step at 2. rewrite H. apply IH. exact H. Qed.

Lemma fold_frame P : Forall (fun st => closed st = true) P -> forall s, mac s = [] -> stuck s = false ->
  Framed s (fold_left (step E) P s) (fold_left (step E) P (canon (bmode s) (sym s))).
Proof.
  induction 1 as [|st r Hst Hr IH]; intros s Hm Hs.
  - cbn [fold_left]. fin.
  - cbn [fold_left].
    destruct (step_frame s st Hst Hm Hs) as [Fo [Fd [Fs [Fb [Fy [Fm [Fl [Fp [Cb [Cy [Cm Cl]]]]]]]]]]].
    set (s1 := step E s st) in *. set (c1 := step E (canon (bmode s) (sym s)) st) in *.
    destruct (stuck c1) eqn:Ec.
    + rewrite (fold_stuck r s1) by exact Fs. rewrite (fold_stuck r c1) by exact Ec.
      unfold Framed. rewrite Ec. repeat split; assumption.
    + assert (Hm1 : mac s1 = []) by (rewrite Fm; exact Hm).
      destruct (IH s1 Hm1 Fs) as [Io [Id [Is [Ib [Iy [Im [Il [Ip _]]]]]]]].
      destruct (IH c1 Cm Ec) as [Jo [Jd [Js [Jb [Jy [Jm [Jl [Jp _]]]]]]]].
      rewrite Fb, Fy in *. rewrite Cb, Cy in *.
      set (k := fold_left (step E) r (canon (bmode s) (sym s))) in *.
      unfold Framed. repeat split.
      * rewrite Io, Jo, Fo. apply app_assoc.
      * rewrite Id, Jd, Fd. symmetry. apply orb_assoc.
      * rewrite Is, Js. reflexivity.
      * rewrite Ib. reflexivity.
      * rewrite Iy. reflexivity.
      * rewrite Im, Fm. reflexivity.
      * rewrite Il, Fl. reflexivity.
      * rewrite Jo, forallb_app, Ip, Fp. reflexivity.
      * rewrite Jb. reflexivity.
      * rewrite Jy. reflexivity.
      * rewrite Jm. exact Cm.
      * rewrite Jl. exact Cl.
Qed.

(* the emission fold over position-independent ocodes is the flat concatenation (converse of codegen_indep) *)
Lemma codegen_flat m st dol : forall os acc d bs d',
  forallb pos_indep os = true -> codegen E m st dol acc d os = GOk bs d' ->
  exists tl dd, flat_gen E m st os = Some (tl, dd) /\ bs = acc ++ tl /\ d' = d || dd.
Proof.
  induction os as [|o r IH]; intros acc d bs d' Hp Hc.
  - cbn [codegen] in Hc. inversion Hc; subst. exists [], false. rewrite app_nil_r, orb_false_r. repeat split; reflexivity.
  - cbn [forallb] in Hp. apply andb_prop in Hp as [Ho Hr]. cbn [codegen] in Hc. cbn [flat_gen].
    rewrite (gen_pos_indep E m st dol (zlen acc) 0 0 o Ho) in Hc.
    destruct (gen_ocode E m st 0 0 o) as [b|b| |]; try discriminate.
    + destruct (IH _ _ _ _ Hr Hc) as [tl [dd [Hf [Hb Hd]]]]. rewrite Hf. exists (b ++ tl), dd.
      repeat split; [rewrite Hb; symmetry; apply app_assoc | exact Hd].
    + destruct (IH _ _ _ _ Hr Hc) as [tl [dd [Hf [Hb Hd]]]]. rewrite Hf. exists (b ++ tl), true.
      repeat split; [rewrite Hb; symmetry; apply app_assoc | rewrite Hd, orb_true_r; reflexivity].
Qed.

Definition hdr (md : mode) : program := match md with M16 => [] | M32 => [SConfig CBits (FNum 32)] end.

Lemma pass1_hdr md P : pass1 E (hdr md ++ P) = fold_left (step E) P (canon md []).
Proof. unfold pass1. rewrite fold_left_app. destruct md; reflexivity. Qed.

Theorem program_concat md A B bA dA sA bB dB sB :
  Forall (fun st => closed st = true) A -> Forall (fun st => closed st = true) B ->
  assemble E (hdr md ++ A) = Done bA dA sA -> assemble E (hdr md ++ B) = Done bB dB sB ->
  exists s, assemble E (hdr md ++ A ++ B) = Done (bA ++ bB) (dA || dB) s.
Proof.
  intros HA HB EA EB. unfold assemble in *. rewrite pass1_hdr in *. rewrite fold_left_app.
  set (a := fold_left (step E) A (canon md [])) in *. set (b := fold_left (step E) B (canon md [])) in *.
  destruct (stuck a) eqn:Sa; [discriminate|]. destruct (stuck b) eqn:Sb; [discriminate|].
  destruct (fold_frame A HA (canon md []) eq_refl eq_refl) as [_ [_ [_ [Ab [Ay [Am [Al [Ap _]]]]]]]].
  cbn [canon bmode sym mac dollar] in Ab, Ay, Am, Al. fold a in Ab, Ay, Am, Al, Ap.
  destruct (fold_frame B HB (canon md []) eq_refl eq_refl) as [_ [_ [_ [Bb [By [Bm [Bl [Bp _]]]]]]]].
  cbn [canon bmode sym mac dollar] in Bb, By, Bm, Bl. fold b in Bb, By, Bm, Bl, Bp.
  destruct (fold_frame B HB a Am Sa) as [Fo [Fd [Fs [Fb [Fy [Fm [Fl _]]]]]]].
  rewrite Ab, Ay in Fo, Fd, Fs. fold b in Fo, Fd, Fs.
  set (ab := fold_left (step E) B a) in *.
  rewrite Fs, Sb. rewrite Fb, Fy, Fl, Fo, Fd, Ab, Ay, Al. rewrite rev_app_distr.
  rewrite Ab, Ay, Al in EA. rewrite Bb, By, Bl in EB.
  destruct (codegen E md [] 0 [] (diag a) (rev (ocodes a))) as [xa da| |] eqn:Ca; try discriminate.
  destruct (codegen E md [] 0 [] (diag b) (rev (ocodes b))) as [xb db| |] eqn:Cb; try discriminate.
  inversion EA; subst xa da sA. inversion EB; subst xb db sB.
  assert (Pa : forallb pos_indep (rev (ocodes a)) = true).
  { apply forallb_forall. intros x Hx. apply in_rev in Hx. exact (proj1 (forallb_forall _ _) Ap x Hx). }
  assert (Pb : forallb pos_indep (rev (ocodes b)) = true).
  { apply forallb_forall. intros x Hx. apply in_rev in Hx. exact (proj1 (forallb_forall _ _) Bp x Hx). }
  destruct (codegen_flat md [] 0 _ _ _ _ _ Pa Ca) as [ta [ea [Fa [Hba Hda]]]].
  destruct (codegen_flat md [] 0 _ _ _ _ _ Pb Cb) as [tb [eb [Fbb [Hbb Hdb]]]].
  cbn [app] in Hba, Hbb. subst bA bB.
  rewrite (codegen_indep E md [] 0 (rev (ocodes a) ++ rev (ocodes b)) [] (diag a || diag b) (ta ++ tb) (ea || eb)).
  - exists ab. cbn [app]. f_equal. rewrite Hda, Hdb. destruct (diag a), (diag b), ea, eb; reflexivity.
  - rewrite forallb_app, Pa, Pb. reflexivity.
  - apply flat_gen_app; assumption.
Qed.

End Frame.
