(** C04: the branch emitters of the model against the ISA branch decoder. *)
From Coq Require Import List ZArith String Bool Lia.
From Gosk Require Import Base.Bytes Model.Ast Model.Eval Model.Asm Spec.Branch Generated.Tables.
Import ListNotations.
Local Open Scope list_scope.
Local Open Scope Z_scope.

Lemma pow256_2 n : 256 ^ Z.of_nat n = 2 ^ (8 * Z.of_nat n).
Proof. change 256 with (2 ^ 8). rewrite <- Z.pow_mul_r by lia. reflexivity. Qed.

Lemma sx_le n z rest : (0 < n)%nat -> - 2 ^ (8 * Z.of_nat n - 1) <= z < 2 ^ (8 * Z.of_nat n - 1) ->
  take n (le n z ++ rest) = Some (le n z) /\ sx n (le n z) = z.
Proof.
  intros Hn Hz. split.
  - unfold take. rewrite app_length, le_length.
    replace (Nat.leb n (n + Datatypes.length rest)) with true by (symmetry; apply Nat.leb_le; lia).
    rewrite firstn_app, le_length, Nat.sub_diag. cbn [firstn]. rewrite app_nil_r.
    rewrite <- (le_length n z) at 1. now rewrite firstn_all.
  - unfold sx. rewrite le_decode_le, pow256_2.
    change (sign_ext (8 * Z.of_nat n) (z mod 2 ^ (8 * Z.of_nat n))) with (swrap (8 * Z.of_nat n) z).
    apply swrap_id; lia.
Qed.

Lemma sx1 z rest : -128 <= z <= 127 -> take 1 ((z mod 256) :: rest) = Some [z mod 256] /\ sx 1 [z mod 256] = z.
Proof.
  intros Hz. change ((z mod 256) :: rest) with (le 1 z ++ rest). change [z mod 256] with (le 1 z).
  apply sx_le; [lia|]. change (8 * Z.of_nat 1 - 1) with 7. change (2 ^ 7) with 128. lia.
Qed.

Definition bm (m : mode) : bmode := match m with M16 => B16 | M32 => B32 end.

(** the statement shape: a branch emitted at address [addr] towards [dest] decodes, under the ISA,
    to the named kind, has the emitted length, and lands on [dest] (within the operand size) *)
Definition lands (m : mode) (k : bkind) (addr dest : Z) (bs rest : list byte) : Prop :=
  exists b, decode_branch (bm m) (bs ++ rest) = Some b
            /\ bkind_eqb (b_kind b) k = true
            /\ b_len b = zlen bs
            /\ landing addr b = dest mod 2 ^ (b_opsize b).

Lemma offset_size_1 d : -128 <= d <= 127 -> offset_size d = 1.
Proof. intros H. unfold offset_size. replace (-128 <=? d) with true by (symmetry; apply Z.leb_le; lia).
  replace (d <=? 127) with true by (symmetry; apply Z.leb_le; lia). reflexivity. Qed.
Lemma offset_size_2 d : -32768 <= d <= 32767 -> ~ (-128 <= d <= 127) -> offset_size d = 2.
Proof.
  intros H N. unfold offset_size.
  destruct (-128 <=? d) eqn:E1; destruct (d <=? 127) eqn:E2; cbn [andb];
    try (apply Z.leb_le in E1); try (apply Z.leb_le in E2); try lia;
  replace (-32768 <=? d) with true by (symmetry; apply Z.leb_le; lia);
  replace (d <=? 32767) with true by (symmetry; apply Z.leb_le; lia); reflexivity.
Qed.

(** JMP rel8, both modes: the form is chosen from the distance measured at the START of the
    instruction, the field is relative to its END; correct exactly when rel-2 still fits. *)
Lemma jmp_short_lands m addr dest rest : let rel := dest - addr in -126 <= rel <= 129 ->
  lands m BJmp addr dest (gen_jmp m rel) rest.
Proof.
  intros rel H. unfold gen_jmp. rewrite offset_size_1 by lia.
  destruct (sx1 (rel - 2) rest ltac:(lia)) as [T S].
  exists {| b_kind := BJmp; b_rel := rel - 2; b_len := 2; b_opsize := opsize (bm m) false |}.
  split.
  - destruct m; cbn [bm app decode_branch decode_branch_np]; rewrite T; cbv iota beta; rewrite S; reflexivity.
  - cbn [b_kind b_len b_rel b_opsize bkind_eqb]. split; [reflexivity|]. split; [reflexivity|].
    unfold landing; cbn [b_len b_rel b_opsize]. f_equal. unfold rel. lia.
Qed.

(** Jcc rel8: the sixteen opcodes 70h..7Fh *)
Definition jcc_opcodes : list Z := [112; 113; 114; 115; 116; 117; 118; 119; 120; 121; 122; 123; 124; 125; 126; 127].

Lemma jcc_short_lands m opc addr dest rest : In opc jcc_opcodes -> let rel := dest - addr in -126 <= rel <= 129 ->
  lands m (BJcc (opc - 112)) addr dest (gen_jcc opc rel) rest.
Proof.
  intros Hin rel H. unfold gen_jcc. rewrite offset_size_1 by lia.
  destruct (sx1 (rel - 2) rest ltac:(lia)) as [T S].
  exists {| b_kind := BJcc (opc - 112); b_rel := rel - 2; b_len := 2; b_opsize := opsize (bm m) false |}.
  split.
  - unfold jcc_opcodes in Hin. cbn [In] in Hin.
    repeat (destruct Hin as [<-|Hin];
            [destruct m; cbn [bm app decode_branch decode_branch_np Z.leb Z.compare Pos.compare Pos.compare_cont andb];
             rewrite T; cbv iota beta; rewrite S; reflexivity|]).
    contradiction.
  - cbn [b_kind b_len b_rel b_opsize bkind_eqb]. rewrite Z.eqb_refl.
    split; [reflexivity|]. split; [reflexivity|]. unfold landing; cbn [b_len b_rel b_opsize]. f_equal. unfold rel. lia.
Qed.

(** CALL rel16 in 16-bit mode: correct whenever the distance fits (the test is made on dest-cur-5) *)
Lemma call16_lands addr dest rest : let rel := dest - addr in -32768 <= rel - 5 <= 32767 -> -32768 <= rel - 3 <= 32767 ->
  lands M16 BCall addr dest (gen_call rel) rest.
Proof.
  intros rel H H3. unfold gen_call.
  replace ((-32768 <=? rel - 5) && (rel - 5 <=? 32767)) with true
    by (symmetry; apply andb_true_intro; split; apply Z.leb_le; lia).
  destruct (sx_le 2 (rel - 3) rest ltac:(lia)) as [T S].
  { change (8 * Z.of_nat 2 - 1) with 15. change (2 ^ 15) with 32768. lia. }
  exists {| b_kind := BCall; b_rel := rel - 3; b_len := 3; b_opsize := 16 |}.
  split.
  - cbn [bm app decode_branch decode_branch_np opsize Z.eqb Pos.eqb]. rewrite T; cbv iota beta; rewrite S. reflexivity.
  - cbn [b_kind b_len b_rel b_opsize bkind_eqb]. split; [reflexivity|]. split.
    + unfold zlen. cbn [Datatypes.length]. rewrite le_length. reflexivity.
    + unfold landing; cbn [b_len b_rel b_opsize]. f_equal. unfold rel. lia.
Qed.

(** JMP rel16 in 16-bit mode (backward or to a known address beyond rel8) *)
Lemma jmp16_near_lands addr dest rest : let rel := dest - addr in
  -32768 <= rel - 2 <= 32767 -> ~ (-128 <= rel - 2 <= 127) -> -32768 <= rel - 3 ->
  lands M16 BJmp addr dest (gen_jmp M16 rel) rest.
Proof.
  intros rel H N H3. unfold gen_jmp. rewrite offset_size_2 by lia.
  destruct (sx_le 2 (rel - 3) rest ltac:(lia)) as [T S].
  { change (8 * Z.of_nat 2 - 1) with 15. change (2 ^ 15) with 32768. lia. }
  exists {| b_kind := BJmp; b_rel := rel - 3; b_len := 3; b_opsize := 16 |}.
  split.
  - cbn [bm app decode_branch decode_branch_np opsize Z.eqb Pos.eqb]. rewrite T; cbv iota beta; rewrite S. reflexivity.
  - cbn [b_kind b_len b_rel b_opsize bkind_eqb]. split; [reflexivity|]. split.
    + unfold zlen. cbn [Datatypes.length]. rewrite le_length. reflexivity.
    + unfold landing; cbn [b_len b_rel b_opsize]. f_equal. unfold rel. lia.
Qed.

(** the condition-code table of the implementation (regenerated from x86gen_jmp.go on every run)
    against the SDM numbering, all 30 mnemonics and synonyms *)
Definition jcc_names : list string :=
  ["JA"; "JAE"; "JB"; "JBE"; "JC"; "JE"; "JG"; "JGE"; "JL"; "JLE"; "JNA"; "JNAE"; "JNB"; "JNBE"; "JNC"; "JNE"; "JNG"; "JNGE";
   "JNL"; "JNLE"; "JNO"; "JNP"; "JNS"; "JNZ"; "JO"; "JP"; "JPE"; "JPO"; "JS"; "JZ"]%string.

Definition cc_entry_ok (n : string) : bool :=
  match lookup n jcc_table, cc_of_name n with
  | Some opc, Some c => opc =? 112 + c
  | _, _ => false
  end.

Lemma cc_table_ok : forallb cc_entry_ok jcc_names = true.
Proof. vm_compute. reflexivity. Qed.

Lemma cc_table_sound n : In n jcc_names -> exists opc c, lookup n jcc_table = Some opc /\ cc_of_name n = Some c /\ opc = 112 + c /\ In opc jcc_opcodes.
Proof.
  intros Hin. pose proof cc_table_ok as H. rewrite forallb_forall in H. specialize (H n Hin).
  unfold cc_entry_ok in H. destruct (lookup n jcc_table) as [opc|]; [|discriminate].
  destruct (cc_of_name n) as [c|] eqn:Ec; [|discriminate]. apply Z.eqb_eq in H.
  exists opc, c. repeat split; try assumption.
  assert (Hc : 0 <= c <= 15).
  { clear - Ec. unfold cc_of_name in Ec.
    repeat match type of Ec with (if ?b then _ else _) = _ => destruct b end; inversion Ec; lia. }
  subst opc. unfold jcc_opcodes. cbn [In].
  assert (c = 0 \/ c = 1 \/ c = 2 \/ c = 3 \/ c = 4 \/ c = 5 \/ c = 6 \/ c = 7 \/ c = 8 \/ c = 9 \/ c = 10 \/ c = 11 \/ c = 12 \/ c = 13 \/ c = 14 \/ c = 15) as Hcases by lia.
  repeat (destruct Hcases as [->|Hcases]; [cbn; tauto|]). subst; cbn; tauto.
Qed.

(* the boundary that used to wrap (target 127/128 bytes before the start of the jump) now takes the near form and lands *)
Lemma jmp_backward_boundary_lands : forall addr rest, lands M16 BJmp addr (addr - 128) (gen_jmp M16 (-128)) rest /\ lands M16 BJmp addr (addr - 127) (gen_jmp M16 (-127)) rest.
Proof.
  intros addr rest. split.
  - replace (-128) with ((addr - 128) - addr) by lia. apply jmp16_near_lands; lia.
  - replace (-127) with ((addr - 127) - addr) by lia. apply jmp16_near_lands; lia.
Qed.

Lemma jmp16_total_lands addr dest rest : let rel := dest - addr in -32767 <= rel - 2 <= 32767 ->
  lands M16 BJmp addr dest (gen_jmp M16 rel) rest.
Proof.
  intros rel H. destruct (Z_le_dec (-128) (rel - 2)) as [Hl|Hl]; [destruct (Z_le_dec (rel - 2) 127) as [Hh|Hh]|].
  - apply jmp_short_lands. fold rel. lia.
  - apply jmp16_near_lands; fold rel; lia.
  - apply jmp16_near_lands; fold rel; lia.
Qed.
