(** C04: the branch emitters of the model against the ISA branch decoder. *)
From Coq Require Import List ZArith String Bool Lia.
From Gosk Require Import Base.Bytes Model.Ast Model.Eval Model.Asm Spec.Branch Generated.Tables.
Import ListNotations.
Local Open Scope list_scope.
Local Open Scope Z_scope.

Lemma pow256_2 n : 256 ^ Z.of_nat n = 2 ^ (8 * Z.of_nat n).
Proof. change 256 with (2 ^ 8). rewrite <- Z.pow_mul_r by lia. reflexivity. Qed.

Lemma sx_le n z rest : (0 < n)%nat -> - 2 ^ (8 * Z.of_nat n - 1) <= z < 2 ^ (8 * Z.of_nat n - 1) ->
  take n (le n z ++ rest) = Some (le n z) /\ sx n (le n z) = z.
Proof.
  intros Hn Hz. split.
  - unfold take. rewrite app_length, le_length.
    replace (Nat.leb n (n + Datatypes.length rest)) with true by (symmetry; apply Nat.leb_le; lia).
    rewrite firstn_app, le_length, Nat.sub_diag. cbn [firstn]. rewrite app_nil_r.
    rewrite <- (le_length n z) at 1. now rewrite firstn_all.
  - unfold sx. rewrite le_decode_le, pow256_2.
    change (sign_ext (8 * Z.of_nat n) (z mod 2 ^ (8 * Z.of_nat n))) with (swrap (8 * Z.of_nat n) z).
    apply swrap_id; lia.
Qed.

Lemma sx1 z rest : -128 <= z <= 127 -> take 1 ((z mod 256) :: rest) = Some [z mod 256] /\ sx 1 [z mod 256] = z.
Proof.
  intros Hz. change ((z mod 256) :: rest) with (le 1 z ++ rest). change [z mod 256] with (le 1 z).
  apply sx_le; [lia|]. change (8 * Z.of_nat 1 - 1) with 7. change (2 ^ 7) with 128. lia.
Qed.

Definition bm (m : mode) : bmode := match m with M16 => B16 | M32 => B32 end.

(** the statement shape: a branch emitted at address [addr] towards [dest] decodes, under the ISA,
    to the named kind, has the emitted length, and lands on [dest] (within the operand size) *)
Definition lands (m : mode) (k : bkind) (addr dest : Z) (bs rest : list byte) : Prop :=
  exists b, decode_branch (bm m) (bs ++ rest) = Some b
            /\ bkind_eqb (b_kind b) k = true
            /\ b_len b = zlen bs
            /\ landing addr b = dest mod 2 ^ (b_opsize b).

Lemma offset_size_1 d : -128 <= d <= 127 -> offset_size d = 1.
Proof. intros H. unfold offset_size. replace (-128 <=? d) with true by (symmetry; apply Z.leb_le; lia).
  replace (d <=? 127) with true by (symmetry; apply Z.leb_le; lia). reflexivity. Qed.
Lemma offset_size_2 d : -32768 <= d <= 32767 -> ~ (-128 <= d <= 127) -> offset_size d = 2.
Proof.
  intros H N. unfold offset_size.
  destruct (-128 <=? d) eqn:E1; destruct (d <=? 127) eqn:E2; cbn [andb];
    try (apply Z.leb_le in E1); try (apply Z.leb_le in E2); try lia;
  replace (-32768 <=? d) with true by (symmetry; apply Z.leb_le; lia);
  replace (d <=? 32767) with true by (symmetry; apply Z.leb_le; lia); reflexivity.
Qed.

Lemma offset_size_4 d : ~ (-32768 <= d <= 32767) -> offset_size d = 4.
Proof.
  intros N. unfold offset_size.
  destruct (-128 <=? d) eqn:E1; destruct (d <=? 127) eqn:E2; cbn [andb];
    try (apply Z.leb_le in E1); try (apply Z.leb_le in E2); try lia;
  destruct (-32768 <=? d) eqn:E3; destruct (d <=? 32767) eqn:E4; cbn [andb];
    try (apply Z.leb_le in E3); try (apply Z.leb_le in E4); try lia; reflexivity.
Qed.

Lemma sx4 z rest : - 2 ^ 31 <= z < 2 ^ 31 -> take 4 (le 4 z ++ rest) = Some (le 4 z) /\ sx 4 (le 4 z) = z.
Proof. intros H. apply sx_le; [lia|]. change (8 * Z.of_nat 4 - 1) with 31. exact H. Qed.
Lemma sx2 z rest : -32768 <= z <= 32767 -> take 2 (le 2 z ++ rest) = Some (le 2 z) /\ sx 2 (le 2 z) = z.
Proof. intros H. apply sx_le; [lia|]. change (8 * Z.of_nat 2 - 1) with 15. change (2 ^ 15) with 32768. lia. Qed.

(** ---------------- JMP ---------------- *)

(* rel8, 16-bit mode: chosen exactly when the displacement rel-2 fits *)
Lemma jmp_short_lands addr dest rest : let rel := dest - addr in -126 <= rel <= 129 ->
  lands M16 BJmp addr dest (gen_jmp M16 rel) rest.
Proof.
  intros rel H. unfold gen_jmp, jump_form. rewrite offset_size_1 by lia.
  destruct (sx1 (rel - 2) rest ltac:(lia)) as [T S].
  exists {| b_kind := BJmp; b_rel := rel - 2; b_len := 2; b_opsize := 16 |}.
  split.
  - cbn [bm app decode_branch decode_branch_np opsize]; rewrite T; cbv iota beta; rewrite S; reflexivity.
  - cbn [b_kind b_len b_rel b_opsize bkind_eqb]. split; [reflexivity|]. split; [reflexivity|].
    unfold landing; cbn [b_len b_rel b_opsize]. f_equal. unfold rel. lia.
Qed.

(* rel16, 16-bit mode *)
Lemma jmp16_near_lands addr dest rest : let rel := dest - addr in
  -32768 <= rel - 2 <= 32767 -> ~ (-128 <= rel - 2 <= 127) -> -32768 <= rel - 3 ->
  lands M16 BJmp addr dest (gen_jmp M16 rel) rest.
Proof.
  intros rel H N H3. unfold gen_jmp, jump_form. rewrite offset_size_2 by lia.
  destruct (sx2 (rel - 3) rest ltac:(lia)) as [T S].
  exists {| b_kind := BJmp; b_rel := rel - 3; b_len := 3; b_opsize := 16 |}.
  split.
  - cbn [bm app decode_branch decode_branch_np opsize Z.eqb Pos.eqb]. rewrite T; cbv iota beta; rewrite S. reflexivity.
  - cbn [b_kind b_len b_rel b_opsize bkind_eqb]. split; [reflexivity|]. split.
    + unfold zlen. cbn [Datatypes.length]. rewrite le_length. reflexivity.
    + unfold landing; cbn [b_len b_rel b_opsize]. f_equal. unfold rel. lia.
Qed.

(* 66 E9 cd, 16-bit mode, beyond 32 KiB: six bytes, 32-bit operand size *)
Lemma jmp16_far_lands addr dest rest : let rel := dest - addr in
  ~ (-32768 <= rel - 2 <= 32767) -> - 2 ^ 31 <= rel - 6 < 2 ^ 31 ->
  lands M16 BJmp addr dest (gen_jmp M16 rel) rest.
Proof.
  intros rel N H. unfold gen_jmp, jump_form. rewrite offset_size_4 by lia.
  destruct (sx4 (rel - 6) rest H) as [T S].
  exists {| b_kind := BJmp; b_rel := rel - 6; b_len := 6; b_opsize := 32 |}.
  split.
  - cbn [bm app decode_branch decode_branch_np opsize Z.eqb Pos.eqb]. rewrite T; cbv iota beta; rewrite S. reflexivity.
  - cbn [b_kind b_len b_rel b_opsize bkind_eqb]. split; [reflexivity|]. split.
    + unfold zlen. cbn [Datatypes.length]. rewrite le_length. reflexivity.
    + unfold landing; cbn [b_len b_rel b_opsize]. f_equal. unfold rel. lia.
Qed.

(* E9 cd, 32-bit mode: the one form used there *)
Lemma jmp32_lands addr dest rest : let rel := dest - addr in - 2 ^ 31 <= rel - 5 < 2 ^ 31 ->
  lands M32 BJmp addr dest (gen_jmp M32 rel) rest.
Proof.
  intros rel H. unfold gen_jmp, jump_form.
  destruct (sx4 (rel - 5) rest H) as [T S].
  exists {| b_kind := BJmp; b_rel := rel - 5; b_len := 5; b_opsize := 32 |}.
  split.
  - cbn [bm app decode_branch decode_branch_np opsize Z.eqb Pos.eqb]. rewrite T; cbv iota beta; rewrite S. reflexivity.
  - cbn [b_kind b_len b_rel b_opsize bkind_eqb]. split; [reflexivity|]. split.
    + unfold zlen. cbn [Datatypes.length]. rewrite le_length. reflexivity.
    + unfold landing; cbn [b_len b_rel b_opsize]. f_equal. unfold rel. lia.
Qed.

(* every JMP, both modes, every distance below 2 GiB (one point excluded: rel-2 = -32768, where the rel16 field wraps) *)
Lemma jmp_total_lands m addr dest rest : let rel := dest - addr in
  - 2 ^ 31 + 6 <= rel < 2 ^ 31 -> rel - 2 <> -32768 ->
  lands m BJmp addr dest (gen_jmp m rel) rest.
Proof.
  intros rel H Hx. destruct m.
  - destruct (Z_le_dec (-32768) (rel - 2)) as [A|A]; [destruct (Z_le_dec (rel - 2) 32767) as [B|B]|].
    + destruct (Z_le_dec (-128) (rel - 2)) as [C|C]; [destruct (Z_le_dec (rel - 2) 127) as [D|D]|].
      * apply jmp_short_lands. fold rel. lia.
      * apply jmp16_near_lands; fold rel; lia.
      * apply jmp16_near_lands; fold rel; lia.
    + apply jmp16_far_lands; fold rel; lia.
    + apply jmp16_far_lands; fold rel; lia.
  - apply jmp32_lands. fold rel. lia.
Qed.

(** ---------------- Jcc: the sixteen opcodes 70h..7Fh ---------------- *)
Definition jcc_opcodes : list Z := [112; 113; 114; 115; 116; 117; 118; 119; 120; 121; 122; 123; 124; 125; 126; 127].

Ltac each_opcode Hin tac :=
  unfold jcc_opcodes in Hin; cbn [In] in Hin;
  repeat (destruct Hin as [<-|Hin]; [tac|]); try contradiction.

Ltac dec_np := cbn [bm app decode_branch decode_branch_np opsize Z.eqb Pos.eqb Z.add Pos.add Pos.succ Z.modulo Z.div_eucl Z.pos_div_eucl Z.leb Z.ltb Z.compare
                   Pos.compare Pos.compare_cont andb Z.sub Z.opp Z.pos_sub Z.succ_double Z.pred_double Z.double Pos.pred_double Z.mul Pos.mul Z.geb].

Lemma jcc_short_lands opc addr dest rest : In opc jcc_opcodes -> let rel := dest - addr in -126 <= rel <= 129 ->
  lands M16 (BJcc (opc - 112)) addr dest (gen_jcc M16 opc rel) rest.
Proof.
  intros Hin rel H. unfold gen_jcc, jump_form. rewrite offset_size_1 by lia.
  destruct (sx1 (rel - 2) rest ltac:(lia)) as [T S].
  exists {| b_kind := BJcc (opc - 112); b_rel := rel - 2; b_len := 2; b_opsize := 16 |}.
  split.
  - each_opcode Hin ltac:(dec_np; rewrite T; cbv iota beta; rewrite S; reflexivity).
  - cbn [b_kind b_len b_rel b_opsize bkind_eqb]. rewrite Z.eqb_refl.
    split; [reflexivity|]. split; [reflexivity|]. unfold landing; cbn [b_len b_rel b_opsize]. f_equal. unfold rel. lia.
Qed.

Lemma jcc16_near_lands opc addr dest rest : In opc jcc_opcodes -> let rel := dest - addr in
  -32768 <= rel - 2 <= 32767 -> ~ (-128 <= rel - 2 <= 127) -> -32768 <= rel - 4 ->
  lands M16 (BJcc (opc - 112)) addr dest (gen_jcc M16 opc rel) rest.
Proof.
  intros Hin rel H N H4. unfold gen_jcc, jump_form. rewrite offset_size_2 by lia.
  destruct (sx2 (rel - 4) rest ltac:(lia)) as [T S].
  exists {| b_kind := BJcc (opc - 112); b_rel := rel - 4; b_len := 4; b_opsize := 16 |}.
  split.
  - each_opcode Hin ltac:(dec_np; rewrite T; cbv iota beta; rewrite S; reflexivity).
  - cbn [b_kind b_len b_rel b_opsize bkind_eqb]. rewrite Z.eqb_refl. split; [reflexivity|]. split.
    + unfold zlen. cbn [Datatypes.length]. rewrite le_length. reflexivity.
    + unfold landing; cbn [b_len b_rel b_opsize]. f_equal. unfold rel. lia.
Qed.

Lemma jcc16_far_lands opc addr dest rest : In opc jcc_opcodes -> let rel := dest - addr in
  ~ (-32768 <= rel - 2 <= 32767) -> - 2 ^ 31 <= rel - 7 < 2 ^ 31 ->
  lands M16 (BJcc (opc - 112)) addr dest (gen_jcc M16 opc rel) rest.
Proof.
  intros Hin rel N H. unfold gen_jcc, jump_form. rewrite offset_size_4 by lia.
  destruct (sx4 (rel - 7) rest H) as [T S].
  exists {| b_kind := BJcc (opc - 112); b_rel := rel - 7; b_len := 7; b_opsize := 32 |}.
  split.
  - each_opcode Hin ltac:(dec_np; rewrite T; cbv iota beta; rewrite S; reflexivity).
  - cbn [b_kind b_len b_rel b_opsize bkind_eqb]. rewrite Z.eqb_refl. split; [reflexivity|]. split.
    + unfold zlen. cbn [Datatypes.length]. rewrite le_length. reflexivity.
    + unfold landing; cbn [b_len b_rel b_opsize]. f_equal. unfold rel. lia.
Qed.

Lemma jcc32_lands opc addr dest rest : In opc jcc_opcodes -> let rel := dest - addr in - 2 ^ 31 <= rel - 6 < 2 ^ 31 ->
  lands M32 (BJcc (opc - 112)) addr dest (gen_jcc M32 opc rel) rest.
Proof.
  intros Hin rel H. unfold gen_jcc, jump_form.
  destruct (sx4 (rel - 6) rest H) as [T S].
  exists {| b_kind := BJcc (opc - 112); b_rel := rel - 6; b_len := 6; b_opsize := 32 |}.
  split.
  - each_opcode Hin ltac:(dec_np; rewrite T; cbv iota beta; rewrite S; reflexivity).
  - cbn [b_kind b_len b_rel b_opsize bkind_eqb]. rewrite Z.eqb_refl. split; [reflexivity|]. split.
    + unfold zlen. cbn [Datatypes.length]. rewrite le_length. reflexivity.
    + unfold landing; cbn [b_len b_rel b_opsize]. f_equal. unfold rel. lia.
Qed.

Lemma jcc_total_lands m opc addr dest rest : In opc jcc_opcodes -> let rel := dest - addr in
  - 2 ^ 31 + 7 <= rel < 2 ^ 31 -> ~ (-32768 <= rel - 2 <= -32767) ->
  lands m (BJcc (opc - 112)) addr dest (gen_jcc m opc rel) rest.
Proof.
  intros Hin rel H Hx. destruct m.
  - destruct (Z_le_dec (-32768) (rel - 2)) as [A|A]; [destruct (Z_le_dec (rel - 2) 32767) as [B|B]|].
    + destruct (Z_le_dec (-128) (rel - 2)) as [C|C]; [destruct (Z_le_dec (rel - 2) 127) as [D|D]|].
      * apply jcc_short_lands; [exact Hin|]. fold rel. lia.
      * apply jcc16_near_lands; [exact Hin| | |]; fold rel; lia.
      * apply jcc16_near_lands; [exact Hin| | |]; fold rel; lia.
    + apply jcc16_far_lands; [exact Hin| |]; fold rel; lia.
    + apply jcc16_far_lands; [exact Hin| |]; fold rel; lia.
  - apply jcc32_lands; [exact Hin|]. fold rel. lia.
Qed.

(** ---------------- CALL ---------------- *)
Lemma call16_lands addr dest rest : let rel := dest - addr in -32768 <= rel - 3 <= 32767 ->
  lands M16 BCall addr dest (gen_call M16 rel) rest.
Proof.
  intros rel H. unfold gen_call.
  replace ((-32768 <=? rel - 3) && (rel - 3 <=? 32767)) with true by (symmetry; apply andb_true_intro; split; apply Z.leb_le; lia).
  destruct (sx2 (rel - 3) rest H) as [T S].
  exists {| b_kind := BCall; b_rel := rel - 3; b_len := 3; b_opsize := 16 |}.
  split.
  - cbn [bm app decode_branch decode_branch_np opsize Z.eqb Pos.eqb]. rewrite T; cbv iota beta; rewrite S. reflexivity.
  - cbn [b_kind b_len b_rel b_opsize bkind_eqb]. split; [reflexivity|]. split.
    + unfold zlen. cbn [Datatypes.length]. rewrite le_length. reflexivity.
    + unfold landing; cbn [b_len b_rel b_opsize]. f_equal. unfold rel. lia.
Qed.

Lemma call16_far_lands addr dest rest : let rel := dest - addr in ~ (-32768 <= rel - 3 <= 32767) -> - 2 ^ 31 <= rel - 6 < 2 ^ 31 ->
  lands M16 BCall addr dest (gen_call M16 rel) rest.
Proof.
  intros rel N H. unfold gen_call.
  replace ((-32768 <=? rel - 3) && (rel - 3 <=? 32767)) with false.
  2:{ symmetry. destruct (-32768 <=? rel - 3) eqn:A; destruct (rel - 3 <=? 32767) eqn:B; cbn [andb]; try reflexivity.
      apply Z.leb_le in A. apply Z.leb_le in B. lia. }
  destruct (sx4 (rel - 6) rest H) as [T S].
  exists {| b_kind := BCall; b_rel := rel - 6; b_len := 6; b_opsize := 32 |}.
  split.
  - cbn [bm app decode_branch decode_branch_np opsize Z.eqb Pos.eqb]. rewrite T; cbv iota beta; rewrite S. reflexivity.
  - cbn [b_kind b_len b_rel b_opsize bkind_eqb]. split; [reflexivity|]. split.
    + unfold zlen. cbn [Datatypes.length]. rewrite le_length. reflexivity.
    + unfold landing; cbn [b_len b_rel b_opsize]. f_equal. unfold rel. lia.
Qed.

Lemma call32_lands addr dest rest : let rel := dest - addr in - 2 ^ 31 <= rel - 5 < 2 ^ 31 ->
  lands M32 BCall addr dest (gen_call M32 rel) rest.
Proof.
  intros rel H. unfold gen_call.
  destruct (sx4 (rel - 5) rest H) as [T S].
  exists {| b_kind := BCall; b_rel := rel - 5; b_len := 5; b_opsize := 32 |}.
  split.
  - cbn [bm app decode_branch decode_branch_np opsize Z.eqb Pos.eqb]. rewrite T; cbv iota beta; rewrite S. reflexivity.
  - cbn [b_kind b_len b_rel b_opsize bkind_eqb]. split; [reflexivity|]. split.
    + unfold zlen. cbn [Datatypes.length]. rewrite le_length. reflexivity.
    + unfold landing; cbn [b_len b_rel b_opsize]. f_equal. unfold rel. lia.
Qed.

Lemma call_total_lands m addr dest rest : let rel := dest - addr in - 2 ^ 31 + 6 <= rel < 2 ^ 31 ->
  lands m BCall addr dest (gen_call m rel) rest.
Proof.
  intros rel H. destruct m.
  - destruct (Z_le_dec (-32768) (rel - 3)) as [A|A]; [destruct (Z_le_dec (rel - 3) 32767) as [B|B]|].
    + apply call16_lands. fold rel. lia.
    + apply call16_far_lands; fold rel; lia.
    + apply call16_far_lands; fold rel; lia.
  - apply call32_lands. fold rel. lia.
Qed.

(** the condition-code table of the implementation (regenerated from x86gen_jmp.go on every run)
    against the SDM numbering, all 30 mnemonics and synonyms *)
Definition jcc_names : list string :=
  ["JA"; "JAE"; "JB"; "JBE"; "JC"; "JE"; "JG"; "JGE"; "JL"; "JLE"; "JNA"; "JNAE"; "JNB"; "JNBE"; "JNC"; "JNE"; "JNG"; "JNGE";
   "JNL"; "JNLE"; "JNO"; "JNP"; "JNS"; "JNZ"; "JO"; "JP"; "JPE"; "JPO"; "JS"; "JZ"]%string.

Definition cc_entry_ok (n : string) : bool :=
  match lookup n jcc_table, cc_of_name n with
  | Some opc, Some c => opc =? 112 + c
  | _, _ => false
  end.

Lemma cc_table_ok : forallb cc_entry_ok jcc_names = true.
Proof. vm_compute. reflexivity. Qed.

Lemma cc_table_sound n : In n jcc_names -> exists opc c, lookup n jcc_table = Some opc /\ cc_of_name n = Some c /\ opc = 112 + c /\ In opc jcc_opcodes.
Proof.
  intros Hin. pose proof cc_table_ok as H. rewrite forallb_forall in H. specialize (H n Hin).
  unfold cc_entry_ok in H. destruct (lookup n jcc_table) as [opc|]; [|discriminate].
  destruct (cc_of_name n) as [c|] eqn:Ec; [|discriminate]. apply Z.eqb_eq in H.
  exists opc, c. repeat split; try assumption.
  assert (Hc : 0 <= c <= 15).
  { clear - Ec. unfold cc_of_name in Ec.
    repeat match type of Ec with (if ?b then _ else _) = _ => destruct b end; inversion Ec; lia. }
  subst opc. unfold jcc_opcodes. cbn [In].
  assert (c = 0 \/ c = 1 \/ c = 2 \/ c = 3 \/ c = 4 \/ c = 5 \/ c = 6 \/ c = 7 \/ c = 8 \/ c = 9 \/ c = 10 \/ c = 11 \/ c = 12 \/ c = 13 \/ c = 14 \/ c = 15) as Hcases by lia.
  repeat (destruct Hcases as [->|Hcases]; [cbn; tauto|]). subst; cbn; tauto.
Qed.

