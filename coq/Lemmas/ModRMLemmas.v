(** C02: the 16-bit ModR/M calculator of the model against the SDM decoder (table 2-1), for every
    displacement in the 16-bit range, every register field and every addressing shape. *)
From Coq Require Import List ZArith String Bool Lia.
From Gosk Require Import Base.Bytes Model.Ast Model.Eval Model.Asm Model.X86Enc Spec.Branch Spec.X86 Lemmas.BranchLemmas.
Import ListNotations.
Local Open Scope string_scope.
Local Open Scope list_scope.
Local Open Scope Z_scope.

Lemma sxn_le n z rest : (0 < n)%nat -> - 2 ^ (8 * Z.of_nat n - 1) <= z < 2 ^ (8 * Z.of_nat n - 1) ->
  get n (le n z ++ rest) = Some (le n z, rest) /\ sxn n (le n z) = z.
Proof.
  intros Hn Hz. split.
  - unfold get. rewrite app_length, le_length.
    replace (Nat.leb n (n + Datatypes.length rest)) with true by (symmetry; apply Nat.leb_le; lia).
    rewrite firstn_app, le_length, Nat.sub_diag. cbn [firstn]. rewrite app_nil_r.
    rewrite <- (le_length n z) at 1. rewrite firstn_all.
    rewrite <- (le_length n z) at 2. rewrite skipn_app, skipn_all, le_length, Nat.sub_diag. reflexivity.
  - unfold sxn. rewrite le_decode_le, pow256_2.
    change (sign_ext (8 * Z.of_nat n) (z mod 2 ^ (8 * Z.of_nat n))) with (swrap (8 * Z.of_nat n) z).
    apply swrap_id; lia.
Qed.

(* the addressing shapes the operand parser can produce for 16-bit registers, with the base/index
   register numbers the SDM table assigns *)
Definition shapes16 : list (string * string * option Z * option Z) :=
  [("BX", "SI", Some 3, Some 6); ("BX", "DI", Some 3, Some 7); ("BP", "SI", Some 5, Some 6); ("BP", "DI", Some 5, Some 7);
   ("SI", "", None, Some 6); ("DI", "", None, Some 7); ("BP", "", Some 5, None); ("BX", "", Some 3, None)].

Definition regs8 : list Z := [0; 1; 2; 3; 4; 5; 6; 7].

Definition ea16 (eb ei : option Z) (d : Z) : eaddr := {| ea_asize := 16; ea_base := eb; ea_index := ei; ea_scale := 1; ea_disp := d |}.

Definition modrm16_ok (b i : string) (eb ei : option Z) (reg d : Z) (rest : list Z) : Prop :=
  exists x, calc_modrm (mk_mem b i 0 d) M16 (reg * 8) = Some x
            /\ decode_modrm 16 (modrm_bytes x ++ rest) = Some (reg, RmMem (ea16 eb ei d), zlen (modrm_bytes x)).

Ltac dec_flags :=
  repeat match goal with
         | H : (_ =? _) = true |- _ => apply Z.eqb_eq in H
         | H : (_ =? _) = false |- _ => apply Z.eqb_neq in H
         | H : (_ <=? _) = true |- _ => apply Z.leb_le in H
         | H : (_ <=? _) = false |- _ => apply Z.leb_gt in H
         end.

Theorem modrm16_sound : forall b i eb ei reg d rest,
  In (b, i, eb, ei) shapes16 -> In reg regs8 -> -32768 <= d <= 32767 ->
  modrm16_ok b i eb ei reg d rest.
Proof.
  intros b i eb ei reg d rest Hs Hr Hd. unfold modrm16_ok.
  destruct (d =? 0) eqn:E0; [|destruct ((-128 <=? d) && (d <=? 127)) eqn:E8].
  - (* no displacement *)
    apply Z.eqb_eq in E0. subst d.
    unfold shapes16 in Hs. cbn [In] in Hs. unfold regs8 in Hr. cbn [In] in Hr.
    repeat (destruct Hs as [Hs|Hs]; [inversion Hs; subst; clear Hs|]); try contradiction;
      repeat (destruct Hr as [Hr|Hr]; [subst reg|]); try contradiction;
      (eexists; split; [vm_compute; reflexivity | vm_compute; reflexivity]).
  - (* disp8 *)
    apply andb_prop in E8 as [L H]. apply Z.leb_le in L. apply Z.leb_le in H.
    destruct (sxn_le 1 d rest ltac:(lia)) as [G S]; [change (8 * Z.of_nat 1 - 1) with 7; change (2 ^ 7) with 128; lia|].
    assert (Hb : forall X Y : Z, ((-128 <=? d) && (d <=? 127)) = true) by (intros; apply andb_true_intro; split; apply Z.leb_le; lia).
    unfold shapes16 in Hs. cbn [In] in Hs. unfold regs8 in Hr. cbn [In] in Hr.
    repeat (destruct Hs as [Hs|Hs]; [inversion Hs; subst; clear Hs|]); try contradiction;
      repeat (destruct Hr as [Hr|Hr]; [subst reg|]); try contradiction;
      (eexists; split;
       [ unfold calc_modrm, mk_mem; cbn [m_disp m_base m_index String.eqb Ascii.eqb Bool.eqb andb orb negb]; rewrite E0, (Hb 0 0);
         cbn [negb andb orb Z.eqb Z.mul Z.add Pos.mul Pos.add Pos.eqb]; rewrite ?(Hb 0 0); reflexivity
       | cbn [modrm_bytes Z.eqb app]; change (d mod 256 :: rest) with (le 1 d ++ rest);
         unfold decode_modrm; cbn [Z.div Z.modulo Z.eqb Z.mul Z.add Z.div_eucl Z.pos_div_eucl Pos.eqb Z.ltb Z.leb Z.compare Pos.compare Pos.compare_cont
                                  Z.pos_sub Z.succ_double Z.pred_double Z.double Pos.pred_double Z.opp Z.sub Pos.succ Z.leb Z.geb andb base16 fst snd];
         rewrite G; change (le 1 d) with [d mod 256] in S; change (le 1 d) with [d mod 256]; rewrite S; reflexivity ]).
  - (* disp16 *)
    destruct (sxn_le 2 d rest ltac:(lia)) as [G S]; [change (8 * Z.of_nat 2 - 1) with 15; change (2 ^ 15) with 32768; lia|].
    unfold shapes16 in Hs. cbn [In] in Hs. unfold regs8 in Hr. cbn [In] in Hr.
    repeat (destruct Hs as [Hs|Hs]; [inversion Hs; subst; clear Hs|]); try contradiction;
      repeat (destruct Hr as [Hr|Hr]; [subst reg|]); try contradiction;
      (eexists; split;
       [ unfold calc_modrm, mk_mem; cbn [m_disp m_base m_index String.eqb Ascii.eqb Bool.eqb andb orb negb]; rewrite E0, E8;
         cbn [negb andb orb Z.eqb Z.mul Z.add Pos.mul Pos.add Pos.eqb]; rewrite ?E8; reflexivity
       | cbn [modrm_bytes Z.eqb app];
         unfold decode_modrm; cbn [Z.div Z.modulo Z.eqb Z.mul Z.add Z.div_eucl Z.pos_div_eucl Pos.eqb Z.ltb Z.leb Z.compare Pos.compare Pos.compare_cont
                                  Z.pos_sub Z.succ_double Z.pred_double Z.double Pos.pred_double Z.opp Z.sub Pos.succ Z.leb Z.geb andb base16 fst snd];
         rewrite G, S; unfold zlen; cbn [Datatypes.length]; rewrite le_length; reflexivity ]).
Qed.

(** in 32-bit mode an operand addressed through BX/BP/SI/DI is encoded with the same 16-bit table (behind the 67h prefix
    supplied by Require67h): since fix a2cd525 the bytes do not depend on the mode *)
Lemma modrm16_mode_indep b i sc d rb : is16reg b || is16reg i = true ->
  calc_modrm (mk_mem b i sc d) M32 rb = calc_modrm (mk_mem b i sc d) M16 rb.
Proof. intros H. unfold calc_modrm. cbn [m_base m_index mk_mem]. rewrite H. reflexivity. Qed.

Lemma shapes16_are_16 : forallb (fun x => match x with (b, i, _, _) => is16reg b || is16reg i end) shapes16 = true.
Proof. vm_compute. reflexivity. Qed.
