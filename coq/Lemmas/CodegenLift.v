(** Lifts of the per-ocode relocation (C16) and renaming (C15) lemmas to whole ocode lists,
    i.e. to everything codegen emits for a program. *)
From Coq Require Import List ZArith String Bool Lia.
From Gosk Require Import Base.Bytes Model.Ast Model.Eval Model.Asm Lemmas.AsmLemmas Lemmas.RenameLemmas.
Import ListNotations.
Local Open Scope Z_scope.

(* ocodes whose bytes may not depend on where the program is loaded: everything except instructions with
   operands (they may hold absolute addresses: C16_label_field_moves), branches to a NUMERIC address (absolute
   by definition) and ALIGNB to a boundary that the move does not preserve *)
Definition reloc_ok (delta : Z) (o : ocode) : bool :=
  match o with
  | OInstr _ _ _ => false
  | OJcc _ _ (JLabel _) => true
  | OJcc _ _ _ => false
  | OAlignb n => delta mod n =? 0
  | _ => true
  end.

Lemma gen_reloc E m st dol len delta o : reloc_ok delta o = true ->
  gen_ocode E m (shift_sym delta st) (dol + delta) len o = gen_ocode E m st dol len o.
Proof.
  destruct o as [w vals|n|n|md name t|md sg off| |name|v| |md mn ops| ]; cbn [reloc_ok]; intros H; try discriminate H; try reflexivity.
  - cbn [gen_ocode]. destruct ((n <=? 0) || negb (Z.land n (n - 1) =? 0)) eqn:Eg; [reflexivity|].
    apply Z.eqb_eq in H.
    replace (dol + delta + len) with (dol + len + (delta / n) * n).
    + rewrite Z_mod_plus_full. reflexivity.
    + pose proof (Z_div_mod_eq_full delta n) as Hd. rewrite H in Hd. lia.
  - destruct t; try discriminate H. apply gen_branch_reloc.
Qed.

Theorem codegen_reloc E m st dol delta : forall os acc d, forallb (reloc_ok delta) os = true ->
  codegen E m (shift_sym delta st) (dol + delta) acc d os = codegen E m st dol acc d os.
Proof.
  induction os as [|o r IH]; intros acc d H; [reflexivity|].
  cbn [forallb] in H. apply andb_prop in H as [Ho Hr]. cbn [codegen].
  rewrite (gen_reloc E m st dol (zlen acc) delta o Ho).
  destruct (gen_ocode E m st dol (zlen acc) o); try reflexivity; apply IH; exact Hr.
Qed.

Definition no_instr (o : ocode) : bool := match o with OInstr _ _ _ => false | _ => true end.

Theorem codegen_rename E m st dol f : (forall l k, In k (map fst st) -> f k = f l -> k = l) ->
  forall os acc d, forallb no_instr os = true ->
  codegen E m (rename_sym f st) dol acc d (map (rename_ocode f) os) = codegen E m st dol acc d os.
Proof.
  intros Hinj. induction os as [|o r IH]; intros acc d H; [reflexivity|].
  cbn [forallb] in H. apply andb_prop in H as [Ho Hr]. cbn [codegen map].
  rewrite (gen_rename E m st dol (zlen acc) f o Hinj); [|destruct o; try exact I; discriminate Ho].
  destruct (gen_ocode E m st dol (zlen acc) o); try reflexivity; apply IH; exact Hr.
Qed.

(** ---- C07 at program level: a diagnostic raised anywhere is never lost ---- *)

(* once raised, the diagnostic flag survives everything emitted afterwards *)
Lemma codegen_diag_sticky E m st dol : forall os acc bs d', codegen E m st dol acc true os = GOk bs d' -> d' = true.
Proof.
  induction os as [|o r IH]; intros acc bs d' H; cbn [codegen] in H; [inversion H; reflexivity|].
  destruct (gen_ocode E m st dol (zlen acc) o); try discriminate H; eapply IH; exact H.
Qed.

(* a diagnosed ocode anywhere in the program - after any prefix, before any suffix - shows in the final flag *)
Theorem codegen_diag_reaches_end E m st dol o :
  (forall len, exists b, gen_ocode E m st dol len o = BytesDiag b) ->
  forall os1 os2 acc d bs d', codegen E m st dol acc d (os1 ++ o :: os2) = GOk bs d' -> d' = true.
Proof.
  intros Ho. induction os1 as [|x r IH]; intros os2 acc d bs d' H; cbn [app codegen] in H.
  - destruct (Ho (zlen acc)) as [b Hb]. rewrite Hb in H. eapply codegen_diag_sticky; exact H.
  - destruct (gen_ocode E m st dol (zlen acc) x); try discriminate H; eapply IH; exact H.
Qed.

(* instances: ocodes that are diagnosed wherever they stand.  (A branch to a label defined nowhere is NOT one of them in a
   whole program: pass 1 enters the name with value 0, so codegen finds it - the known finding "JMP nosuchname".) *)
Lemma text_target_diag E m st dol md name : forall len, exists b, gen_ocode E m st dol len (OJcc md name JText) = BytesDiag b.
Proof. intros len. exists []. reflexivity. Qed.

Lemma negative_resb_diag E m st dol n : n < 0 -> forall len, exists b, gen_ocode E m st dol len (OResb n) = BytesDiag b.
Proof. intros H len. exists []. cbn [gen_ocode]. destruct (n <? 0) eqn:En; [reflexivity | apply Z.ltb_ge in En; lia]. Qed.

Lemma int_out_of_range_diag E m st dol z : ~ (0 <= z <= 255) -> forall len, exists b, gen_ocode E m st dol len (OInt (Some z)) = BytesDiag b.
Proof.
  intros H len. exists []. cbn [gen_ocode]. unfold in_range.
  destruct (z =? 3) eqn:E3; [apply Z.eqb_eq in E3; exfalso; apply H; subst z; split; discriminate|].
  destruct (0 <=? z) eqn:A; destruct (z <=? 255) eqn:B; cbn [andb]; try reflexivity.
  apply Z.leb_le in A. apply Z.leb_le in B. exfalso. apply H. split; assumption.
Qed.

Theorem unencodable_statements_flagged E m st dol o :
  (exists md name, o = OJcc md name JText) \/ (exists n, n < 0 /\ o = OResb n) \/ (exists z, ~ (0 <= z <= 255) /\ o = OInt (Some z)) \/ o = OJmpFarText ->
  forall os1 os2 acc d bs d', codegen E m st dol acc d (os1 ++ o :: os2) = GOk bs d' -> d' = true.
Proof.
  intros H. apply codegen_diag_reaches_end.
  destruct H as [[md [name ->]]|[[n [Hn ->]]|[[z [Hz ->]]| ->]]].
  - apply text_target_diag.
  - apply negative_resb_diag; exact Hn.
  - apply int_out_of_range_diag; exact Hz.
  - intros len. exists []. reflexivity.
Qed.
