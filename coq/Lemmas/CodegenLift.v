(** Lifts of the per-ocode relocation (C16) and renaming (C15) lemmas to whole ocode lists,
    i.e. to everything codegen emits for a program. *)
From Coq Require Import List ZArith String Bool Lia.
From Gosk Require Import Base.Bytes Model.Ast Model.Eval Model.Asm Lemmas.AsmLemmas Lemmas.RenameLemmas.
Import ListNotations.
Local Open Scope Z_scope.

(* ocodes whose bytes may not depend on where the program is loaded: everything except instructions with
   operands (they may hold absolute addresses: C16_label_field_moves), branches to a NUMERIC address (absolute
   by definition) and ALIGNB to a boundary that the move does not preserve *)
Definition reloc_ok (delta : Z) (o : ocode) : bool :=
  match o with
  | OInstr _ _ _ => false
  | OJcc _ _ (JLabel _) => true
  | OJcc _ _ _ => false
  | OAlignb n => delta mod n =? 0
  | _ => true
  end.

Lemma gen_reloc E m st dol len delta o : reloc_ok delta o = true ->
  gen_ocode E m (shift_sym delta st) (dol + delta) len o = gen_ocode E m st dol len o.
Proof.
  destruct o as [w vals|n|n|md name t|md sg off| |name|v| |md mn ops| ]; cbn [reloc_ok]; intros H; try discriminate H; try reflexivity.
  - cbn [gen_ocode]. destruct ((n <=? 0) || negb (Z.land n (n - 1) =? 0)) eqn:Eg; [reflexivity|].
    apply Z.eqb_eq in H.
    replace (dol + delta + len) with (dol + len + (delta / n) * n).
    + rewrite Z_mod_plus_full. reflexivity.
    + pose proof (Z_div_mod_eq_full delta n) as Hd. rewrite H in Hd. lia.
  - destruct t; try discriminate H. apply gen_branch_reloc.
Qed.

Theorem codegen_reloc E m st dol delta : forall os acc d, forallb (reloc_ok delta) os = true ->
  codegen E m (shift_sym delta st) (dol + delta) acc d os = codegen E m st dol acc d os.
Proof.
  induction os as [|o r IH]; intros acc d H; [reflexivity|].
  cbn [forallb] in H. apply andb_prop in H as [Ho Hr]. cbn [codegen].
  rewrite (gen_reloc E m st dol (zlen acc) delta o Ho).
  destruct (gen_ocode E m st dol (zlen acc) o); try reflexivity; apply IH; exact Hr.
Qed.

Definition no_instr (o : ocode) : bool := match o with OInstr _ _ _ => false | _ => true end.

Theorem codegen_rename E m st dol f : (forall l k, In k (map fst st) -> f k = f l -> k = l) ->
  forall os acc d, forallb no_instr os = true ->
  codegen E m (rename_sym f st) dol acc d (map (rename_ocode f) os) = codegen E m st dol acc d os.
Proof.
  intros Hinj. induction os as [|o r IH]; intros acc d H; [reflexivity|].
  cbn [forallb] in H. apply andb_prop in H as [Ho Hr]. cbn [codegen map].
  rewrite (gen_rename E m st dol (zlen acc) f o Hinj); [|destruct o; try exact I; discriminate Ho].
  destruct (gen_ocode E m st dol (zlen acc) o); try reflexivity; apply IH; exact Hr.
Qed.
