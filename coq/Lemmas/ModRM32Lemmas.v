(** C02, 32-bit addressing, ALL shapes: absolute, single base (all eight registers, ESP through SIB 24h, EBP with
    its mandatory displacement), base + index*scale, index*scale without base; every register field, every
    displacement in int32.

    Structure of the proof:
    - [layout32] reads, from the ModR/M byte and the byte after it, what the SDM decoder [decode_modrm 32] will do:
      whether there is a SIB byte, how many displacement bytes follow, and which base/index/scale it reports.
      [decode32_layout] proves (for abstract displacement and abstract trailing bytes) that the decoder does exactly
      that.
    - the encoder model factors as [render32 (calc32_shape ...)], where the shape depends on the displacement only
      through (d = 0) and (d in int8).  [shape_sweep] checks by computation, for all 9 x 8 x 4 x 3 x 8 combinations of
      base, index, scale, displacement class and register field, that the shape's layout is the operand written.
    - [modrm32_sound] combines the two. *)
From Coq Require Import List ZArith String Bool Lia.
From Gosk Require Import Base.Bytes Model.Ast Model.Eval Model.Asm Model.X86Enc Spec.Branch Spec.X86 Lemmas.BranchLemmas Lemmas.ModRMLemmas.
Import ListNotations.
Local Open Scope string_scope.
Local Open Scope list_scope.
Local Open Scope Z_scope.

Definition ea32 (eb ei : option Z) (sc d : Z) : eaddr := {| ea_asize := 32; ea_base := eb; ea_index := ei; ea_scale := sc; ea_disp := d |}.

Definition layout32 (mb sib : Z) : option (bool * nat * option Z * option Z * Z) :=
  let md := mb / 64 in
  let rm := mb mod 8 in
  if md =? 3 then None else
  if rm =? 4 then
    let ss := sib / 64 in
    let idx := (sib / 8) mod 8 in
    let bse := sib mod 8 in
    let index := if idx =? 4 then None else Some idx in
    let scale := 2 ^ ss in
    if (md =? 0) && (bse =? 5) then Some (true, 4%nat, None, index, scale)
    else if md =? 0 then Some (true, 0%nat, Some bse, index, scale)
    else if md =? 1 then Some (true, 1%nat, Some bse, index, scale)
    else Some (true, 4%nat, Some bse, index, scale)
  else if (md =? 0) && (rm =? 5) then Some (false, 4%nat, None, None, 1)
  else if md =? 0 then Some (false, 0%nat, Some rm, None, 1)
  else if md =? 1 then Some (false, 1%nat, Some rm, None, 1)
  else Some (false, 4%nat, Some rm, None, 1).

Definition sib_list (hs : bool) (sib : Z) : list Z := if hs then [sib] else [].

Lemma decode32_layout mb sib hs n eb ei sc d rest :
  layout32 mb sib = Some (hs, n, eb, ei, sc) ->
  (n = 0%nat -> d = 0) ->
  (n <> 0%nat -> - 2 ^ (8 * Z.of_nat n - 1) <= d < 2 ^ (8 * Z.of_nat n - 1)) ->
  decode_modrm 32 (mb :: sib_list hs sib ++ le n d ++ rest)
  = Some ((mb / 8) mod 8, RmMem (ea32 eb ei sc d), 1 + (if hs then 1 else 0) + Z.of_nat n).
Proof.
  intros L H0 Hd. unfold layout32 in L. unfold decode_modrm. change (32 =? 16) with false. cbv iota.
  destruct (mb / 64 =? 3) eqn:E3; [discriminate|].
  assert (G1 : -128 <= d < 128 -> get 1 (le 1 d ++ rest) = Some (le 1 d, rest) /\ sxn 1 (le 1 d) = d).
  { intros B. apply sxn_le; [lia|]. change (8 * Z.of_nat 1 - 1) with 7. change (2 ^ 7) with 128. exact B. }
  assert (G4 : - 2 ^ 31 <= d < 2 ^ 31 -> get 4 (le 4 d ++ rest) = Some (le 4 d, rest) /\ sxn 4 (le 4 d) = d).
  { intros B. apply sxn_le; [lia|]. change (8 * Z.of_nat 4 - 1) with 31. exact B. }
  destruct (mb mod 8 =? 4) eqn:E4.
  - destruct ((mb / 64 =? 0) && (sib mod 8 =? 5)) eqn:Ea.
    + inversion L; subst; clear L. unfold sib_list. cbn [app]. rewrite Ea.
      destruct G4 as [G S]; [apply Hd; discriminate|]. rewrite G, S. reflexivity.
    + destruct (mb / 64 =? 0) eqn:Eb.
      * inversion L; subst; clear L. unfold sib_list. cbn [app le]. rewrite Ea. rewrite (H0 eq_refl). reflexivity.
      * destruct (mb / 64 =? 1) eqn:Ec.
        -- inversion L; subst; clear L. unfold sib_list. cbn [app]. rewrite Ea.
           destruct G1 as [G S]; [apply Hd; discriminate|]. rewrite G, S. reflexivity.
        -- inversion L; subst; clear L. unfold sib_list. cbn [app]. rewrite Ea.
           destruct G4 as [G S]; [apply Hd; discriminate|]. rewrite G, S. reflexivity.
  - destruct ((mb / 64 =? 0) && (mb mod 8 =? 5)) eqn:Ea.
    + inversion L; subst; clear L. unfold sib_list. cbn [app].
      destruct G4 as [G S]; [apply Hd; discriminate|]. rewrite G, S. reflexivity.
    + destruct (mb / 64 =? 0) eqn:Eb.
      * inversion L; subst; clear L. unfold sib_list. cbn [app le]. rewrite (H0 eq_refl). reflexivity.
      * destruct (mb / 64 =? 1) eqn:Ec.
        -- inversion L; subst; clear L. unfold sib_list. cbn [app].
           destruct G1 as [G S]; [apply Hd; discriminate|]. rewrite G, S. reflexivity.
        -- inversion L; subst; clear L. unfold sib_list. cbn [app].
           destruct G4 as [G S]; [apply Hd; discriminate|]. rewrite G, S. reflexivity.
Qed.

(** the operands of the domain: (base text, index text, scale as written, expected base, expected index, expected scale) *)
Definition bases32 : list (string * option Z) :=
  [("", None); ("EAX", Some 0); ("ECX", Some 1); ("EDX", Some 2); ("EBX", Some 3); ("ESP", Some 4); ("EBP", Some 5); ("ESI", Some 6); ("EDI", Some 7)].
Definition indexes32 : list (string * option Z) :=
  [("EAX", Some 0); ("ECX", Some 1); ("EDX", Some 2); ("EBX", Some 3); ("EBP", Some 5); ("ESI", Some 6); ("EDI", Some 7)].
Definition scales32 : list Z := [1; 2; 4; 8].

(* (b, i, sc, eb, ei, esc): no index => scale field 0 in MemoryInfo, reported scale 1 *)
Definition shapes32 : list (string * string * Z * option Z * option Z * Z) :=
  map (fun '(b, eb) => (b, "", 0, eb, None, 1)) bases32
  ++ flat_map (fun '(b, eb) => flat_map (fun '(i, ei) => map (fun sc => (b, i, sc, eb, ei, sc)) scales32) indexes32) bases32.

(* displacement classes: zero / non-zero int8 / beyond int8, as the two booleans the shape depends on *)
Definition dclasses : list (bool * bool) := [(true, true); (false, true); (false, false)].   (* (d =? 0, fits8) *)

Definition opt_eqb (a b : option Z) : bool := match a, b with Some x, Some y => x =? y | None, None => true | _, _ => false end.

Definition mod0_of (direct dz f8 : bool) : Z := if negb (negb dz || direct) && negb direct then 0 else if f8 then 64 else 128.

Definition shape_ok (x : string * string * Z * option Z * option Z * Z) (dc : bool * bool) (reg : Z) : bool :=
  let '(b, i, sc, eb, ei, esc) := x in
  let '(dz, f8) := dc in
  let direct := String.eqb b "" && String.eqb i "" in
  let hasDisp := negb dz || direct in
  match calc32_shape b i sc (mod0_of direct dz f8) hasDisp f8 with
  | None => false
  | Some sh =>
      let mb := sh_mod sh + reg * 8 + sh_rm sh in
      let sib := match sh_sib sh with Some s => s | None => 0 end in
      let hs := match sh_sib sh with Some _ => true | None => false end in
      match layout32 mb sib with
      | Some (hs', n, eb', ei', sc') =>
          Bool.eqb hs hs' && Nat.eqb n (sh_nd sh)
          && opt_eqb eb eb' && opt_eqb ei ei'
          && (sc' =? esc) && ((mb / 8) mod 8 =? reg)
          && (match sh_nd sh with 0%nat => dz | 1%nat => f8 | _ => true end)
      | None => false
      end
  end.

Definition sweep32 : bool :=
  forallb (fun x => forallb (fun dc => forallb (fun reg => shape_ok x dc reg) regs8) dclasses) shapes32.

Lemma shape_sweep : sweep32 = true.
Proof. vm_compute. reflexivity. Qed.

Lemma shape_ok_all x dc reg : In x shapes32 -> In dc dclasses -> In reg regs8 -> shape_ok x dc reg = true.
Proof.
  intros Hx Hdc Hr. pose proof shape_sweep as S. unfold sweep32 in S.
  rewrite forallb_forall in S. specialize (S x Hx). rewrite forallb_forall in S. specialize (S dc Hdc).
  rewrite forallb_forall in S. exact (S reg Hr).
Qed.

Definition modrm32_ok (m : meminfo) (eb ei : option Z) (sc reg d : Z) (rest : list Z) : Prop :=
  exists x, calc_modrm m M32 (reg * 8) = Some x
            /\ decode_modrm 32 (modrm_bytes x ++ rest) = Some (reg, RmMem (ea32 eb ei sc d), zlen (modrm_bytes x)).

Lemma opt_eqb_eq (a b : option Z) : opt_eqb a b = true -> a = b.
Proof. unfold opt_eqb. destruct a, b; intros H; try discriminate; try reflexivity. apply Z.eqb_eq in H. now subst. Qed.

Lemma dclass_of d : In (d =? 0, (-128 <=? d) && (d <=? 127)) dclasses.
Proof.
  unfold dclasses. destruct (d =? 0) eqn:E.
  - apply Z.eqb_eq in E. subst d. left. reflexivity.
  - destruct ((-128 <=? d) && (d <=? 127)); [right; left|right; right; left]; reflexivity.
Qed.

Lemma shapes32_no16 : forallb (fun x => match x with (b, i, _, _, _, _) => negb (is16reg b || is16reg i) end) shapes32 = true.
Proof. vm_compute. reflexivity. Qed.

Theorem modrm32_sound : forall b i sc eb ei esc reg d rest,
  In (b, i, sc, eb, ei, esc) shapes32 -> In reg regs8 -> - 2 ^ 31 <= d < 2 ^ 31 ->
  modrm32_ok (mk_mem b i sc d) eb ei esc reg d rest.
Proof.
  intros b i sc eb ei esc reg d rest Hs Hr Hd.
  pose proof (shape_ok_all _ _ _ Hs (dclass_of d) Hr) as OK. unfold shape_ok in OK.
  assert (H16 : is16reg b || is16reg i = false).
  { pose proof shapes32_no16 as S16. rewrite forallb_forall in S16. specialize (S16 _ Hs). cbn in S16. apply negb_true_iff in S16. exact S16. }
  unfold modrm32_ok, calc_modrm, calc32. cbn [m_disp m_base m_index m_scale mk_mem]. rewrite H16. cbn [negb].
  set (direct := String.eqb b "" && String.eqb i "") in *.
  set (f8 := (-128 <=? d) && (d <=? 127)) in *.
  change (if negb (negb (d =? 0) || direct) && negb direct then 0 else if f8 then 64 else 128) with (mod0_of direct (d =? 0) f8).
  destruct (calc32_shape b i sc (mod0_of direct (d =? 0) f8) (negb (d =? 0) || direct) f8) as [sh|]; [|discriminate].
  eexists. split; [reflexivity|].
  destruct (layout32 (sh_mod sh + reg * 8 + sh_rm sh) match sh_sib sh with Some s => s | None => 0 end) as [[[[[hs' n] eb'] ei'] sc']|] eqn:L; [|discriminate].
  repeat (apply andb_prop in OK; destruct OK as [OK ?]).
  match goal with H : Bool.eqb _ hs' = true |- _ => apply Bool.eqb_prop in H; rename H into Hhs end.
  match goal with H : Nat.eqb n _ = true |- _ => apply Nat.eqb_eq in H; rename H into Hn end.
  match goal with H : (sc' =? esc) = true |- _ => apply Z.eqb_eq in H; rename H into Hsc end.
  match goal with H : (_ mod 8 =? reg) = true |- _ => apply Z.eqb_eq in H; rename H into Hreg end.
  repeat match goal with H : opt_eqb _ _ = true |- _ => apply opt_eqb_eq in H end.
  subst eb' ei' sc' n.
  unfold render32, modrm_bytes.
  assert (Hsl : (match sh_sib sh with Some s => [s] | None => [] end) = sib_list hs' (match sh_sib sh with Some s => s | None => 0 end)).
  { subst hs'. destruct (sh_sib sh); reflexivity. }
  rewrite Hsl. cbn [app]. rewrite <- app_assoc.
  rewrite (decode32_layout _ _ _ _ _ _ _ d rest L).
  - rewrite Hreg. f_equal. f_equal. unfold zlen. cbn [Datatypes.length]. rewrite app_length, le_length.
    subst hs'. destruct (sh_sib sh); cbn [sib_list Datatypes.length]; lia.
  - intros E. rewrite E in *. match goal with H : (d =? 0) = true |- _ => apply Z.eqb_eq in H; exact H end.
  - intros NE. destruct (sh_nd sh) as [|[|k]] eqn:En; [congruence| |].
    + match goal with H : f8 = true |- _ => unfold f8 in H; apply andb_prop in H; destruct H as [A B]; apply Z.leb_le in A; apply Z.leb_le in B end.
      change (8 * Z.of_nat 1 - 1) with 7. change (2 ^ 7) with 128. lia.
    + (* the only other displacement length a layout reports is 4 *)
      assert (Hk : S (S k) = 4%nat).
      { unfold layout32 in L. repeat match type of L with context [if ?c then _ else _] => destruct c end; inversion L; subst; try reflexivity; congruence. }
      rewrite Hk. change (8 * Z.of_nat 4 - 1) with 31. exact Hd.
Qed.

(** 16-bit mode, operand addressed through 32-bit registers (67h prefix supplied by Require67h): calculateModRM jumps to
    the same 32-bit logic, so the bytes are those of 32-bit mode. *)
Definition regpairs32 : list (string * string) :=
  filter (fun '(b, i) => negb (String.eqb b "" && String.eqb i "")) (flat_map (fun '(b, _) => map (fun '(i, _) => (b, i)) (("", None) :: indexes32)) bases32).

Definition falls_to_32 (b i : string) : bool :=
  let e := String.eqb in
  negb (e b "BX" && e i "SI") && negb (e b "BX" && e i "DI") && negb (e b "BP" && e i "SI") && negb (e b "BP" && e i "DI")
  && negb (e b "" && e i "SI") && negb (e b "" && e i "DI") && negb (e b "BP" && e i "") && negb (e b "" && e i "")
  && negb (e b "BX" && e i "") && negb (e b "SI" && e i "") && negb (e b "DI" && e i "") && (is32reg b || is32reg i).

Lemma falls_to_32_all : forallb (fun '(b, i) => falls_to_32 b i) regpairs32 = true.
Proof. vm_compute. reflexivity. Qed.

Lemma calc_modrm_16_as_32 b i sc d rb : falls_to_32 b i = true ->
  calc_modrm (mk_mem b i sc d) M16 rb = calc_modrm (mk_mem b i sc d) M32 rb.
Proof.
  unfold falls_to_32, calc_modrm. cbn [m_base m_index m_disp m_scale mk_mem]. intros H.
  repeat (apply andb_prop in H; destruct H as [H ?]).
  repeat match goal with H : negb ?c = true |- _ => apply negb_true_iff in H; rewrite H end.
  match goal with H : (is32reg b || is32reg i) = true |- _ => rewrite H end.
  cbn [negb]. destruct (negb (is16reg b || is16reg i)); reflexivity.
Qed.
