(** C02, 32-bit addressing with a single base register (all eight, incl. ESP through SIB 24h and EBP with its mandatory displacement): every register field, every displacement in int32. *)
From Coq Require Import List ZArith String Bool Lia.
From Gosk Require Import Base.Bytes Model.Ast Model.Eval Model.Asm Model.X86Enc Spec.Branch Spec.X86 Lemmas.BranchLemmas Lemmas.ModRMLemmas.
Import ListNotations.
Local Open Scope string_scope.
Local Open Scope list_scope.
Local Open Scope Z_scope.

(* 32-bit addressing, shapes on which gosk is right: single base register (any of the 8), base + index*scale
   (index <> ESP; not EAX+EAX*1 (SIB = 0); EBP base needs a displacement), absolute *)
Definition r32n : list (string * Z) := [("EAX", 0); ("ECX", 1); ("EDX", 2); ("EBX", 3); ("ESP", 4); ("EBP", 5); ("ESI", 6); ("EDI", 7)].
Definition ea32 (eb ei : option Z) (sc d : Z) : eaddr := {| ea_asize := 32; ea_base := eb; ea_index := ei; ea_scale := sc; ea_disp := d |}.

Definition modrm32_ok (m : meminfo) (eb ei : option Z) (sc reg d : Z) (rest : list Z) : Prop :=
  exists x, calc_modrm m M32 (reg * 8) = Some x
            /\ decode_modrm 32 (modrm_bytes x ++ rest) = Some (reg, RmMem (ea32 eb ei sc d), zlen (modrm_bytes x)).


Ltac enum_b_r Hb Hr :=
  unfold r32n in Hb; cbn [In] in Hb; unfold regs8 in Hr; cbn [In] in Hr.

Ltac calc_side E0 Hb8 :=
  unfold calc_modrm, calc32, mk_mem; cbn [m_disp m_base m_index m_scale String.eqb Ascii.eqb Bool.eqb andb orb negb]; rewrite ?E0, ?Hb8;
  cbn [negb andb orb Z.eqb Z.mul Z.add Pos.mul Pos.add Pos.eqb index_of r32_names String.eqb Ascii.eqb Bool.eqb is_scale reg_number r8_names r16_names sreg_names]; rewrite ?Hb8, ?E0;
  cbn [negb andb orb Z.eqb Pos.eqb Z.add Z.mul Pos.add Pos.mul]; rewrite ?Hb8, ?E0; reflexivity.

Ltac dec_side :=
  unfold decode_modrm; cbn [Z.div Z.modulo Z.eqb Z.mul Z.add Z.div_eucl Z.pos_div_eucl Pos.eqb Z.ltb Z.leb Z.compare Pos.compare Pos.compare_cont
                            Z.pos_sub Z.succ_double Z.pred_double Z.double Pos.pred_double Z.opp Z.sub Pos.succ Z.geb andb Z.pow Z.pow_pos Pos.iter].

Lemma modrm32_base_disp0 : forall b nb reg rest, In (b, nb) r32n -> b <> "EBP" -> In reg regs8 ->
  modrm32_ok (mk_mem b "" 0 0) (Some nb) None 1 reg 0 rest.
Proof.
  intros b nb reg rest Hb Hne Hr. unfold modrm32_ok. enum_b_r Hb Hr.
  repeat (destruct Hb as [Hb|Hb]; [inversion Hb; subst; clear Hb|]); try contradiction; try (exfalso; apply Hne; reflexivity);
    repeat (destruct Hr as [Hr|Hr]; [subst reg|]); try contradiction;
    (eexists; split; [vm_compute; reflexivity | vm_compute; reflexivity]).
Qed.

Lemma modrm32_base_disp8 : forall b nb reg d rest, In (b, nb) r32n -> In reg regs8 -> -128 <= d <= 127 -> (d <> 0 \/ b = "EBP") ->
  modrm32_ok (mk_mem b "" 0 d) (Some nb) None 1 reg d rest.
Proof.
  intros b nb reg d rest Hb Hr Hd Hnz. unfold modrm32_ok.
  destruct (sxn_le 1 d rest ltac:(lia)) as [G S]; [change (8 * Z.of_nat 1 - 1) with 7; change (2 ^ 7) with 128; lia|].
  assert (Hb8 : ((-128 <=? d) && (d <=? 127)) = true) by (apply andb_true_intro; split; apply Z.leb_le; lia).
  change (le 1 d) with [d mod 256] in G, S. cbn [app] in G.
  destruct (d =? 0) eqn:E0.
  - apply Z.eqb_eq in E0. subst d. destruct Hnz as [Hnz|Hnz]; [congruence|]. subst b.
    enum_b_r Hb Hr.
    repeat (destruct Hb as [Hb|Hb]; [inversion Hb; subst; clear Hb|]); try contradiction;
      repeat (destruct Hr as [Hr|Hr]; [subst reg|]); try contradiction;
      (eexists; split; [vm_compute; reflexivity | vm_compute; reflexivity]).
  - enum_b_r Hb Hr.
    repeat (destruct Hb as [Hb|Hb]; [inversion Hb; subst; clear Hb|]); try contradiction;
      repeat (destruct Hr as [Hr|Hr]; [subst reg|]); try contradiction;
      (eexists; split; [calc_side E0 Hb8 | cbn [modrm_bytes Z.eqb Pos.eqb app]; dec_side; rewrite G, S; reflexivity]).
Qed.

Lemma modrm32_base_disp32 : forall b nb reg d rest, In (b, nb) r32n -> In reg regs8 -> - 2 ^ 31 <= d < 2 ^ 31 -> ~ (-128 <= d <= 127) ->
  modrm32_ok (mk_mem b "" 0 d) (Some nb) None 1 reg d rest.
Proof.
  intros b nb reg d rest Hb Hr Hd Hn8. unfold modrm32_ok.
  destruct (sxn_le 4 d rest ltac:(lia)) as [G S]; [change (8 * Z.of_nat 4 - 1) with 31; lia|].
  assert (Hb8 : ((-128 <=? d) && (d <=? 127)) = false).
  { destruct (-128 <=? d) eqn:A; destruct (d <=? 127) eqn:B; cbn [andb]; try reflexivity. apply Z.leb_le in A. apply Z.leb_le in B. lia. }
  assert (E0 : (d =? 0) = false) by (apply Z.eqb_neq; lia).
  enum_b_r Hb Hr.
  repeat (destruct Hb as [Hb|Hb]; [inversion Hb; subst; clear Hb|]); try contradiction;
    repeat (destruct Hr as [Hr|Hr]; [subst reg|]); try contradiction;
    (eexists; split; [calc_side E0 Hb8 | cbn [modrm_bytes Z.eqb Pos.eqb app]; dec_side; rewrite G, S; unfold zlen; cbn [Datatypes.length]; rewrite ?app_length, le_length; reflexivity]).
Qed.
