(** C13: the instruction encoder model never produces a panic, for any mode, symbol table, mnemonic and operand list;
    hence C13_no_panic holds for gosk's encoder without hypothesis. *)
From Coq Require Import List ZArith String Bool.
From Gosk Require Import Base.Bytes Model.Ast Model.Eval Model.Asm Model.X86Enc Model.Encoder Lemmas.AsmLemmas.
Import ListNotations.
Local Open Scope Z_scope.

Ltac np := repeat (match goal with
                   | |- context [match ?x with _ => _ end] => destruct x
                   | |- context [if ?x then _ else _] => destruct x
                   end); try discriminate.

Lemma diag_nothing_np : diag_nothing <> EPanic.
Proof. discriminate. Qed.

Lemma emit_mov_np md st ops : emit_mov md st ops <> EPanic.
Proof. unfold emit_mov, diag_nothing. np. Qed.

Lemma emit_generic_np mn md ops a b : emit_generic mn md ops a b <> EPanic.
Proof. unfold emit_generic, diag_nothing. np. Qed.
Lemma emit_push_np md st ops : emit_push md st ops <> EPanic.
Proof. unfold emit_push, diag_nothing. np. Qed.
Lemma emit_pop_np md ops : emit_pop md ops <> EPanic.
Proof. unfold emit_pop, diag_nothing. np. Qed.
Lemma emit_in_np md ops : emit_in md ops <> EPanic.
Proof. unfold emit_in, diag_nothing. np. Qed.
Lemma emit_out_np md ops : emit_out md ops <> EPanic.
Proof. unfold emit_out, diag_nothing. np. Qed.
Lemma emit_lgdt_np md st ops : emit_lgdt md st ops <> EPanic.
Proof. unfold emit_lgdt, diag_nothing. np. Qed.

Theorem x86_no_panic : forall md st mn es, enc_emit gosk_encoder md st mn es <> EPanic.
Proof.
  intros md st mn es. change (emit_instr md st mn es <> EPanic). unfold emit_instr.
  destruct (parse_operands es) as [ops| |]; try apply diag_nothing_np.
  destruct (String.eqb mn "MOV"); [apply emit_mov_np|].
  destruct (mem_string mn _); [destruct (Nat.eqb _ _); [apply emit_generic_np | apply diag_nothing_np]|].
  destruct (String.eqb mn "NOT"); [destruct (Nat.eqb _ _); [apply emit_generic_np | apply diag_nothing_np]|].
  destruct (String.eqb mn "IMUL"); [destruct (_ && _); [apply emit_generic_np | apply diag_nothing_np]|].
  destruct (String.eqb mn "PUSH"); [apply emit_push_np|].
  destruct (String.eqb mn "POP"); [apply emit_pop_np|].
  destruct (String.eqb mn "IN"); [apply emit_in_np|].
  destruct (String.eqb mn "OUT"); [apply emit_out_np|].
  destruct (String.eqb mn "LGDT"); [apply emit_lgdt_np|].
  destruct (mem_string mn _); [destruct (lookup mn _); discriminate | apply diag_nothing_np].
Qed.

(** every program, whatever it contains: the model of gosk never panics *)
Theorem gosk_codegen_never_panics : forall m st dol os acc d, codegen gosk_encoder m st dol acc d os <> GPanic.
Proof. intros. apply codegen_no_panic. exact x86_no_panic. Qed.

Theorem gosk_assemble_never_panics : forall p, assemble gosk_encoder p <> Panicked.
Proof.
  intros p. unfold assemble. destruct (stuck _); [discriminate|].
  destruct (codegen gosk_encoder _ _ _ _ _ _) eqn:C; try discriminate.
  exfalso. exact (gosk_codegen_never_panics _ _ _ _ _ _ C).
Qed.
