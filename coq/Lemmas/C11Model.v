(** C11 on the model of gosk's Eval: with the EQU name stored as the evaluated number (what pass 1 stores for a constant
    body), a constant expression that uses the name and the same expression with the name replaced by its definition both
    reduce - in the model of gosk's evaluator, with the fuel pass 1 uses - to the same number, the one the arithmetic
    specification gives. *)
From Coq Require Import List ZArith String Bool Lia.
From Gosk Require Import Base.Bytes Model.Ast Model.Eval Spec.Arith Lemmas.EvalLemmas Lemmas.RenameLemmas.
Import ListNotations.
Local Open Scope Z_scope.

Lemma aeval_ext rho1 rho2 : (forall s, rho1 s = rho2 s) -> forall k e, (esize e <= k)%nat -> aeval rho1 e = aeval rho2 e.
Proof.
  intros Hx. induction k as [|k IH]; intros e Hk; [destruct e; cbn [esize] in Hk; lia|].
  destruct e as [f|z|h t|h t|dt jt l r|dt l r]; try reflexivity.
  - destruct f; try reflexivity. cbn [aeval]. apply Hx.
  - rewrite !aeval_add. cbn [esize] in Hk. fold (tail_size t) in Hk.
    rewrite (IH h) by lia. destruct (aeval rho2 h); [|reflexivity].
    apply go_add_ext. intros x Hin. apply IH. pose proof (tail_size_in t x Hin). lia.
  - rewrite !aeval_mul. cbn [esize] in Hk. fold (tail_size t) in Hk.
    rewrite (IH h) by lia. destruct (aeval rho2 h); [|reflexivity].
    apply go_mul_ext. intros x Hin. apply IH. pose proof (tail_size_in t x Hin). lia.
Qed.

Lemma lits_subst n d : lits_ok d -> forall k e, (esize e <= k)%nat -> lits_ok e -> lits_ok (subst n d e).
Proof.
  intros Hd. induction k as [|k IH]; intros e Hk He; [destruct e; cbn [esize] in Hk; lia|].
  destruct e as [f|z|h t|h t|dt jt l r|dt l r].
  - destruct f; try exact He. cbn [subst]. destruct (String.eqb s n); [exact Hd | exact He].
  - exact He.
  - cbn [subst]. apply lits_add in He as [Hh Ht]. apply lits_add. cbn [esize] in Hk. fold (tail_size t) in Hk. split.
    + apply IH; [lia | exact Hh].
    + unfold all_lits in *. rewrite Forall_forall in *. intros x Hin. apply in_map_iff in Hin as [y [<- Hy]]. cbn [snd].
      apply IH; [pose proof (tail_size_in t y Hy); lia | apply Ht; exact Hy].
  - cbn [subst]. apply lits_mul in He as [Hh Ht]. apply lits_mul. cbn [esize] in Hk. fold (tail_size t) in Hk. split.
    + apply IH; [lia | exact Hh].
    + unfold all_lits in *. rewrite Forall_forall in *. intros x Hin. apply in_map_iff in Hin as [y [<- Hy]]. cbn [snd].
      apply IH; [pose proof (tail_size_in t y Hy); lia | apply Ht; exact Hy].
  - cbn [subst lits_ok] in *. destruct He as [Hl Hr]. cbn [esize] in Hk. split; [apply IH; [lia | exact Hl]|].
    destruct r as [r0|]; [|exact I]. cbn [option_map]. apply IH; [lia | exact Hr].
  - cbn [subst lits_ok] in *. destruct He as [Hl Hr]. cbn [esize] in Hk. split; [apply IH; [lia | exact Hl]|].
    destruct r as [r0|]; [|exact I]. cbn [option_map]. apply IH; [lia | exact Hr].
Qed.

Definition with_macro (env : eenv) (n : string) (v : Z) : eenv := {| macros := (n, ENum v) :: macros env; eloc := eloc env |}.

Lemma rho_with_macro env n v : n <> "$"%string -> forall s, rho_env (with_macro env n v) s = bind (rho_env env) n v s.
Proof.
  intros Hn s. unfold rho_env, bind, with_macro. cbn [macros eloc lookup].
  destruct (String.eqb s "$") eqn:Ed.
  - apply String.eqb_eq in Ed. subst s. destruct (String.eqb "$" n) eqn:E2; [apply String.eqb_eq in E2; congruence | reflexivity].
  - destruct (String.eqb s n); reflexivity.
Qed.

Theorem equ_transparent_in_model env n d v e w :
  env_ok env -> n <> "$"%string -> lits_ok d -> lits_ok e ->
  aeval (rho_env env) d = Some v ->
  aeval (rho_env env) (subst n d e) = Some w ->
  eval_top (with_macro env n v) e = Ev (ENum w) true /\ eval_top env (subst n d e) = Ev (ENum w) true.
Proof.
  intros Hok Hn Hd He Hv Hw. split.
  - apply eval_const_correct.
    + destruct Hok as [Hl Hm]. split; [exact Hl|]. intros s x Hs. unfold with_macro in Hs. cbn [macros lookup] in Hs.
      destruct (String.eqb s n); [|exact (Hm s x Hs)]. inversion Hs; subst x.
      exact (aeval_range env (conj Hl Hm) (esize d) d v (le_n _) Hd Hv).
    + unfold eval_fuel. lia.
    + exact He.
    + rewrite (aeval_ext _ _ (rho_with_macro env n v Hn) (esize e) e (le_n _)).
      rewrite (aeval_subst (rho_env env) n d v Hv (fun _ => eq_refl) (esize e) e (le_n _)). exact Hw.
  - apply eval_const_correct; [exact Hok | unfold eval_fuel; lia | exact (lits_subst n d Hd (esize e) e (le_n _) He) | exact Hw].
Qed.

(** ---- chains of definitions ---- *)

(** a sequence of EQU definitions, each evaluated where it stands (it may use the names defined before it) *)
Fixpoint bind_all (rho : env) (defs : list (string * exp)) : option env :=
  match defs with
  | [] => Some rho
  | (n, d) :: r => match aeval rho d with Some v => bind_all (bind rho n v) r | None => None end
  end.

(** inlining them all, innermost (latest) first *)
Fixpoint subst_all (defs : list (string * exp)) (e : exp) : exp :=
  match defs with
  | [] => e
  | (n, d) :: r => subst n d (subst_all r e)
  end.

Theorem equ_chain_transparent : forall defs rho rho' e, bind_all rho defs = Some rho' ->
  aeval rho' e = aeval rho (subst_all defs e).
Proof.
  induction defs as [|[n d] r IH]; intros rho rho' e H; cbn [bind_all subst_all] in *.
  - inversion H; subst. reflexivity.
  - destruct (aeval rho d) as [v|] eqn:Ed; [|discriminate].
    rewrite (IH _ _ e H).
    exact (aeval_subst rho n d v Ed (fun _ => eq_refl) (esize (subst_all r e)) (subst_all r e) (le_n _)).
Qed.
