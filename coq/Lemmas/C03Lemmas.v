(** C03: the location counter equals origin + bytes emitted, by induction over statement sequences
    (data/label fragment), plus the size-agreement facts for the hand-written emitters. *)
From Coq Require Import List ZArith String Bool Lia.
From Gosk Require Import Base.Bytes Model.Ast Model.Eval Model.Asm Spec.Data Generated.Tables
     Lemmas.DataLemmas Lemmas.C05Lemmas Lemmas.AsmLemmas.
Import ListNotations.
Local Open Scope list_scope.
Local Open Scope Z_scope.

(* bytes of a data ocode, independent of mode, symbol table, origin and position *)
Definition obytes (o : ocode) : option (list byte) :=
  match o with
  | OData w vals => Some (flat_map (le w) vals)
  | OResb n => if n <? 0 then None else Some (zeros n)
  | _ => None
  end.

Fixpoint all_bytes (os : list ocode) : option (list byte) :=
  match os with
  | [] => Some []
  | o :: r => match obytes o, all_bytes r with Some a, Some b => Some (a ++ b) | _, _ => None end
  end.

Lemma all_bytes_app a b x y : all_bytes a = Some x -> all_bytes b = Some y -> all_bytes (a ++ b) = Some (x ++ y).
Proof.
  revert x. induction a as [|o r IH]; intros x Ha Hb; cbn [all_bytes app] in *.
  - inversion Ha; subst. exact Hb.
  - destruct (obytes o) as [ob|]; [|discriminate]. destruct (all_bytes r) as [rb|] eqn:Er; [|discriminate].
    inversion Ha; subst. rewrite (IH rb eq_refl Hb). now rewrite app_assoc.
Qed.

Section E.
Variable E : encoder.

(* what codegen does with a list of data ocodes: exactly their bytes, appended *)
Lemma codegen_data m st dol : forall os acc d bs, all_bytes os = Some bs -> codegen E m st dol acc d os = GOk (acc ++ bs) d.
Proof.
  induction os as [|o r IH]; intros acc d bs H; cbn [all_bytes] in H.
  - inversion H; subst. cbn [codegen]. now rewrite app_nil_r.
  - destruct (obytes o) as [ob|] eqn:Eo; [|discriminate]. destruct (all_bytes r) as [rb|] eqn:Er; [|discriminate].
    inversion H; subst. cbn [codegen].
    destruct o; cbn [obytes] in Eo; try discriminate.
    + inversion Eo; subst. cbn [gen_ocode]. rewrite (IH _ _ rb eq_refl). now rewrite app_assoc.
    + cbn [gen_ocode]. destruct (n <? 0); [discriminate|]. inversion Eo; subst. rewrite (IH _ _ rb eq_refl). now rewrite app_assoc.
Qed.

(** the invariant: LOC = origin + number of bytes the ocodes recorded so far will emit *)
Definition Inv (org : Z) (s : p1state) : Prop :=
  exists bs, all_bytes (rev (ocodes s)) = Some bs /\ loc s = org + zlen bs /\ 0 <= loc s.

(* one statement of the fragment, after operand evaluation *)
Inductive dstep : p1state -> p1state -> Prop :=
| DLabel s l : dstep s (set_sym s l (loc s))
| DDb s ops ds : denote_all (db_denote (sym s)) ops = Some ds -> Forall dval_ok ds ->
                 loc s + zlen (spec_data 1 ds) < 2 ^ 31 -> dstep s (do_data s 1 db_operand ops)
| DDw s ops ds : denote_all (dwd_denote (sym s)) ops = Some ds ->
                 loc s + zlen (spec_data 2 ds) < 2 ^ 31 -> dstep s (do_data s 2 dw_operand ops)
| DDd s ops ds : denote_all (dwd_denote (sym s)) ops = Some ds ->
                 loc s + zlen (spec_data 4 ds) < 2 ^ 31 -> dstep s (do_data s 4 dd_operand ops)
| DResb s n : 0 <= n -> loc s + n < 2 ^ 31 -> dstep s (do_resb s [ENum n]).

Inductive dsteps : p1state -> p1state -> Prop :=
| DNil s : dsteps s s
| DCons s1 s2 s3 : dsteps s1 s2 -> dstep s2 s3 -> dsteps s1 s3.

Lemma inv_data org s w f ops ds :
  Inv org s -> data_stmt_spec E w f s ops ds -> loc s + zlen (spec_data w ds) < 2 ^ 31 -> Inv org (do_data s w f ops).
Proof.
  intros [bs [Hb [Hl H0]]] [vals [Ho [Hg [_ [Hloc _]]]]] Hov.
  exists (bs ++ spec_data w ds). rewrite Ho. cbn [rev].
  assert (Hob : obytes (OData w vals) = Some (spec_data w ds)).
  { specialize (Hg M16 [] 0 0). cbn [gen_ocode] in Hg. inversion Hg as [Hg']. cbn [obytes]. now rewrite Hg'. }
  split; [|split].
  - apply all_bytes_app; [exact Hb|]. cbn [all_bytes]. rewrite Hob. now rewrite app_nil_r.
  - rewrite Hloc, zlen_app. pose proof (zlen_nonneg (spec_data w ds)). rewrite int32_id by lia. lia.
  - rewrite Hloc. pose proof (zlen_nonneg (spec_data w ds)). rewrite int32_id by lia. lia.
Qed.

Lemma inv_step org s s' : Inv org s -> dstep s s' -> Inv org s'.
Proof.
  intros HI H. destruct H as [s l|s ops ds Hd Hok Hov|s ops ds Hd Hov|s ops ds Hd Hov|s n Hn Hov].
  - destruct HI as [bs [Hb [Hl H0]]]. exists bs. cbn [set_sym ocodes loc]. auto.
  - exact (inv_data org s 1%nat db_operand ops ds HI (db_stmt E s ops ds Hd Hok) Hov).
  - exact (inv_data org s 2%nat dw_operand ops ds HI (dw_stmt E s ops ds Hd) Hov).
  - exact (inv_data org s 4%nat dd_operand ops ds HI (dd_stmt E s ops ds Hd) Hov).
  - destruct HI as [bs [Hb [Hl H0]]].
    assert (Hlt : (n <? 0) = false) by (apply Z.ltb_ge; lia).
    cbn [do_resb]. rewrite Hlt. cbn [push_ocode add_loc set_loc ocodes loc rev].
    exists (bs ++ zeros n). cbn [push_ocode add_loc set_loc ocodes loc rev]. split; [|split].
    + apply all_bytes_app; [exact Hb|]. cbn [all_bytes obytes]. rewrite Hlt. now rewrite app_nil_r.
    + rewrite (int32_id n) by lia. rewrite zlen_app. unfold zlen at 2. unfold zeros. rewrite repeat_length, Z2Nat.id by lia.
      rewrite int32_id by lia. lia.
    + rewrite (int32_id n) by lia. rewrite int32_id by lia. lia.
Qed.

Theorem inv_steps org s s' : Inv org s -> dsteps s s' -> Inv org s'.
Proof. intros HI H. induction H as [s|s1 s2 s3 H12 IH H23]; [exact HI|]. eapply inv_step; [apply IH; exact HI | exact H23]. Qed.

(** hence every label defined along the way holds origin + the number of bytes really emitted before it,
    and the final image has exactly LOC - origin bytes *)
Theorem label_is_offset org s0 s l : Inv org s0 -> dsteps s0 s ->
  exists bs, all_bytes (rev (ocodes s)) = Some bs /\ lookup l (sym (set_sym s l (loc s))) = Some (org + zlen bs).
Proof.
  intros HI H. destruct (inv_steps org s0 s HI H) as [bs [Hb [Hl _]]].
  exists bs. split; [exact Hb|]. cbn [set_sym sym lookup]. rewrite String.eqb_refl, Hl. reflexivity.
Qed.

Theorem total_length org s0 s m st dol d : Inv org s0 -> dsteps s0 s ->
  exists bs, codegen E m st dol [] d (rev (ocodes s)) = GOk bs d /\ loc s = org + zlen bs.
Proof.
  intros HI H. destruct (inv_steps org s0 s HI H) as [bs [Hb [Hl _]]].
  exists bs. split; [|exact Hl]. rewrite (codegen_data m st dol _ [] d bs Hb). reflexivity.
Qed.

End E.

Lemma inv_init : Inv 0 init_state.
Proof. exists []. cbn. repeat split; lia. Qed.

(** size agreement of the hand-written emitters (estimate of pass 1 = bytes of codegen) *)
Lemma size_jmp_short16 rel : -126 <= rel <= 129 -> zlen (gen_jmp M16 rel) = estimate_jump "JMP" M16.
Proof.
  intros H. unfold gen_jmp, jump_form, offset_size.
  replace ((-128 <=? rel - 2) && (rel - 2 <=? 127)) with true by (symmetry; apply andb_true_intro; split; apply Z.leb_le; lia). reflexivity.
Qed.
Lemma size_jcc_short16 opc rel name : -126 <= rel <= 129 -> name <> "CALL"%string -> zlen (gen_jcc M16 opc rel) = estimate_jump name M16.
Proof.
  intros H Hn. unfold gen_jcc, jump_form, offset_size, estimate_jump.
  replace ((-128 <=? rel - 2) && (rel - 2 <=? 127)) with true by (symmetry; apply andb_true_intro; split; apply Z.leb_le; lia).
  apply String.eqb_neq in Hn. rewrite Hn. reflexivity.
Qed.
Lemma size_call16 rel : -32768 <= rel - 3 <= 32767 -> zlen (gen_call M16 rel) = estimate_jump "CALL" M16.
Proof.
  intros H. unfold gen_call.
  replace ((-32768 <=? rel - 3) && (rel - 3 <=? 32767)) with true by (symmetry; apply andb_true_intro; split; apply Z.leb_le; lia).
  unfold zlen. cbn [Datatypes.length]. rewrite le_length. reflexivity.
Qed.
(* 32-bit mode: the rel32 forms have exactly the sizes pass 1 reserves, for EVERY distance (since the fix in /repo) *)
Lemma size_jmp32 rel : zlen (gen_jmp M32 rel) = estimate_jump "JMP" M32.
Proof. unfold gen_jmp, jump_form, zlen. cbn [Datatypes.length]. rewrite le_length. reflexivity. Qed.
Lemma size_call32 rel : zlen (gen_call M32 rel) = estimate_jump "CALL" M32.
Proof. unfold gen_call, zlen. cbn [Datatypes.length]. rewrite le_length. reflexivity. Qed.
Lemma size_jcc32 opc rel name : name <> "JMP"%string -> name <> "CALL"%string -> zlen (gen_jcc M32 opc rel) = estimate_jump name M32.
Proof.
  intros H1 H2. unfold gen_jcc, jump_form, estimate_jump, zlen. cbn [Datatypes.length]. rewrite le_length.
  apply String.eqb_neq in H1. apply String.eqb_neq in H2. rewrite H1, H2. reflexivity.
Qed.
(* the disagreement behind finding C04-bits16-forward-beyond-short / C03 drift *)
Lemma size_jmp16_refuted : exists rel, zlen (gen_jmp M16 rel) <> estimate_jump "JMP" M16.
Proof. exists 130. vm_compute. congruence. Qed.

(** INT n: the size pass 1 adds to LOC is the number of bytes codegen emits, for every vector 0..255
    (INT 3 is the one-byte CC on both sides since fix 1a62747; before it this was refuted at n = 3) *)
Lemma size_int E m st dol len (s : p1state) v : 0 <= v <= 255 -> loc s + 2 < 2 ^ 31 -> - 2 ^ 31 <= loc s ->
  exists bs, gen_ocode E m st dol len (OInt (Some v)) = Bytes bs
             /\ ocodes (do_int s [ENum v]) = OInt (Some v) :: ocodes s
             /\ loc (do_int s [ENum v]) = loc s + zlen bs.
Proof.
  intros Hv Hhi Hlo. cbn [gen_ocode do_int get_const].
  assert (Hin : in_range 0 255 v = true) by (unfold in_range; apply andb_true_intro; split; apply Z.leb_le; lia).
  destruct (v =? 3) eqn:E3.
  - apply Z.eqb_eq in E3. subst v. eexists. split; [reflexivity|]. split; [reflexivity|].
    cbn [push_ocode add_loc set_loc loc zlen Datatypes.length Z.of_nat Pos.of_succ_nat]. apply int32_id. lia.
  - rewrite Hin. eexists. split; [reflexivity|]. split; [destruct v as [|p|p]; try reflexivity; destruct p as [[|[|]]|[|[|]]|]; try reflexivity|].
    assert (Hsz : (match v with 3 => 1 | _ => 2 end) = 2).
    { apply Z.eqb_neq in E3. destruct v as [|p|p]; try reflexivity. destruct p as [[| |]|[| |]|]; try reflexivity. congruence. }
    destruct v as [|p|p].
    + cbn [push_ocode add_loc set_loc loc zlen Datatypes.length Z.of_nat Pos.of_succ_nat]. apply int32_id. lia.
    + cbn [push_ocode add_loc set_loc loc]. rewrite Hsz. cbn [zlen Datatypes.length Z.of_nat Pos.of_succ_nat Pos.succ]. apply int32_id. lia.
    + lia.
Qed.
