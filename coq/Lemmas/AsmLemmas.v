(** Structural lemmas about Model/Asm.v used by C03, C13, C14, C16, C17. *)
From Coq Require Import List ZArith String Bool Lia.
From Gosk Require Import Base.Bytes Model.Ast Model.Eval Model.Asm Generated.Tables.
Import ListNotations.
Local Open Scope list_scope.
Local Open Scope Z_scope.

Section E.
Variable E : encoder.

(** ---------- C17: only a BITS directive changes the sizing mode ---------- *)

Lemma do_data_mode s w f ops : bmode (do_data s w f ops) = bmode s.
Proof. unfold do_data. destruct (data_operands f (sym s) ops) as [v d]. destruct d; reflexivity. Qed.
Ltac crush_match := repeat match goal with |- context [match ?x with _ => _ end] => destruct x eqn:? end; try reflexivity; cbn [bmode push_ocode add_loc set_loc set_diag set_stuck set_sym]; try congruence.

Lemma do_resb_mode s ops : bmode (do_resb s ops) = bmode s.
Proof. unfold do_resb. crush_match. Qed.
Lemma do_alignb_mode s ops : bmode (do_alignb s ops) = bmode s.
Proof. unfold do_alignb. crush_match. Qed.
Lemma do_org_mode s ops : bmode (do_org s ops) = bmode s.
Proof. unfold do_org. crush_match. Qed.
Lemma do_int_mode s ops : bmode (do_int s ops) = bmode s.
Proof. unfold do_int. crush_match. Qed.
Lemma emit_mode s n o : bmode (emit s n o) = bmode s.
Proof. unfold emit. destruct (kind_known n); reflexivity. Qed.
Lemma do_jcc_mode s n ops : bmode (do_jcc s n ops) = bmode s.
Proof. unfold do_jcc. crush_match. Qed.

Lemma do_mnemonic_mode s op ops : bmode (do_mnemonic E s op ops) = bmode s.
Proof.
  unfold do_mnemonic. destruct (handler_of op) as [h|]; [|reflexivity].
  repeat match goal with |- context [if String.eqb ?a ?b then _ else _] => destruct (String.eqb a b) end;
    try apply do_data_mode; try apply do_resb_mode; try apply do_alignb_mode; try apply do_org_mode;
    try apply do_jcc_mode; try apply do_int_mode; try (rewrite emit_mode; reflexivity).
  destruct (enc_unmodelled E (bmode s) op ops); [reflexivity|].
  destruct (enc_est E (bmode s) op ops); [|reflexivity].
  unfold with_diag. destruct (enc_diag E (bmode s) op ops); destruct (enc_kind_ok E op); reflexivity.
Qed.

Definition is_bits (st : stmt) : option mode :=
  match st with SConfig CBits f => bits_of f | _ => None end.

Lemma step_mode s st : stuck s = false ->
  bmode (step E s st) = match is_bits st with Some m => m | None => bmode s end.
Proof.
  intros Hs. unfold step. rewrite Hs.
  destruct st as [l|n e|l|l|c f|op ops|op]; cbn [is_bits]; try reflexivity.
  - destruct (eval_top (env_of s) e) as [e0 r0|]; [destruct (equ_reaches _ _ n e0)|]; reflexivity.
  - destruct c; try reflexivity.
    + destruct (bits_of f); reflexivity.
    + destruct f; reflexivity.
    + destruct f; reflexivity.
    + destruct f; reflexivity.
  - destruct (eval_operands (env_of s) ops); [apply do_mnemonic_mode | reflexivity].
  - apply do_mnemonic_mode.
Qed.

(** ---------- C14 / C16: what an ocode's bytes depend on ---------- *)

Definition pos_indep (o : ocode) : bool :=
  match o with OAlignb _ | OJcc _ _ _ => false | _ => true end.

Lemma gen_pos_indep m st dol len dol' len' o : pos_indep o = true ->
  gen_ocode E m st dol len o = gen_ocode E m st dol' len' o.
Proof. destruct o; cbn [pos_indep]; try discriminate; reflexivity. Qed.

(* the emission fold only appends *)
Lemma codegen_prefix m st dol os : forall acc d bs d',
  codegen E m st dol acc d os = GOk bs d' -> exists tail, bs = acc ++ tail.
Proof.
  induction os as [|o r IH]; intros acc d bs d' H; cbn [codegen] in H.
  - inversion H; subst. exists []. now rewrite app_nil_r.
  - destruct (gen_ocode E m st dol (zlen acc) o) as [b|b| |]; try discriminate;
      destruct (IH _ _ _ _ H) as [t Ht]; exists (b ++ t); rewrite Ht, app_assoc; reflexivity.
Qed.

Fixpoint flat_gen (m : mode) (st : symtab) (os : list ocode) : option (list byte * bool) :=
  match os with
  | [] => Some ([], false)
  | o :: r =>
      match gen_ocode E m st 0 0 o, flat_gen m st r with
      | Bytes b, Some (bs, d) => Some (b ++ bs, d)
      | BytesDiag b, Some (bs, d) => Some (b ++ bs, true)
      | _, _ => None
      end
  end.

Lemma codegen_indep m st dol : forall os acc d bs dd,
  forallb pos_indep os = true -> flat_gen m st os = Some (bs, dd) ->
  codegen E m st dol acc d os = GOk (acc ++ bs) (d || dd).
Proof.
  induction os as [|o r IH]; intros acc d bs dd Hp Hf; cbn [flat_gen] in Hf.
  - inversion Hf; subst. cbn [codegen]. now rewrite app_nil_r, orb_false_r.
  - cbn [forallb] in Hp. apply andb_prop in Hp as [Ho Hr]. cbn [codegen].
    rewrite (gen_pos_indep m st dol (zlen acc) 0 0 o Ho).
    destruct (gen_ocode E m st 0 0 o) as [b|b| |]; try discriminate.
    + destruct (flat_gen m st r) as [[bs1 d1]|] eqn:Er; [|discriminate].
      inversion Hf; subst bs dd. rewrite (IH (acc ++ b) d bs1 d1 Hr eq_refl). now rewrite app_assoc.
    + destruct (flat_gen m st r) as [[bs1 d1]|] eqn:Er; [|discriminate].
      inversion Hf; subst bs dd. rewrite (IH (acc ++ b) true bs1 d1 Hr eq_refl). rewrite app_assoc. f_equal.
      now rewrite orb_true_r.
Qed.

Lemma flat_gen_app m st os1 os2 b1 d1 b2 d2 :
  flat_gen m st os1 = Some (b1, d1) -> flat_gen m st os2 = Some (b2, d2) ->
  flat_gen m st (os1 ++ os2) = Some (b1 ++ b2, d1 || d2).
Proof.
  revert b1 d1. induction os1 as [|o r IH]; intros b1 d1 H1 H2; cbn [flat_gen app] in *.
  - inversion H1; subst. exact H2.
  - destruct (gen_ocode E m st 0 0 o) as [b|b| |]; try discriminate.
    + destruct (flat_gen m st r) as [[bs1 dd1]|] eqn:Er; [|discriminate].
      inversion H1; subst b1 d1. rewrite (IH bs1 dd1 eq_refl H2). now rewrite app_assoc.
    + destruct (flat_gen m st r) as [[bs1 dd1]|] eqn:Er; [|discriminate].
      inversion H1; subst b1 d1. rewrite (IH bs1 dd1 eq_refl H2). now rewrite app_assoc.
Qed.

(** ---------- C13: where a panic can come from ---------- *)

Lemma codegen_no_panic m st dol :
  (forall md s mn ops, enc_emit E md s mn ops <> EPanic) ->
  forall os acc d, codegen E m st dol acc d os <> GPanic.
Proof.
  intros HE. induction os as [|o r IH]; intros acc d; cbn [codegen]; [discriminate|].
  destruct (gen_ocode E m st dol (zlen acc) o) eqn:G; try (apply IH); try discriminate.
  exfalso. destruct o; cbn [gen_ocode] in G; try discriminate.
  - destruct (n <? 0); discriminate.
  - destruct ((n <=? 0) || negb (Z.land n (n - 1) =? 0)); discriminate.
  - destruct t; try discriminate.
    + destruct (lookup s st); [|discriminate].
      destruct (String.eqb name "JMP"); [discriminate|]. destruct (String.eqb name "CALL"); [discriminate|].
      destruct (lookup name jcc_table); discriminate.
    + destruct (String.eqb name "JMP"); [discriminate|]. destruct (String.eqb name "CALL"); [discriminate|].
      destruct (lookup name jcc_table); discriminate.
  - destruct (in_range (-32768) 32767 seg && in_range (-2147483648) 2147483647 off); discriminate.
  - destruct (lookup name noparam_table); discriminate.
  - destruct v as [z|]; [destruct (z =? 3); [discriminate|]; destruct (in_range 0 255 z); discriminate | discriminate].
  - apply (HE _ _ _ _ G).
Qed.

(** C17: which mode an ocode recorded by one statement carries *)
Definition ocode_mode (o : ocode) : option mode :=
  match o with OInstr md _ _ | OJcc md _ _ | OJmpFar md _ _ => Some md | _ => None end.

Definition records (s s' : p1state) : Prop :=
  forall o, In o (ocodes s') -> In o (ocodes s) \/ ocode_mode o = None \/ ocode_mode o = Some (bmode s).

Lemma records_same s s' : ocodes s' = ocodes s -> records s s'.
Proof. intros H o Ho. left. rewrite <- H. exact Ho. Qed.

Lemma records_push s s1 o : ocodes s1 = ocodes s -> (ocode_mode o = None \/ ocode_mode o = Some (bmode s)) -> records s (push_ocode s1 o).
Proof. intros H Hm x Hx. cbn [push_ocode ocodes] in Hx. destruct Hx as [<-|Hx]; [right; exact Hm | left; rewrite <- H; exact Hx]. Qed.

Lemma ocodes_with_diag s d : ocodes (with_diag s d) = ocodes s.
Proof. unfold with_diag. destruct d; reflexivity. Qed.

Lemma mnemonic_records_mode s op ops : records s (do_mnemonic E s op ops).
Proof.
  unfold do_mnemonic. destruct (handler_of op) as [h|]; [|apply records_same; reflexivity].
  repeat match goal with |- records _ (if ?c then _ else _) => destruct c end.
  - unfold do_data. destruct (data_operands db_operand (sym s) ops) as [vals d]. apply records_push; [cbn [add_loc set_loc ocodes]; apply ocodes_with_diag | left; reflexivity].
  - unfold do_data. destruct (data_operands dw_operand (sym s) ops) as [vals d]. apply records_push; [cbn [add_loc set_loc ocodes]; apply ocodes_with_diag | left; reflexivity].
  - unfold do_data. destruct (data_operands dd_operand (sym s) ops) as [vals d]. apply records_push; [cbn [add_loc set_loc ocodes]; apply ocodes_with_diag | left; reflexivity].
  - unfold do_resb. destruct ops as [|[] [|]]; try (apply records_same; reflexivity).
    destruct (z <? 0); [apply records_same; reflexivity | apply records_push; [reflexivity | left; reflexivity]].
  - unfold do_alignb. destruct ops as [|[] [|]]; try (apply records_same; reflexivity).
    destruct (int32 z <=? 0); [apply records_same; reflexivity | apply records_push; [reflexivity | left; reflexivity]].
  - unfold do_org. destruct ops as [|[] [|]]; apply records_same; reflexivity.
  - unfold do_jcc. destruct ops as [|o1 [|]]; try (apply records_same; reflexivity).
    destruct (eval_top (env_of s) o1) as [e r|]; [|apply records_same; reflexivity].
    destruct e as [f|z|eh et|eh et|dt jt l r0|dt l r0]; try (apply records_push; [reflexivity | right; reflexivity]).
    + destruct f; try (apply records_push; [reflexivity | right; reflexivity]).
      apply records_push; [destruct (sym_has s0 (sym s)); reflexivity | right; reflexivity].
    + destruct r0 as [r1|]; [|apply records_push; [reflexivity | right; reflexivity]].
      destruct (if far_dt_ok dt then seg_num l else None), (seg_num r1); destruct (String.eqb op "JMP");
        try (apply records_push; [reflexivity | first [right; reflexivity | left; reflexivity]]); apply records_same; reflexivity.
  - unfold do_jcc. destruct ops as [|o1 [|]]; try (apply records_same; reflexivity).
    destruct (eval_top (env_of s) o1) as [e r|]; [|apply records_same; reflexivity].
    destruct e as [f|z|eh et|eh et|dt jt l r0|dt l r0]; try (apply records_push; [reflexivity | right; reflexivity]).
    + destruct f; try (apply records_push; [reflexivity | right; reflexivity]).
      apply records_push; [destruct (sym_has s0 (sym s)); reflexivity | right; reflexivity].
    + destruct r0 as [r1|]; [|apply records_push; [reflexivity | right; reflexivity]].
      destruct (if far_dt_ok dt then seg_num l else None), (seg_num r1); cbn [String.eqb Ascii.eqb Bool.eqb];
        try (apply records_push; [reflexivity | first [right; reflexivity | left; reflexivity]]); apply records_same; reflexivity.
  - unfold emit. destruct (kind_known op); [apply records_push; [reflexivity | left; reflexivity] | apply records_same; reflexivity].
  - unfold emit. destruct (kind_known "RET"); [apply records_push; [reflexivity | left; reflexivity] | apply records_same; reflexivity].
  - unfold do_int. destruct ops as [|o1 [|]]; try (apply records_same; reflexivity). apply records_push; [reflexivity | left; reflexivity].
  - apply records_push; [reflexivity | left; reflexivity].
  - destruct (enc_est E (bmode s) op ops) as [n|]; [|apply records_same; reflexivity].
    cbn zeta. destruct (enc_kind_ok E op).
    + apply records_push; [cbn [add_loc set_loc ocodes]; apply ocodes_with_diag | right; reflexivity].
    + apply records_same. cbn [set_diag add_loc set_loc ocodes]. apply ocodes_with_diag.
Qed.

End E.

(** ---------- C16: relocation of a branch and of a data field ---------- *)

Definition shift_sym (delta : Z) (st : symtab) : symtab := map (fun kv => (fst kv, snd kv + delta)) st.

Lemma lookup_shift delta l st : lookup l (shift_sym delta st) = option_map (fun a => a + delta) (lookup l st).
Proof.
  induction st as [|[k v] r IH]; [reflexivity|]. cbn [shift_sym map lookup fst snd].
  destruct (String.eqb l k); [reflexivity | exact IH].
Qed.

Lemma gen_branch_reloc E m md st dol len delta name l :
  gen_ocode E m (shift_sym delta st) (dol + delta) len (OJcc md name (JLabel l)) = gen_ocode E m st dol len (OJcc md name (JLabel l)).
Proof.
  cbn [gen_ocode]. rewrite lookup_shift. destruct (lookup l st) as [a|]; [|reflexivity]. cbn [option_map].
  replace (a + delta - (dol + delta + len)) with (a - (dol + len)) by lia. reflexivity.
Qed.
