(** C04 in the image: whatever else a program contains, the bytes that the emission fold writes for a JMP / Jcc / CALL to
    a label sit in the final image at the position the fold had reached, and decode there - under the ISA branch decoder -
    to a branch of the named kind that transfers control to the value the symbol table holds for the label.  Together with
    C03 (that value is the label's real offset whenever the sizes agree) this is the property for whole programs. *)
From Coq Require Import List ZArith String Bool Lia.
From Gosk Require Import Base.Bytes Model.Ast Model.Eval Model.Asm Spec.Branch Generated.Tables Lemmas.AsmLemmas Lemmas.BranchLemmas.
Import ListNotations.
Local Open Scope string_scope.
Local Open Scope list_scope.
Local Open Scope Z_scope.

Section Image.
Variable E : encoder.

Lemma codegen_split m st dol o os2 : forall os1 acc d bs d',
  codegen E m st dol acc d (os1 ++ o :: os2) = GOk bs d' ->
  exists b1 d1 b rest, codegen E m st dol acc d os1 = GOk b1 d1
    /\ (gen_ocode E m st dol (zlen b1) o = Bytes b \/ gen_ocode E m st dol (zlen b1) o = BytesDiag b)
    /\ bs = b1 ++ b ++ rest.
Proof.
  induction os1 as [|x r IH]; intros acc d bs d' H; cbn [app codegen] in H.
  - destruct (gen_ocode E m st dol (zlen acc) o) as [b|b| |] eqn:G; try discriminate.
    + pose proof (codegen_prefix E m st dol os2 _ _ _ _ H) as [t Ht]. exists acc, d, b, t. cbn [codegen].
      repeat split; [left; exact G | rewrite Ht, app_assoc; reflexivity].
    + pose proof (codegen_prefix E m st dol os2 _ _ _ _ H) as [t Ht]. exists acc, d, b, t. cbn [codegen].
      repeat split; [right; exact G | rewrite Ht, app_assoc; reflexivity].
  - cbn [codegen]. destruct (gen_ocode E m st dol (zlen acc) x) as [b|b| |]; try discriminate; apply (IH _ _ _ _ H).
Qed.

Definition kind_of (name : string) : option bkind :=
  if String.eqb name "JMP" then Some BJmp else if String.eqb name "CALL" then Some BCall
  else match lookup name jcc_table with Some opc => Some (BJcc (opc - 112)) | None => None end.

Theorem image_branch_lands m st dol os1 md name l os2 bs d dest k :
  codegen E m st dol [] false (os1 ++ OJcc md name (JLabel l) :: os2) = GOk bs d ->
  lookup l st = Some dest -> kind_of name = Some k ->
  (name = "JMP" \/ name = "CALL" \/ In name jcc_names) ->
  exists b1 d1 b rest, codegen E m st dol [] false os1 = GOk b1 d1 /\ bs = b1 ++ b ++ rest /\
    let addr := dol + zlen b1 in let rel := dest - addr in
    (- 2 ^ 31 + 7 <= rel < 2 ^ 31 -> ~ (-32768 <= rel - 2 <= -32767) -> lands md k addr dest b rest).
Proof.
  intros H Hl Hk Hn.
  destruct (codegen_split m st dol _ os2 os1 [] false bs d H) as [b1 [d1 [b [rest [H1 [Hg Hb]]]]]].
  exists b1, d1, b, rest. repeat split; [exact H1 | exact Hb |].
  intros addr rel Hr Hw. cbn [gen_ocode] in Hg. rewrite Hl in Hg. fold addr in Hg. fold rel in Hg.
  unfold kind_of in Hk.
  destruct (String.eqb name "JMP") eqn:EJ.
  - inversion Hk; subst k. destruct Hg as [Hg|Hg]; [|discriminate]. inversion Hg; subst b.
    apply (jmp_total_lands md addr dest rest); fold rel; lia.
  - destruct (String.eqb name "CALL") eqn:EC.
    + inversion Hk; subst k. destruct Hg as [Hg|Hg]; [|discriminate]. inversion Hg; subst b.
      apply (call_total_lands md addr dest rest); fold rel; lia.
    + destruct Hn as [Hn|[Hn|Hn]]; [subst name; discriminate EJ | subst name; discriminate EC |].
      destruct (cc_table_sound name Hn) as [opc [c [Ho [_ [_ Hin]]]]]. rewrite Ho in Hk, Hg.
      inversion Hk; subst k. destruct Hg as [Hg|Hg]; [|discriminate]. inversion Hg; subst b.
      apply (jcc_total_lands md opc addr dest rest Hin); fold rel; [lia | exact Hw].
Qed.
End Image.
