From Coq Require Import List ZArith String Bool Lia.
From Gosk Require Import Base.Bytes Model.Ast Model.Eval Model.Asm Spec.Arith Lemmas.EvalLemmas.
Import ListNotations.
Local Open Scope list_scope.
Local Open Scope Z_scope.

(** renaming of symbol-table keys *)
Definition rename_sym {A} (f : string -> string) (st : list (string * A)) : list (string * A) :=
  map (fun kv => (f (fst kv), snd kv)) st.

Lemma lookup_rename {A} (f : string -> string) (st : list (string * A)) l :
  (forall k, In k (map fst st) -> f k = f l -> k = l) ->
  lookup (f l) (rename_sym f st) = lookup l st.
Proof.
  induction st as [|[k v] r IH]; intros Hinj; [reflexivity|].
  cbn [rename_sym map lookup fst snd].
  destruct (String.eqb l k) eqn:E.
  - apply String.eqb_eq in E. subst k. rewrite String.eqb_refl. reflexivity.
  - destruct (String.eqb (f l) (f k)) eqn:E2.
    + apply String.eqb_eq in E2. exfalso. apply String.eqb_neq in E. apply E. symmetry. apply Hinj; [left; reflexivity | now symmetry].
    + apply IH. intros k' Hk'. apply Hinj. right. exact Hk'.
Qed.

Definition rename_ocode (f : string -> string) (o : ocode) : ocode :=
  match o with
  | OJcc md n (JLabel l) => OJcc md n (JLabel (f l))
  | _ => o
  end.

(* branches and data: same bytes under a consistent injective renaming of the symbol table *)
Lemma gen_rename E m st dol len f o :
  (forall l k, In k (map fst st) -> f k = f l -> k = l) ->
  match o with OInstr _ _ _ => False | _ => True end ->
  gen_ocode E m (rename_sym f st) dol len (rename_ocode f o) = gen_ocode E m st dol len o.
Proof.
  intros Hinj Hno. destruct o; cbn [rename_ocode gen_ocode]; try reflexivity; try contradiction.
  destruct t; cbn [gen_ocode]; try reflexivity.
  rewrite lookup_rename by (intros k Hk; apply Hinj; exact Hk). reflexivity.
Qed.

(** EQU transparency at the level of the arithmetic specification: a name bound to the value of
    [d] behaves like the expression [d] itself (substitution lemma) *)
Definition bind (rho : env) (n : string) (v : Z) : env := fun s => if String.eqb s n then Some v else rho s.

Fixpoint subst (n : string) (d : exp) (e : exp) {struct e} : exp :=
  match e with
  | EImm (FId s) => if String.eqb s n then d else e
  | EImm _ | ENum _ => e
  | EAdd h t => EAdd (subst n d h) (map (fun x => (fst x, subst n d (snd x))) t)
  | EMul h t => EMul (subst n d h) (map (fun x => (fst x, subst n d (snd x))) t)
  | EMem dt jt l r => EMem dt jt (subst n d l) (option_map (subst n d) r)
  | ESeg dt l r => ESeg dt (subst n d l) (option_map (subst n d) r)
  end.

Lemma go_add_ext (f g : exp -> option Z) t : (forall x, In x t -> f (snd x) = g (snd x)) ->
  forall acc, go_add f acc t = go_add g acc t.
Proof.
  induction t as [|[o x] r IH]; intros H acc; [reflexivity|]. cbn [go_add].
  pose proof (H (o, x) (or_introl eq_refl)) as Hx. cbn [snd] in Hx. rewrite Hx. destruct (g x); [|reflexivity].
  apply IH. intros y Hy. apply H. right; exact Hy.
Qed.
Lemma go_mul_ext (f g : exp -> option Z) t : (forall x, In x t -> f (snd x) = g (snd x)) ->
  forall acc, go_mul f acc t = go_mul g acc t.
Proof.
  induction t as [|[o x] r IH]; intros H acc; [reflexivity|]. cbn [go_mul].
  pose proof (H (o, x) (or_introl eq_refl)) as Hx. cbn [snd] in Hx. rewrite Hx. destruct (g x); [|reflexivity].
  destruct (app_mul acc o z); [|reflexivity]. apply IH. intros y Hy. apply H. right; exact Hy.
Qed.
Lemma go_add_map (f : exp -> option Z) (h : exp -> exp) t acc :
  go_add f acc (map (fun x => (fst x, h (snd x))) t) = go_add (fun e => f (h e)) acc t.
Proof. revert acc; induction t as [|[o x] r IH]; intros acc; [reflexivity|]. cbn [map go_add fst snd]. destruct (f (h x)); [apply IH|reflexivity]. Qed.
Lemma go_mul_map (f : exp -> option Z) (h : exp -> exp) t acc :
  go_mul f acc (map (fun x => (fst x, h (snd x))) t) = go_mul (fun e => f (h e)) acc t.
Proof.
  revert acc; induction t as [|[o x] r IH]; intros acc; [reflexivity|]. cbn [map go_mul fst snd].
  destruct (f (h x)); [|reflexivity]. destruct (app_mul acc o z); [apply IH|reflexivity].
Qed.

Theorem aeval_subst rho n d v : aeval rho d = Some v -> (forall s, rho s = rho s) ->
  forall k e, (esize e <= k)%nat -> aeval (bind rho n v) e = aeval rho (subst n d e).
Proof.
  intros Hd _. induction k as [|k IH]; intros e Hk; [destruct e; cbn [esize] in Hk; lia|].
  destruct e as [f|z|h t|h t|dt jt l r|dt l r].
  - destruct f as [z|z|s|bs|bs]; try reflexivity.
    cbn [subst aeval]. unfold bind. destruct (String.eqb s n); [now rewrite Hd | reflexivity].
  - reflexivity.
  - cbn [subst]. rewrite !aeval_add. cbn [esize] in Hk. fold (tail_size t) in Hk.
    rewrite (IH h) by lia. destruct (aeval rho (subst n d h)); [|reflexivity].
    rewrite go_add_map. apply go_add_ext. intros x Hx. apply IH. pose proof (tail_size_in t x Hx). lia.
  - cbn [subst]. rewrite !aeval_mul. cbn [esize] in Hk. fold (tail_size t) in Hk.
    rewrite (IH h) by lia. destruct (aeval rho (subst n d h)); [|reflexivity].
    rewrite go_mul_map. apply go_mul_ext. intros x Hx. apply IH. pose proof (tail_size_in t x Hx). lia.
  - reflexivity.
  - reflexivity.
Qed.
