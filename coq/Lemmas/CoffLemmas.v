From Coq Require Import List ZArith String Bool Lia Permutation Sorting.Sorted.
From Gosk Require Import Base.Bytes Model.Ast Model.Eval Model.Coff.
Import ListNotations.
Local Open Scope list_scope.
Local Open Scope Z_scope.

(** the comparator of generateSymbolEntries is the strict lexicographic order on (undefined?, value) *)
Definition ukey (a : sym_entry) : Z := if se_section a =? 0 then 1 else 0.
Definition lexlt (a b : sym_entry) : Prop := ukey a < ukey b \/ (ukey a = ukey b /\ se_value a < se_value b).

Lemma sym_less_spec a b : sym_less a b = true <-> lexlt a b.
Proof.
  unfold sym_less, lexlt, ukey.
  destruct (se_section a =? 0), (se_section b =? 0); cbn [andb negb];
    (split; intros H; [try discriminate; try (apply Z.ltb_lt in H); lia | try (apply Z.ltb_lt); try lia; try reflexivity]).
Qed.

Lemma sym_less_false a b : sym_less a b = false <-> ~ lexlt a b.
Proof.
  rewrite <- sym_less_spec. destruct (sym_less a b); split; intros H.
  - discriminate.
  - exfalso. apply H. reflexivity.
  - intros H'. discriminate.
  - reflexivity.
Qed.

(* "a may stand before b": b is not strictly smaller *)
Definition le_ord (a b : sym_entry) : Prop := sym_less b a = false.

Lemma le_ord_trans a b c : le_ord a b -> le_ord b c -> le_ord a c.
Proof. unfold le_ord. rewrite !sym_less_false. unfold lexlt. lia. Qed.

Lemma insert_perm x l : Permutation (insert_stable x l) (x :: l).
Proof.
  induction l as [|y r IH]; [reflexivity|]. cbn [insert_stable].
  destruct (sym_less y x); [|reflexivity].
  rewrite IH. apply perm_swap.
Qed.

Lemma sort_perm l : Permutation (sort_stable l) l.
Proof.
  unfold sort_stable. induction l as [|x r IH]; [reflexivity|]. cbn [fold_right].
  rewrite insert_perm. now constructor.
Qed.

Lemma insert_sorted x l : StronglySorted le_ord l -> StronglySorted le_ord (insert_stable x l).
Proof.
  induction 1 as [|y r Hs IH Hall]; cbn [insert_stable].
  - constructor; constructor.
  - destruct (sym_less y x) eqn:E.
    + constructor; [exact IH|].
      (* y stays in front of everything in insert x r *)
      rewrite Forall_forall. intros z Hz.
      apply (Permutation_in _ (insert_perm x r)) in Hz. destruct Hz as [<-|Hz].
      * unfold le_ord. apply sym_less_false. apply sym_less_spec in E. unfold lexlt in *. lia.
      * rewrite Forall_forall in Hall. apply Hall. exact Hz.
    + constructor; [constructor; assumption|].
      constructor; [exact E|].
      rewrite Forall_forall. intros z Hz. rewrite Forall_forall in Hall.
      eapply le_ord_trans; [exact E | apply Hall; exact Hz].
Qed.

Lemma sort_sorted l : StronglySorted le_ord (sort_stable l).
Proof.
  unfold sort_stable. induction l as [|x r IH]; [constructor|]. cbn [fold_right]. apply insert_sorted. exact IH.
Qed.

(** stability: elements that compare equal keep their relative order.  Stated for the filtered
    sub-list of any class of mutually equivalent elements. *)
Lemma insert_filter (p : sym_entry -> bool) x l :
  (forall y, In y l -> p y = true -> p x = true -> sym_less y x = false) ->
  filter p (insert_stable x l) = filter p (x :: l).
Proof.
  induction l as [|y r IH]; intros H; [reflexivity|]. cbn [insert_stable].
  destruct (sym_less y x) eqn:E; [|reflexivity].
  cbn [filter]. destruct (p y) eqn:Py.
  - destruct (p x) eqn:Px.
    + rewrite (H y (or_introl eq_refl) Py eq_refl) in E. discriminate.
    + rewrite IH by (intros z Hz; apply H; right; exact Hz). cbn [filter]. rewrite Px. reflexivity.
  - rewrite IH by (intros z Hz; apply H; right; exact Hz). cbn [filter]. destruct (p x); reflexivity.
Qed.

Lemma sort_stable_filter (p : sym_entry -> bool) l :
  (forall a b, p a = true -> p b = true -> sym_less a b = false) ->
  filter p (sort_stable l) = filter p l.
Proof.
  intros Heq. unfold sort_stable. induction l as [|x r IH]; [reflexivity|]. cbn [fold_right].
  rewrite insert_filter.
  - cbn [filter]. rewrite IH. reflexivity.
  - intros y _ Py Px. apply Heq; assumption.
Qed.

(** layout arithmetic of the writer *)
Lemma pad_to_length n bs : Datatypes.length (pad_to n bs) = n.
Proof.
  unfold pad_to. rewrite app_length, repeat_length.
  pose proof (firstn_le_length n bs). lia.
Qed.

(* the auxiliary part of a record is a whole number of 18-byte records, at most 255 of them (one count byte) *)
Definition aux_ok (a : list byte) : Prop := zlen a mod 18 = 0 /\ zlen a / 18 < 256.

Definition naux (e : sym_entry) : Z := match se_aux e with Some a => zlen a / 18 | None => 0 end.

Lemma pack_sym_length e : Datatypes.length (se_name e) = 8%nat ->
  match se_aux e with Some a => aux_ok a | None => True end ->
  zlen (pack_sym e) = 18 * (1 + naux e).
Proof.
  intros Hn Ha. unfold pack_sym, naux. rewrite !zlen_app, !zlen_le. unfold zlen at 1. rewrite Hn.
  destruct (se_aux e) as [a|].
  - destruct Ha as [Hm _]. pose proof (Z.div_mod (zlen a) 18 ltac:(lia)) as Hd. rewrite Hm in Hd.
    unfold zlen at 1 2. cbn [Datatypes.length]. fold (zlen a). change (Z.of_nat 8) with 8. change (Z.of_nat 4) with 4. change (Z.of_nat 2) with 2. change (Z.of_nat 1) with 1. lia.
  - unfold zlen. cbn [Datatypes.length]. lia.
Qed.

Definition entry_ok (e : sym_entry) : Prop :=
  Datatypes.length (se_name e) = 8%nat /\ match se_aux e with Some a => aux_ok a | None => True end.

Lemma nrecords_cons' e r : nrecords (e :: r) = nrecords r + 1 + naux e.
Proof. reflexivity. Qed.

Lemma flat_pack_length es : Forall entry_ok es -> zlen (flat_map pack_sym es) = 18 * nrecords es.
Proof.
  induction 1 as [|e r [Hn Ha] Hr IH]; [reflexivity|].
  cbn [flat_map]. rewrite nrecords_cons', zlen_app, IH, pack_sym_length by assumption. lia.
Qed.

(** the writer as  header(140 bytes) ++ text ++ symbol records ++ string table *)
Definition hdr_of (tsize nrec : Z) : list byte :=
  (le 2 332 ++ le 2 3 ++ le 4 0 ++ le 4 (140 + tsize) ++ le 4 nrec ++ le 2 0 ++ le 2 0)
  ++ sec_header dot_text tsize 140 (140 + tsize) 1611661344
  ++ sec_header dot_data 0 0 0 3222274112
  ++ sec_header dot_bss 0 0 0 3222274176.

Lemma sec_header_length n a b c d : Datatypes.length (sec_header n a b c d) = 40%nat.
Proof. unfold sec_header. rewrite !app_length, pad_to_length, !le_length. reflexivity. Qed.

Lemma hdr_length t n : Datatypes.length (hdr_of t n) = 140%nat.
Proof. unfold hdr_of. rewrite !app_length, !sec_header_length, !le_length. reflexivity. Qed.

Lemma coff_write_shape text srcfile globals symtab :
  exists entries strtab,
    coff_write text srcfile globals symtab
    = hdr_of (zlen text) (nrecords entries) ++ text ++ flat_map pack_sym entries ++ le 4 (zlen strtab + 4) ++ strtab
    /\ entries = fixed_entries (zlen text) srcfile ++ sort_stable (fst (global_entries symtab globals ([], [])))
    /\ strtab = fst (snd (global_entries symtab globals ([], []))).
Proof.
  unfold coff_write. destruct (global_entries symtab globals ([], [])) as [gents [strtab seen]] eqn:G.
  exists (fixed_entries (zlen text) srcfile ++ sort_stable gents), strtab.
  cbn [fst snd]. split; [|split; reflexivity].
  unfold hdr_of. rewrite <- !app_assoc. reflexivity.
Qed.

Lemma text_at_140 text srcfile globals symtab :
  firstn (Datatypes.length text) (skipn 140 (coff_write text srcfile globals symtab)) = text.
Proof.
  destruct (coff_write_shape text srcfile globals symtab) as [es [stb [H _]]]. rewrite H.
  rewrite <- (hdr_length (zlen text) (nrecords es)) at 1.
  rewrite skipn_app, skipn_all, Nat.sub_diag. cbn [skipn app].
  rewrite firstn_app, firstn_all, Nat.sub_diag. cbn [firstn]. apply app_nil_r.
Qed.

Lemma convert_name_length n st : Datatypes.length (fst (convert_name n st)) = 8%nat.
Proof.
  unfold convert_name. destruct (8 <? zlen (bytes_of_string n)).
  - destruct st as [tab seen]. destruct (lookup n seen); cbn [fst]; rewrite app_length, !le_length; reflexivity.
  - cbn [fst]. apply pad_to_length.
Qed.

Lemma global_entries_ok symtab names : forall st, Forall entry_ok (fst (global_entries symtab names st)).
Proof.
  induction names as [|n r IH]; intros st; cbn [global_entries]; [constructor|].
  unfold global_entry. pose proof (convert_name_length n st) as Hl.
  destruct (convert_name n st) as [nm st1]. cbn [fst] in Hl.
  destruct (lookup n symtab);
    (specialize (IH st1); destruct (global_entries symtab r st1) as [es st2]; cbn [fst] in *;
     constructor; [split; [exact Hl | exact I] | exact IH]).
Qed.

Lemma file_naux_bounds f : (1 <= file_naux f <= 255)%nat.
Proof. unfold file_naux. lia. Qed.

Lemma aux_ok_18 a : Datatypes.length a = 18%nat -> aux_ok a.
Proof. intros H. unfold aux_ok, zlen. rewrite H. split; reflexivity. Qed.

Lemma fixed_entries_ok t f : Forall entry_ok (fixed_entries t f).
Proof.
  unfold fixed_entries, sec_sym, entry_ok. constructor; [|repeat constructor; cbn [se_name se_aux];
    try apply pad_to_length; apply aux_ok_18; rewrite ?app_length, ?le_length, ?repeat_length; reflexivity].
  cbn [se_name se_aux]. split; [apply pad_to_length|].
  pose proof (file_naux_bounds f) as Hb. unfold aux_ok, zlen. rewrite pad_to_length.
  rewrite Nat2Z.inj_mul. change (Z.of_nat 18) with 18. rewrite Z.mul_comm, Z_mod_mult, Z.div_mul by lia. split; [reflexivity | lia].
Qed.

Lemma perm_forall {A} (P : A -> Prop) l l' : Permutation l l' -> Forall P l' -> Forall P l.
Proof. intros Hp Hf. rewrite Forall_forall in *. intros x Hx. apply Hf. eapply Permutation_in; eassumption. Qed.

Lemma coff_write_length text srcfile globals symtab :
  exists entries strtab,
    zlen (coff_write text srcfile globals symtab) = 140 + zlen text + 18 * nrecords entries + 4 + zlen strtab
    /\ entries = fixed_entries (zlen text) srcfile ++ sort_stable (fst (global_entries symtab globals ([], [])))
    /\ strtab = fst (snd (global_entries symtab globals ([], []))).
Proof.
  destruct (coff_write_shape text srcfile globals symtab) as [es [stb [H [He Hs]]]].
  exists es, stb. split; [|split; assumption]. rewrite H.
  rewrite !zlen_app, zlen_le. unfold zlen at 1. rewrite hdr_length.
  rewrite flat_pack_length.
  - change (Z.of_nat 140) with 140. change (Z.of_nat 4) with 4. lia.
  - subst es. apply Forall_app. split; [apply fixed_entries_ok|].
    eapply perm_forall; [apply sort_perm | apply global_entries_ok].
Qed.
