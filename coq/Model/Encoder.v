(** The instruction encoder plugged into Model/Asm.v (placeholder until Model/X86Enc.v lands). *)
From Coq Require Import List ZArith String Bool.
From Gosk Require Import Base.Bytes Model.Ast Model.Eval Model.Asm.
Import ListNotations.
Local Open Scope Z_scope.

Definition null_encoder : encoder :=
  {| enc_est := fun _ _ _ => None; enc_kind_ok := fun _ => false; enc_emit := fun _ _ _ _ => BytesDiag [] |}.

Definition gosk_encoder : encoder := null_encoder.
