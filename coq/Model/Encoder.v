(** The instruction encoder plugged into Model/Asm.v. *)
From Coq Require Import List ZArith String Bool.
From Gosk Require Import Base.Bytes Model.Ast Model.Eval Model.Asm Model.X86Enc.
Import ListNotations.
Local Open Scope Z_scope.

Definition null_encoder : encoder :=
  {| enc_est := fun _ _ _ => None; enc_kind_ok := fun _ => false; enc_emit := fun _ _ _ _ => BytesDiag [];
     enc_diag := fun _ _ _ => false; enc_unmodelled := fun _ _ _ => false |}.

Definition gosk_encoder : encoder := x86_encoder.
