(** Sequences of frontend.Exec calls in one process.  What one call leaves behind in the process
    (package-level tables, the previous context, the parsed tree it was given) is explicit state;
    the model of Exec builds a fresh CodeGenContext / Pass1 / client per call and reads none of it. *)
From Coq Require Import List ZArith String Bool.
From Gosk Require Import Base.Bytes Model.Ast Model.Eval Model.Asm Model.Top Model.Encoder Generated.Tables Generated.Rows.
Import ListNotations.
Local Open Scope Z_scope.

Record gstate := {
  g_calls : nat;                       (* how many assemblies this process has done *)
  g_last : option p1state;             (* the Pass1 value returned by the previous call (still reachable by the caller) *)
  g_dest_before : list byte            (* previous content of the destination file *)
}.

Definition g_init : gstate := {| g_calls := 0; g_last := None; g_dest_before := [] |}.

Record call := { c_prog : program; c_dest_content : list byte (* whatever the destination held before this call *) }.

Definition exec (g : gstate) (c : call) : gstate * file_outcome :=
  let out := assemble_file gosk_encoder (c_prog c) in      (* O_TRUNC: the old content plays no role *)
  ({| g_calls := S (g_calls g);
      g_last := match assemble gosk_encoder (c_prog c) with Done _ _ s => Some s | _ => g_last g end;
      g_dest_before := c_dest_content c |}, out).

Fixpoint run (g : gstate) (h : list call) : list file_outcome :=
  match h with
  | [] => []
  | c :: r => let '(g', o) := exec g c in o :: run g' r
  end.
