(** Model of internal/filefmt/coff.go (CoffFormat.Write, generateSymbolEntries, convertNameToBytes). *)
From Coq Require Import List ZArith String Bool Ascii.
From Gosk Require Import Base.Bytes Model.Ast Model.Eval.
Import ListNotations.
Local Open Scope list_scope.
Local Open Scope Z_scope.

Fixpoint bytes_of_string (s : string) : list byte :=
  match s with
  | EmptyString => []
  | String c r => Z.of_nat (nat_of_ascii c) :: bytes_of_string r
  end.

(* copy(dst[0:n], src): first n bytes of src, zero padded *)
Definition pad_to (n : nat) (bs : list byte) : list byte :=
  firstn n bs ++ repeat 0 (n - Datatypes.length (firstn n bs)).

Record sym_entry := {
  se_name : list byte;      (* 8 bytes *)
  se_value : Z;             (* uint32 *)
  se_section : Z;           (* int16 *)
  se_type : Z;
  se_class : Z;
  se_aux : option (list byte)   (* the auxiliary records: 18 bytes each (one, except for a long .file name) *)
}.

Definition pack_sym (e : sym_entry) : list byte :=
  se_name e ++ le 4 (se_value e) ++ le 2 (se_section e) ++ le 2 (se_type e) ++ [se_class e mod 256]
  ++ [match se_aux e with Some a => zlen a / 18 | None => 0 end]      (* NumberOfAuxSymbols *)
  ++ match se_aux e with Some a => a | None => [] end.

(* convertNameToBytes: threading the string table and the name->offset dedup list *)
Definition strtab_state := (list byte * list (string * Z))%type.

Definition convert_name (name : string) (st : strtab_state) : list byte * strtab_state :=
  let nb := bytes_of_string name in
  if (8 <? zlen nb) then
    let '(tab, seen) := st in
    match lookup name seen with
    | Some off => (le 4 0 ++ le 4 off, st)
    | None => let off := zlen tab + 4 in
              (le 4 0 ++ le 4 off, (tab ++ nb ++ [0], (name, off) :: seen))
    end
  else (pad_to 8 nb, st).

Definition global_entry (symtab : list (string * Z)) (name : string) (st : strtab_state) : sym_entry * strtab_state :=
  let '(nm, st') := convert_name name st in
  match lookup name symtab with
  | Some addr => ({| se_name := nm; se_value := addr mod 2 ^ 32; se_section := 1; se_type := 0; se_class := 2; se_aux := None |}, st')
  | None => ({| se_name := nm; se_value := 0; se_section := 0; se_type := 0; se_class := 2; se_aux := None |}, st')
  end.

Fixpoint global_entries (symtab : list (string * Z)) (names : list string) (st : strtab_state) : list sym_entry * strtab_state :=
  match names with
  | [] => ([], st)
  | n :: r => let '(e, st1) := global_entry symtab n st in
              let '(es, st2) := global_entries symtab r st1 in
              (e :: es, st2)
  end.

(* sort.SliceStable with less(i,j) = undefined last, else Value(i) < Value(j): stable insertion sort *)
Definition sym_less (a b : sym_entry) : bool :=
  let ea := se_section a =? 0 in
  let eb := se_section b =? 0 in
  if ea && negb eb then false
  else if negb ea && eb then true
  else se_value a <? se_value b.

Fixpoint insert_stable (x : sym_entry) (l : list sym_entry) : list sym_entry :=
  match l with
  | [] => [x]
  | y :: r => if sym_less y x then y :: insert_stable x r else x :: l
  end.

(* fold from the right so that equal elements keep their order *)
Definition sort_stable (l : list sym_entry) : list sym_entry := fold_right insert_stable [] l.

Definition sec_sym (name : list byte) (num : Z) (size : Z) : sym_entry :=
  {| se_name := pad_to 8 name; se_value := 0; se_section := num; se_type := 0; se_class := 3;
     se_aux := Some (le 4 size ++ le 2 0 ++ le 2 0 ++ repeat 0 10) |}.

Definition dot_text : list byte := [46; 116; 101; 120; 116].
Definition dot_data : list byte := [46; 100; 97; 116; 97].
Definition dot_bss : list byte := [46; 98; 115; 115].
Definition dot_file : list byte := [46; 102; 105; 108; 101].

(* a [FILE] name longer than 18 bytes continues in further auxiliary records (fix in /repo; it used to be cut to 18);
   NumberOfAuxSymbols is one byte, so at most 255 records = 4590 bytes of name *)
Definition file_naux (srcfile : list byte) : nat := Nat.max 1 (Nat.min 255 ((Datatypes.length srcfile + 17) / 18)).

Definition fixed_entries (text_size : Z) (srcfile : list byte) : list sym_entry :=
  [ {| se_name := pad_to 8 dot_file; se_value := 0; se_section := -2; se_type := 0; se_class := 103;
       se_aux := Some (pad_to (18 * file_naux srcfile) srcfile) |};
    sec_sym dot_text 1 text_size; sec_sym dot_data 2 0; sec_sym dot_bss 3 0 ].

Definition sec_header (name : list byte) (rawsize rawptr relocptr chars : Z) : list byte :=
  pad_to 8 name ++ le 4 0 ++ le 4 0 ++ le 4 rawsize ++ le 4 rawptr ++ le 4 relocptr ++ le 4 0 ++ le 2 0 ++ le 2 0 ++ le 4 chars.

Definition nrecords (es : list sym_entry) : Z :=
  fold_right (fun e n => n + 1 + match se_aux e with Some a => zlen a / 18 | None => 0 end) 0 es.

Definition coff_write (text : list byte) (srcfile : list byte) (globals : list string) (symtab : list (string * Z)) : list byte :=
  let tsize := zlen text in
  let '(gents, (strtab, _)) := global_entries symtab globals ([], []) in
  let entries := fixed_entries tsize srcfile ++ sort_stable gents in
  let symoff := 140 + tsize in
  let header := le 2 332 ++ le 2 3 ++ le 4 0 ++ le 4 symoff ++ le 4 (nrecords entries) ++ le 2 0 ++ le 2 0 in
  header
  ++ sec_header dot_text tsize 140 symoff 1611661344
  ++ sec_header dot_data 0 0 0 3222274112
  ++ sec_header dot_bss 0 0 0 3222274176
  ++ text
  ++ flat_map pack_sym entries
  ++ le 4 (zlen strtab + 4) ++ strtab.
