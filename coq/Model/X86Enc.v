(** Model of the instruction path of gosk: pkg/ng_operand (operand parsing at token level,
    OperandTypes, Require66h/67h, CalcOffsetByteSize, CalcSibByteSize, DisplacementBytes),
    pkg/asmdb (FindMinOutputSize, GetPrefixSize; FindEncoding itself is the table
    Generated/Rows.v tabulated from the implementation on every run) and the per-mnemonic
    pass-1 and codegen handlers (internal/pass1/pass1_inst_*.go, internal/codegen/x86gen_*.go,
    calculateModRM, GenerateModRM, ResolveOpcode, getImmediateValue).
    Transcribed branch by branch, quirks included. *)
From Coq Require Import List ZArith String Bool Ascii.
From Gosk Require Import Base.Bytes Model.Ast Model.Eval Model.Asm Generated.Tables Generated.Rows.
Import ListNotations.
Local Open Scope string_scope.
Local Open Scope list_scope.
Local Open Scope Z_scope.

(** ---------------------------------------------------------------- registers *)

Definition mem_string (s : string) (l : list string) : bool := existsb (String.eqb s) l.

Definition r8_names := ["AL"; "CL"; "DL"; "BL"; "AH"; "CH"; "DH"; "BH"].
Definition r16_names := ["AX"; "CX"; "DX"; "BX"; "SP"; "BP"; "SI"; "DI"].
Definition r32_names := ["EAX"; "ECX"; "EDX"; "EBX"; "ESP"; "EBP"; "ESI"; "EDI"].
Definition sreg_names := ["ES"; "CS"; "SS"; "DS"; "FS"; "GS"].
Definition creg_names := ["CR0"; "CR1"; "CR2"; "CR3"; "CR4"; "CR5"; "CR6"; "CR7"; "CR8"].

(* getRegisterType restricted to the classes the model covers *)
Definition reg_type (s : string) : option otype :=
  if mem_string s r8_names then Some TR8
  else if mem_string s r16_names then Some TR16
  else if mem_string s r32_names then Some TR32
  else if mem_string s sreg_names then Some TSreg
  else if mem_string s creg_names then Some TCreg
  else None.

Fixpoint index_of (s : string) (l : list string) (i : Z) : option Z :=
  match l with [] => None | x :: r => if String.eqb s x then Some i else index_of s r (i + 1) end.

(* GetRegisterNumber *)
Definition reg_number (s : string) : option Z :=
  match index_of s r8_names 0 with Some n => Some n | None =>
  match index_of s r16_names 0 with Some n => Some n | None =>
  match index_of s r32_names 0 with Some n => Some n | None =>
  match index_of s sreg_names 0 with Some n => Some n | None =>
  if String.eqb s "CR0" then Some 0 else if String.eqb s "CR2" then Some 2
  else if String.eqb s "CR3" then Some 3 else if String.eqb s "CR4" then Some 4 else None
  end end end end.

Fixpoint prefix_of (p s : string) : bool :=
  match p, s with
  | EmptyString, _ => true
  | String a p', String b s' => Ascii.eqb a b && prefix_of p' s'
  | _, EmptyString => false
  end.

(* the first alternative of RegisterName (in grammar order) that is a prefix of s *)
Definition first_reg_prefix (s : string) : option string := find (fun r => prefix_of r s) operand_regnames.

(** ---------------------------------------------------------------- parsed operands *)

Record meminfo := { m_base : string; m_index : string; m_scale : Z; m_disp : Z; m_label : string }.

Inductive pop :=
| PReg (t : otype) (name : string)
| PImm (v : Z)
| PMem (dt : datatype) (m : meminfo)
| PLabel (s : string).

Inductive parse_res :=
| POk (l : list pop)
| PErr            (* the operand PEG rejects the text: the handler prints an "Error ..." line *)
| PUnmodelled.    (* accepted by gosk in a way this model does not cover: excluded from correspondence *)

(* tokens of the text inside brackets *)
Inductive tok := KReg (s : string) | KNum (z : Z) | KId (s : string) | KPlus | KMinus | KStar.

Definition tok_of_prim (e : exp) : option tok :=
  match e with
  | ENum z => Some (KNum z)
  | EImm (FNum z) => Some (KNum z)
  | EImm (FId s) => match first_reg_prefix s with
                    | Some r => if String.eqb r s then Some (KReg s) else None
                    | None => Some (KId s)
                    end
  | _ => None
  end.

Definition toks_of_mul (e : exp) : option (list tok) :=
  match e with
  | EMul p [] => match tok_of_prim p with Some t => Some [t] | None => None end
  | EMul p [(OpMul, q)] => match tok_of_prim p, tok_of_prim q with Some a, Some b => Some [a; KStar; b] | _, _ => None end
  | ENum _ | EImm _ => match tok_of_prim e with Some t => Some [t] | None => None end
  | _ => None
  end.

Fixpoint toks_of_tail (t : list (addop * exp)) : option (list tok) :=
  match t with
  | [] => Some []
  | (o, m) :: r => match toks_of_mul m, toks_of_tail r with
                   | Some a, Some b => Some ((match o with OpPlus => KPlus | OpMinus => KMinus end) :: a ++ b)
                   | _, _ => None
                   end
  end.

Definition toks_of_add (e : exp) : option (list tok) :=
  match e with
  | EAdd h t => match toks_of_mul h, toks_of_tail t with Some a, Some b => Some (a ++ b) | _, _ => None end
  | _ => toks_of_mul e
  end.

Definition is_scale (z : Z) : bool := (z =? 1) || (z =? 2) || (z =? 4) || (z =? 8).
Definition sgn (t : tok) (d : Z) : Z := match t with KMinus => - d | _ => d end.
Definition is_op (t : tok) : bool := match t with KPlus | KMinus => true | _ => false end.

Definition mk_mem (b i : string) (s d : Z) : meminfo := {| m_base := b; m_index := i; m_scale := s; m_disp := d; m_label := "" |}.

(* MemoryBody: the ten ordered alternatives; a successful alternative that does not reach the
   closing bracket makes the whole operand fail (PEG does not re-enter the choice) *)
Definition parse_membody (ts : list tok) : option meminfo :=
  match ts with
  | [KReg b; o1; KReg i; KStar; KNum s; o2; KNum d] =>
      if is_op o1 && is_op o2 && is_scale s then Some (mk_mem b i s (sgn o2 d)) else None
  | [KReg b; o1; KReg i; x; KNum d] =>
      match x with
      | KStar => if is_op o1 && is_scale d then Some (mk_mem b i d 0) else None          (* BaseScaleDisp *)
      | _ => if is_op o1 && is_op x then Some (mk_mem b i 1 (sgn x d)) else None          (* BaseIndexDisp *)
      end
  | [KReg i; KStar; KNum s; o1; KNum d] => if is_op o1 && is_scale s then Some (mk_mem "" i s (sgn o1 d)) else None
  | [KReg b; x; KNum d] =>
      match x with
      | KStar => None        (* BaseOnly matches the register first and the closing bracket is then missing: IndexOnly with a scale is unreachable *)
      | _ => if is_op x then Some (mk_mem b "" 0 (sgn x d)) else None                      (* BaseDisp *)
      end
  | [KReg b; o1; KReg i] => if is_op o1 then Some (mk_mem b i 1 0) else None
  | [KReg b] => Some (mk_mem b "" 0 0)
  | [KNum d] => Some (mk_mem "" "" 0 d)
  | [KId l] => Some {| m_base := ""; m_index := ""; m_scale := 0; m_disp := 0; m_label := l |}
  | _ => None
  end.

Definition gp_addr_reg (s : string) : bool := (String.eqb s "") || mem_string s r16_names || mem_string s r32_names.

Definition label_ok (s : string) : bool :=
  negb (existsb (fun r => prefix_of r s) operand_reserved) && negb (existsb (fun r => prefix_of r s) operand_regnames).

Definition parse_operand (e : exp) : parse_res :=
  match e with
  | ENum v => if (- 2 ^ 63 <=? v) && (v <? 2 ^ 63) then POk [PImm v] else PUnmodelled
  | EImm (FId s) =>
      match first_reg_prefix s with
      | Some r => if String.eqb r s then
                    match reg_type s with Some t => POk [PReg t s] | None => PUnmodelled end
                  else PErr
      | None => if label_ok s then POk [PLabel s]
                else if existsb (fun r => prefix_of r s) operand_reserved then PUnmodelled else PErr
      end
  | EMem dt jt l None =>
      match toks_of_add l with
      | None => PUnmodelled
      | Some ts => match parse_membody ts with
                   | Some m => if gp_addr_reg (m_base m) && gp_addr_reg (m_index m) then POk [PMem dt m] else PUnmodelled
                   | None => PErr
                   end
      end
  | _ => PUnmodelled
  end.

Fixpoint parse_operands (es : list exp) : parse_res :=
  match es with
  | [] => POk []
  | e :: r => match parse_operand e, parse_operands r with
              | PUnmodelled, _ | _, PUnmodelled => PUnmodelled
              | PErr, _ | _, PErr => PErr
              | POk a, POk b => POk (a ++ b)
              end
  end.

(** ---------------------------------------------------------------- OperandTypes *)

Definition imm_size_type (v : Z) : otype :=
  if (-128 <=? v) && (v <=? 127) then TImm8
  else if (-32768 <=? v) && (v <=? 32767) then TImm16
  else if (-2147483648 <=? v) && (v <=? 2147483647) then TImm32 else TImm64.

Definition is_reg_pop (p : pop) : bool := match p with PReg _ _ => true | _ => false end.

Definition starts_E (s : string) : bool := prefix_of "E" s.

(* resolveMemorySize for an operand at position i *)
Definition resolve_mem_size (ops : list pop) (i : nat) (m : meminfo) (md : mode) : otype :=
  let others := filter (fun x => is_reg_pop (snd x) && negb (Nat.eqb (fst x) i)) (combine (seq 0 (Datatypes.length ops)) ops) in
  let by_regs :=
    let hasE := starts_E (m_base m) || starts_E (m_index m) in
    let spbp16 := mem_string (m_base m) ["SP"; "BP"; "BX"; "SI"; "DI"] || mem_string (m_index m) ["SP"; "BP"; "SI"; "DI"] in
    if hasE then TM32
    else if spbp16 then (match md with M16 => TM16 | M32 => TM32 end)
    else (match md with M16 => TM16 | M32 => TM32 end) in
  match others with
  | (_, PReg TR8 _) :: _ => TM8
  | (_, PReg TR16 _) :: _ => TM16
  | (_, PReg TR32 _) :: _ => TM32
  | _ => by_regs
  end.

Definition base_type (ops : list pop) (md : mode) (force : bool) (i : nat) (p : pop) : otype :=
  match p with
  | PReg t _ => t
  | PImm v => imm_size_type v
  | PLabel _ => if force then (match md with M16 => TImm16 | M32 => TImm32 end)
                else (match md with M16 => TRel16 | M32 => TRel32 end)
  | PMem DtByte _ => TM8
  | PMem DtWord _ => TM16
  | PMem DtDword _ => TM32
  | PMem DtNone m => resolve_mem_size ops i m md
  end.

Definition is_rclass (t : otype) : bool := match t with TR8 | TR16 | TR32 | TSreg | TCreg => true | _ => false end.
Definition needs_res (t : otype) : bool := match t with TImm8 | TImm16 => true | _ => false end.

Definition resolve_by (rt target : otype) : otype :=
  match rt, target with
  | TR8, (TImm8 | TImm16) => TImm8
  | TR16, (TImm8 | TImm16) => TImm16
  | TR32, (TImm8 | TImm16) => TImm32
  | _, _ => target
  end.

Fixpoint set_nth {A} (n : nat) (x : A) (l : list A) : list A :=
  match n, l with
  | _, [] => []
  | O, _ :: r => x :: r
  | S k, y :: r => y :: set_nth k x r
  end.

Definition dep_step (types : list otype) (ij : nat * nat) : list otype :=
  let '(i, j) := ij in
  if Nat.eqb i j then types else
  let ti := nth i types TOther in
  let tj := nth j types TOther in
  if is_rclass ti && needs_res tj then set_nth j (resolve_by ti tj) types
  else if is_rclass tj && needs_res ti then set_nth i (resolve_by tj ti) types
  else types.

Definition operand_types (ops : list pop) (md : mode) (force : bool) : list otype :=
  let n := Datatypes.length ops in
  let t0 := map (fun x => base_type ops md force (fst x) (snd x)) (combine (seq 0 n) ops) in
  let pairs := flat_map (fun i => map (fun j => (i, j)) (seq 0 n)) (seq 0 n) in
  let t1 := fold_left dep_step pairs t0 in
  match t1 with
  | [TImm8] | [TImm16] => [TImm32]
  | _ => t1
  end.

(** ---------------------------------------------------------------- prefixes and sizes *)

Definition first_mem (ops : list pop) : option meminfo :=
  match find (fun p => match p with PMem _ _ => true | _ => false end) ops with
  | Some (PMem _ m) => Some m
  | _ => None
  end.

Definition inherent_size (md : mode) (p : pop) : Z :=
  match p with
  | PReg TR8 _ => 8 | PReg TR16 _ => 16 | PReg TR32 _ => 32 | PReg TCreg _ => 32
  | PReg _ _ => 0
  | PImm v => match imm_size_type v with TImm8 => 8 | TImm16 => 16 | TImm32 => 32 | _ => 64 end
  | PMem DtNone m =>
      if starts_E (m_base m) || starts_E (m_index m) then 32
      else if mem_string (m_base m) ["BX"; "SI"; "DI"; "SP"; "BP"] || mem_string (m_index m) ["SI"; "DI"] then 16
      else (match md with M16 => 16 | M32 => 32 end)
  | PMem _ _ => 0          (* the parser already typed it m8/m16/m32: no case of the switch matches *)
  | PLabel _ => 0
  end.

(* registers and typed memory fix the operand size; immediates and untyped memory are only consulted when no
   operand does (Require66h after the fix in /repo) *)
Definition fixed_size (p : pop) : Z :=
  match p with
  | PReg TR8 _ => 8 | PReg TR16 _ => 16 | PReg TR32 _ => 32 | PReg TCreg _ => 32
  | PMem DtByte _ => 8 | PMem DtWord _ => 16 | PMem DtDword _ => 32
  | _ => 0
  end.

Definition mismatch (md : mode) (sz : Z) : bool := match md with M16 => sz =? 32 | M32 => sz =? 16 end.

Definition require66 (ops : list pop) (md : mode) : bool :=
  if existsb (fun p => negb (fixed_size p =? 0)) ops then existsb (fun p => mismatch md (fixed_size p)) ops
  else existsb (fun p => mismatch md (inherent_size md p)) ops.

Definition require67 (ops : list pop) (md : mode) : bool :=
  existsb (fun p => match p with
                    | PMem _ m =>
                        let hasE := starts_E (m_base m) || starts_E (m_index m) in
                        let has16 := mem_string (m_base m) ["BX"; "BP"; "SI"; "DI"] || mem_string (m_index m) ["SI"; "DI"] in
                        let onlydisp := String.eqb (m_base m) "" && String.eqb (m_index m) "" && negb (m_disp m =? 0) in
                        match md with M16 => hasE | M32 => has16 && negb onlydisp end
                    | _ => false
                    end) ops.

Definition uses32 (m : meminfo) : bool := prefix_of "E" (m_base m) || prefix_of "E" (m_index m).
Definition uses16 (m : meminfo) : bool := mem_string (m_base m) ["BX"; "BP"; "SI"; "DI"] || mem_string (m_index m) ["BX"; "BP"; "SI"; "DI"].

(* after fix f9bd90c: 32-bit addressing rules whenever the registers are 32-bit ones, [EBP(+index)] has a disp8 0,
   [index*scale(+disp)] always a disp32 *)
Definition calc_offset_size (ops : list pop) (md : mode) : Z :=
  match first_mem ops with
  | None => 0
  | Some m =>
      if String.eqb (m_base m) "" && String.eqb (m_index m) "" then (match md with M16 => 2 | M32 => 4 end)
      else
        let addr32 := uses32 m || ((match md with M16 => false | M32 => true end) && negb (uses16 m)) in
        if addr32 && String.eqb (m_base m) "" then 4
        else if m_disp m =? 0 then
          (if negb addr32 && String.eqb (m_base m) "BP" && String.eqb (m_index m) "" then 1
           else if addr32 && String.eqb (m_base m) "EBP" then 1 else 0)
        else if (-128 <=? m_disp m) && (m_disp m <=? 127) then 1
        else if addr32 then 4 else 2
  end.

Definition calc_sib_size (ops : list pop) (md : mode) : Z :=
  match first_mem ops with
  | Some m =>
      if uses32 m || ((match md with M16 => false | M32 => true end) && negb (uses16 m)) then
        let direct := String.eqb (m_base m) "" && String.eqb (m_index m) "" in
        let ebp_noidx := String.eqb (m_base m) "EBP" && String.eqb (m_index m) "" in
        if negb direct && negb ebp_noidx && (String.eqb (m_base m) "ESP" || negb (String.eqb (m_index m) "")) then 1 else 0
      else 0
  | None => 0
  end.

(** ---------------------------------------------------------------- the FindEncoding table *)

Definition otype_eqb (a b : otype) : bool :=
  match a, b with
  | TR8, TR8 | TR16, TR16 | TR32, TR32 | TSreg, TSreg | TCreg, TCreg | TImm8, TImm8 | TImm16, TImm16 | TImm32, TImm32
  | TImm64, TImm64 | TM8, TM8 | TM16, TM16 | TM32, TM32 | TRel16, TRel16 | TRel32, TRel32 | TOther, TOther => true
  | _, _ => false
  end.

Fixpoint types_eqb (a b : list otype) : bool :=
  match a, b with
  | [], [] => true
  | x :: a', y :: b' => otype_eqb x y && types_eqb a' b'
  | _, _ => false
  end.

Definition key_eqb (a b : rowkey) : bool :=
  let '(m1, t1, a1, f1, i1, y1) := a in
  let '(m2, t2, a2, f2, i2, y2) := b in
  String.eqb m1 m2 && types_eqb t1 t2 && Bool.eqb a1 a2 && Bool.eqb f1 f2 && Bool.eqb i1 i2 && Bool.eqb y1 y2.

Definition has_acc (ops : list pop) : bool :=
  existsb (fun p => match p with PReg _ n => mem_string n ["AL"; "AX"; "EAX"] | _ => false end) ops.

Definition imm_fits8 (ops : list pop) : bool :=
  match find (fun p => match p with PImm _ => true | _ => false end) ops with
  | Some (PImm v) => (-128 <=? v) && (v <=? 127)
  | _ => false
  end.

Definition is_indirect (ops : list pop) : bool :=
  existsb (fun p => match p with PMem _ m => negb (String.eqb (m_base m) "") || negb (String.eqb (m_index m) "") | _ => false end) ops.

Definition find_encoding (mn : string) (ops : list pop) (md : mode) (force anyimm : bool) : option row :=
  let k : rowkey := (mn, operand_types ops md force, has_acc ops, imm_fits8 ops, is_indirect ops, anyimm) in
  match find (fun kr => key_eqb (fst kr) k) rows with
  | Some (_, r) => Some r
  | None => None
  end.

Definition is_r16t (t : otype) := match t with TR16 => true | _ => false end.
Definition is_r32t (t : otype) := match t with TR32 => true | _ => false end.
Definition is_immt (t : otype) := match t with TImm8 | TImm16 | TImm32 | TImm64 => true | _ => false end.

(* getPrefix66SizeForInOut *)
Definition inout_prefix (mn : string) (ops : list pop) (md : mode) : Z :=
  let ts := operand_types ops md false in
  let det :=
    if String.eqb mn "IN" then nth_error ts 0
    else match ts, ops with
         | t0 :: t1 :: _, p0 :: _ =>
             let firstDX := match p0 with PReg TR16 n => String.eqb n "DX" | _ => false end in
             if firstDX || is_immt t0 then Some t1 else None
         | _, _ => None
         end in
  match det with
  | None => 0
  | Some t => match md with M16 => if is_r32t t then 1 else 0 | M32 => if is_r16t t then 1 else 0 end
  end.

Definition has_creg (ops : list pop) : bool := existsb (fun p => match p with PReg TCreg _ => true | _ => false end) ops.

Definition prefix_size (mn : string) (ops : list pop) (md : mode) : Z :=
  (if String.eqb mn "IN" || String.eqb mn "OUT" then inout_prefix mn ops md else if require66 ops md && negb (has_creg ops) then 1 else 0)
  + (if require67 ops md then 1 else 0).

(* findOutputSize: FindMinOutputSize looks the encoding up with matchAnyImm = true first, FindExactImmOutputSize (IMUL, since the
   fix in /repo) with matchAnyImm = false first, as handleIMUL does *)
Definition find_size_first (first : bool) (mn : string) (ops : list pop) (md : mode) (force : bool) : option Z :=
  let r := match find_encoding mn ops md force first with Some r => Some r | None => find_encoding mn ops md force (negb first) end in
  match r with
  | Some r => Some (r_base r + prefix_size mn ops md + calc_offset_size ops md + calc_sib_size ops md)
  | None => None
  end.

Definition find_min_size (mn : string) (ops : list pop) (md : mode) (force : bool) : option Z :=
  let r := match find_encoding mn ops md force true with Some r => Some r | None => find_encoding mn ops md force false end in
  match r with
  | Some r => Some (r_base r + prefix_size mn ops md + calc_offset_size ops md + calc_sib_size ops md)
  | None => None
  end.

(** ---------------------------------------------------------------- pass-1 estimates *)

Definition handler_name (mn : string) : string := match lookup mn pass1_handlers with Some h => h | None => "" end.

Definition arith_like (h : string) : bool :=
  mem_string h ["processADD"; "processADC"; "processSUB"; "processSBB"; "processCMP"; "processINC"; "processDEC"; "processNEG";
                "processMUL"; "processDIV"; "processIDIV"; "processAND"; "processOR"; "processXOR"; "processSHR"; "processSHL"; "processSAR"].

(* the instruction name each handler passes on ("processADD" -> "ADD") is the mnemonic itself for every handler above *)

Inductive est_res := EstSize (n : Z) | EstDiag | EstUnmodelled.

Definition is_mem_t (t : otype) := match t with TM8 | TM16 | TM32 => true | _ => false end.

Definition push_imm_size (v : Z) (md : mode) : Z :=
  if (-128 <=? v) && (v <=? 127) then 2
  else match md with
       | M32 => 5
       | M16 => 3
       end.

Definition est_instr (md : mode) (mn : string) (es : list exp) : est_res :=
  let h := handler_name mn in
  match parse_operands es with
  | PUnmodelled => EstUnmodelled
  | PErr =>
      if String.eqb h "processMOV" && negb (Nat.eqb (Datatypes.length es) 2) then EstDiag
      else if (String.eqb h "processNOT" || String.eqb h "processLGDT" || String.eqb h "processPUSH" || String.eqb h "processPOP")
              && negb (Nat.eqb (Datatypes.length es) 1) then EstDiag
      else EstDiag
  | POk ops =>
      if String.eqb h "processMOV" then
        if negb (Nat.eqb (Datatypes.length es) 2) then EstDiag else
        match find_min_size "MOV" ops md true with Some n => EstSize n | None => EstDiag end
      else if arith_like h then
        match find_min_size mn ops md false with Some n => EstSize n | None => EstDiag end
      else if String.eqb h "processNOT" then
        if negb (Nat.eqb (Datatypes.length es) 1) then EstDiag else
        match find_min_size "NOT" ops md false with Some n => EstSize n | None => EstDiag end
      else if String.eqb h "processIMUL" then
        match find_size_first false "IMUL" ops md false with
        | None => EstDiag
        | Some n =>
            let ts := operand_types ops md false in
            match md, ts with
            | M16, [TR32; (TImm16 | TImm32)] => EstSize (if n <? 7 then 7 else n)
            | _, _ => EstSize n
            end
        end
      else if String.eqb h "processIN" then
        match find_min_size "IN" ops md false with Some n => EstSize n | None => EstSize 0 end    (* error logged, size 0, still emitted *)
      else if String.eqb h "processOUT" then
        match find_min_size "OUT" ops md false with Some n => EstSize n | None => EstDiag end
      else if String.eqb h "processPUSH" || String.eqb h "processPOP" then
        if negb (Nat.eqb (Datatypes.length es) 1) then EstDiag else
        let base := match find_min_size mn ops md false with Some n => n | None => 1 end in
        (* fixes d3455f3 / 32e8229: the sizes the handlers really emit *)
        match es, ops with
        | [e], [p] =>
            match get_const e, String.eqb mn "PUSH" with
            | Some v, true => EstSize (push_imm_size v md)
            | _, _ => match p with
                      | PReg _ n => if String.eqb n "FS" || String.eqb n "GS" then EstSize 2 else EstSize base
                      | _ => EstSize base
                      end
            end
        | _, _ => EstSize base
        end
      else if String.eqb h "processLGDT" then
        if negb (Nat.eqb (Datatypes.length es) 1) then EstDiag else
        match operand_types ops md false with
        | [t] => if is_mem_t t then EstSize (3 + calc_offset_size ops md) else EstDiag
        | _ => EstDiag
        end
      else EstUnmodelled
  end.

(* IN / PUSH / POP print an "Error ..." line (diagnostic) although they go on *)
Definition est_diag_anyway (md : mode) (mn : string) (es : list exp) : bool :=
  let h := handler_name mn in
  match parse_operands es with
  | POk ops =>
      if String.eqb h "processIN" then match find_min_size "IN" ops md false with None => true | _ => false end
      else if String.eqb h "processPUSH" || String.eqb h "processPOP" then
        (Nat.eqb (Datatypes.length es) 1) && match find_min_size mn ops md false with None => true | _ => false end
      else false
  | _ => false
  end.

(** ---------------------------------------------------------------- codegen helpers *)

(* calculateModRM: returns (modrm, sib, disp bytes) *)
Definition is32reg (s : string) : bool := mem_string s r32_names.

(* 32-bit addressing.  Everything except the displacement bytes depends on the displacement only through
   "is it zero" (mod0 / hasDisp0, computed by the caller) and "does it fit int8" (f8); that part is the SHAPE.
   Transcribes the 32-bit half of calculateModRM after the fixes 8b99564 (explicit hasSIB) and 1f66a07
   (no-base and EBP-base SIB forms). *)
Record shape32 := { sh_mod : Z; sh_rm : Z; sh_sib : option Z; sh_nd : nat }.

Definition nd_of (md : Z) (hasDisp : bool) : nat := if hasDisp then (if md =? 64 then 1%nat else 4%nat) else 0%nat.

Definition calc32_shape (b i : string) (sc : Z) (mod0 : Z) (hasDisp0 f8 : bool) : option shape32 :=
  let direct := String.eqb b "" && String.eqb i "" in
  let sw : option (Z * bool * Z * bool) :=    (* rm, needsSIB, mod, hasDisp *)
    if direct then Some (5, false, 0, true)
    else if String.eqb b "EBP" && String.eqb i "" then
      if negb hasDisp0 then Some (5, false, 64, true) else Some (5, false, mod0, hasDisp0)
    else if String.eqb b "ESP" || negb (String.eqb i "") then Some (4, true, mod0, hasDisp0)
    else match index_of b r32_names 0 with
         | Some n => Some (n, false, mod0, hasDisp0)
         | None => None
         end in
  match sw with
  | None => None
  | Some (rm, needsSIB, mod1, hasDisp1) =>
      let mod2 := if hasDisp1 && (mod1 =? 0) && negb (rm =? 5) then (if f8 then 64 else 128) else mod1 in
      if negb needsSIB then Some {| sh_mod := mod2; sh_rm := rm; sh_sib := None; sh_nd := nd_of mod2 hasDisp1 |}
      else
        let scale_ok := is_scale sc || (sc =? 0) in
        if negb scale_ok then None else
        let scale := if sc =? 2 then 64 else if sc =? 4 then 128 else if sc =? 8 then 192 else 0 in
        let idx : option Z := if String.eqb i "" then Some 4 else if String.eqb i "ESP" then None else reg_number i in
        let bas : option Z := if String.eqb b "" then Some 5 else reg_number b in
        match idx, bas with
        | Some indexNum, Some baseNum0 =>
            let '(baseNum, mod3, hasDisp2) :=
              if String.eqb b "" then (5, 0, true)                                  (* [index*scale+disp32] *)
              else if (baseNum0 =? 5) && (mod2 =? 0) then (baseNum0, 64, true)       (* [EBP+index*scale] -> disp8 0 *)
              else (baseNum0, mod2, hasDisp1) in
            Some {| sh_mod := mod3; sh_rm := rm; sh_sib := Some (scale + indexNum * 8 + baseNum); sh_nd := nd_of mod3 hasDisp2 |}
        | _, _ => None
        end
  end.

(* the displacement value is 0 in every case where the Go code overwrites it with 0 (hasDisp0 = false) *)
Definition render32 (regBits : Z) (d : Z) (sh : shape32) : Z * option Z * list Z :=
  (sh_mod sh + regBits + sh_rm sh, sh_sib sh, le (sh_nd sh) d).

Definition calc32 (m : meminfo) (regBits : Z) (mod0 : Z) (hasDisp0 : bool) : option (Z * option Z * list Z) :=
  let d := m_disp m in
  match calc32_shape (m_base m) (m_index m) (m_scale m) mod0 hasDisp0 ((-128 <=? d) && (d <=? 127)) with
  | Some sh => Some (render32 regBits d sh)
  | None => None
  end.

Definition is16reg (s : string) : bool := mem_string s ["BX"; "BP"; "SI"; "DI"].

(* the 16-bit table is used in 16-bit mode and - since fix a2cd525 - whenever BX/BP/SI/DI address the operand *)
Definition calc_modrm (m : meminfo) (md : mode) (regBits : Z) : option (Z * option Z * list Z) :=
  let disp := m_disp m in
  let direct := String.eqb (m_base m) "" && String.eqb (m_index m) "" in
  let hasDisp := negb (disp =? 0) || direct in
  let mod0 := if negb hasDisp && negb direct then 0 else if (-128 <=? disp) && (disp <=? 127) then 64 else 128 in
  let b := m_base m in
  let i := m_index m in
  let use16 := match md with M16 => true | M32 => is16reg b || is16reg i end in
  if negb use16 then calc32 m regBits mod0 hasDisp else
      let e := String.eqb in
      let sw : option (Z * Z * bool * Z) :=      (* rm, mod, hasDisp, disp; None = default branch *)
        if e b "BX" && e i "SI" then Some (0, mod0, hasDisp, disp)
        else if e b "BX" && e i "DI" then Some (1, mod0, hasDisp, disp)
        else if e b "BP" && e i "SI" then Some (2, mod0, hasDisp, disp)
        else if e b "BP" && e i "DI" then Some (3, mod0, hasDisp, disp)
        else if e b "" && e i "SI" then Some (4, mod0, hasDisp, disp)
        else if e b "" && e i "DI" then Some (5, mod0, hasDisp, disp)
        else if e b "BP" && e i "" then (if negb hasDisp then Some (6, 64, true, 0) else Some (6, mod0, hasDisp, disp))
        else if direct then Some (6, 0, true, disp)
        else if e b "BX" && e i "" then Some (7, mod0, hasDisp, disp)
        else if e b "SI" && e i "" then Some (4, mod0, hasDisp, disp)
        else if e b "DI" && e i "" then Some (5, mod0, hasDisp, disp)
        else None in
      match sw with
      | Some (rm, mod1, hasDisp1, disp1) =>
          let mod2 := if hasDisp1 && (mod1 =? 0) && negb (rm =? 6) then
                        (if (-128 <=? disp1) && (disp1 <=? 127) then 64 else 128) else mod1 in
          let dispBytes := if hasDisp1 then (if mod2 =? 64 then [disp1 mod 256] else le 2 disp1) else [] in
          Some (mod2 + regBits + rm, None, dispBytes)
      | None =>
          if is32reg b || is32reg i then calc32 m regBits mod0 hasDisp else None
      end.

Definition modrm_bytes (x : Z * option Z * list Z) : list Z :=
  let '(mrm, sib, disp) := x in
  mrm :: (match sib with Some s => [s] | None => [] end) ++ disp.

(* the rm operand of GenerateModRM: text contains "[" and ends with "]"  <->  it is a memory operand *)
Definition gen_modrm (ops : list pop) (spec : mreg * nat) (md : mode) : option (list Z) :=
  let '(rs, rmi) := spec in
  let regv : option Z :=
    match rs with
    | MDigit d => Some d
    | MOperand i => match nth_error ops i with Some (PReg _ n) => reg_number n | _ => None end
    end in
  match regv, nth_error ops rmi with
  | Some rv, Some (PMem _ m) =>
      if String.eqb (m_label m) "" then
        match calc_modrm m md (rv * 8) with Some x => Some (modrm_bytes x) | None => None end
      else None
  | Some rv, Some (PReg _ n) => match reg_number n with Some rm => Some [192 + rv * 8 + rm] | None => None end
  | _, _ => None
  end.

(* ModRMByValue swallows its errors and returns a single 0 byte (with an error-level log line) *)
Definition gen_modrm_digit_lenient (ops : list pop) (spec : mreg * nat) (md : mode) : option (list Z * bool) :=
  match spec with
  | (MDigit _, _) => match gen_modrm ops spec md with Some b => Some (b, false) | None => Some ([0], true) end
  | _ => match gen_modrm ops spec md with Some b => Some (b, false) | None => None end
  end.

Definition resolve_opcode (r : row) (ops : list pop) : option (list Z) :=
  match r_addend r with
  | None => Some (r_opcode r)
  | Some i =>
      match nth_error ops i with
      | Some (PReg _ n) =>
          match reg_number n with
          | Some rn => Some (removelast (r_opcode r) ++ [Z.lor (last (r_opcode r) 0) (Z.land rn 7)])
          | None => None
          end
      | _ => None
      end
  end.

Definition imm_bytes (size : nat) (v : Z) : list Z := le size v.

Definition disp_bytes_moffs (ops : list pop) (md : mode) : list Z :=
  match first_mem ops with
  | Some m => match md with M16 => le 2 (m_disp m) | M32 => le 4 (m_disp m) end
  | None => []
  end.


(** ---------------------------------------------------------------- codegen handlers *)

Definition diag_nothing : emit_res := BytesDiag [].

(* the immediate operand of MOV may be a label (looked up in the final symbol table) *)
Definition mov_imm (st : symtab) (size : nat) (p : option pop) : option (list Z) :=
  match p with
  | Some (PImm v) => Some (imm_bytes size v)
  | Some (PLabel l) => match lookup l st with Some a => Some (le size a) | None => None end
  | Some (PReg _ n) => match lookup n st with Some a => Some (le size a) | None => None end
  | _ => None
  end.

Definition emit_mov (md : mode) (st : symtab) (ops : list pop) : emit_res :=
  if negb (Nat.eqb (Datatypes.length ops) 2) then diag_nothing else
  match find_encoding "MOV" ops md true true with
  | None => diag_nothing
  | Some r =>
      let pre := (if require67 ops md then [103] else []) ++ (if require66 ops md && negb (has_creg ops) then [102] else []) in
      match resolve_opcode r ops with
      | None => diag_nothing
      | Some opc =>
          let mid : option (list Z * bool) :=
            match r_modrm r with
            | Some spec => gen_modrm_digit_lenient ops spec md
            | None => Some (disp_bytes_moffs ops md, false)
            end in
          match mid with
          | None => diag_nothing
          | Some (mb, d) =>
              let finish (bs : list Z) := if d then BytesDiag bs else Bytes bs in
              match r_imm r with
              | None => finish (pre ++ opc ++ mb)
              | Some (size, idx) =>
                  match mov_imm st size (nth_error ops idx) with
                  | Some ib => finish (pre ++ opc ++ mb ++ ib)
                  | None => diag_nothing
                  end
              end
          end
      end
  end.

(* generateArithmeticCode / generateLogicalCode / NOT / IMUL share this shape *)
Definition emit_generic (mn : string) (md : mode) (ops : list pop) (anyimm_first : bool) (imul : bool) : emit_res :=
  let r := match find_encoding mn ops md false anyimm_first with
           | Some r => Some (r, false)
           | None => if imul then (match find_encoding mn ops md false true with Some r => Some (r, true) | None => None end) else None
           end in
  match r with
  | None => diag_nothing
  | Some (r, d0) =>
      let pre := (if require66 ops md then [102] else []) ++ (if require67 ops md then [103] else []) in
      match resolve_opcode r ops with
      | None => diag_nothing
      | Some opc =>
          let spec := match r_modrm r with
                      | Some sp => if imul && (mem_string "x" [] || match r_opcode r with [105] | [107] => true | _ => false end)
                                   then Some (MOperand 0%nat, 0%nat) else Some sp
                      | None => None
                      end in
          let mid := match spec with Some sp => gen_modrm_digit_lenient ops sp md | None => Some ([], false) end in
          match mid with
          | None => diag_nothing
          | Some (mb, d) =>
              let finish (bs : list Z) := if d || d0 then BytesDiag bs else Bytes bs in
              match r_imm r with
              | None => finish (pre ++ opc ++ mb)
              | Some (size, idx) =>
                  match nth_error ops idx with
                  | Some (PImm v) => finish (pre ++ opc ++ mb ++ imm_bytes size v)
                  | _ => diag_nothing
                  end
              end
          end
      end
  end.

Definition pushpop_code (n : string) : option Z :=
  match index_of n r16_names 0 with Some k => Some k | None => index_of n r32_names 0 end.

Definition emit_push (md : mode) (st : symtab) (ops : list pop) : emit_res :=
  match ops with
  | [p] =>
      let pre := (if require66 ops md then [102] else []) ++ (if require67 ops md then [103] else []) in
      match p with
      | PReg t n =>
          match t with
          | TCreg => diag_nothing
          | _ => match pushpop_code n with
                 | Some k => Bytes (pre ++ [80 + k])
                 | None =>
                     if String.eqb n "ES" then Bytes (pre ++ [6]) else if String.eqb n "CS" then Bytes (pre ++ [14])
                     else if String.eqb n "SS" then Bytes (pre ++ [22]) else if String.eqb n "DS" then Bytes (pre ++ [30])
                     else if String.eqb n "FS" then Bytes (pre ++ [15; 160]) else if String.eqb n "GS" then Bytes (pre ++ [15; 168])
                     else diag_nothing
                 end
          end
      | PMem _ m =>
          if negb (String.eqb (m_label m) "") then diag_nothing else
          match calc_modrm m md 48 with
          | Some (mrm, sib, disp) => Bytes (pre ++ [255; mrm] ++ (match sib with Some s => [s] | None => [] end) ++ disp)
          | None => diag_nothing
          end
      | PImm v =>       (* code = code[:0]: the prefix derived from the size class of the value is dropped (fix 32e8229) *)
          if (-128 <=? v) && (v <=? 127) then Bytes [106; v mod 256]
          else (match md with
                | M16 => Bytes (104 :: le 2 v)
                | M32 => Bytes (104 :: le 4 v)
                end)
      | PLabel l => diag_nothing     (* type rel16/rel32: "unsupported operand type" *)
      end
  | _ => diag_nothing
  end.

Definition emit_pop (md : mode) (ops : list pop) : emit_res :=
  match ops with
  | [p] =>
      let pre := (if require66 ops md then [102] else []) ++ (if require67 ops md then [103] else []) in
      match p with
      | PReg t n =>
          match t with
          | TCreg => diag_nothing
          | _ => match pushpop_code n with
                 | Some k => Bytes (pre ++ [88 + k])
                 | None =>
                     if String.eqb n "ES" then Bytes (pre ++ [7])
                     else if String.eqb n "SS" then Bytes (pre ++ [23]) else if String.eqb n "DS" then Bytes (pre ++ [31])
                     else if String.eqb n "FS" then Bytes (pre ++ [15; 161]) else if String.eqb n "GS" then Bytes (pre ++ [15; 169])
                     else diag_nothing
                 end
          end
      | PMem _ m =>
          if negb (String.eqb (m_label m) "") then diag_nothing else
          match calc_modrm m md 0 with
          | Some (mrm, sib, disp) => Bytes (pre ++ [143; mrm] ++ (match sib with Some s => [s] | None => [] end) ++ disp)
          | None => diag_nothing
          end
      | _ => diag_nothing
      end
  | _ => diag_nothing
  end.

Definition emit_in (md : mode) (ops : list pop) : emit_res :=
  match ops with
  | [PReg t d; src] =>
      let pre := match md, t with M16, TR32 | M32, TR16 => [102] | _, _ => [] end in
      let accb := String.eqb d "AL" in
      let accw := String.eqb d "AX" || String.eqb d "EAX" in
      match src with
      | PReg _ s =>
          if String.eqb s "DX" then
            (if accb then Bytes (pre ++ [236]) else if accw then Bytes (pre ++ [237]) else diag_nothing)
          else diag_nothing                            (* ParseUint of a register name fails *)
      | PImm v =>
          if (0 <=? v) && (v <=? 255) then
            (if accb then Bytes (pre ++ [228; v]) else if accw then Bytes (pre ++ [229; v]) else diag_nothing)
          else diag_nothing
      | _ => diag_nothing
      end
  | _ => diag_nothing
  end.

Definition emit_out (md : mode) (ops : list pop) : emit_res :=
  match ops with
  | [dst; PReg t s] =>
      let pre := match md, t with M16, TR32 | M32, TR16 => [102] | _, _ => [] end in
      let accb := String.eqb s "AL" in
      let accw := String.eqb s "AX" || String.eqb s "EAX" in
      match dst with
      | PReg _ d =>
          if String.eqb d "DX" then
            (if accb then Bytes (pre ++ [238]) else if accw then Bytes (pre ++ [239]) else diag_nothing)
          else diag_nothing
      | PImm v =>
          if (0 <=? v) && (v <=? 255) then
            (if accb then Bytes (pre ++ [230; v]) else if accw then Bytes (pre ++ [231; v]) else diag_nothing)
          else diag_nothing
      | _ => diag_nothing
      end
  | _ => diag_nothing
  end.

Definition emit_lgdt (md : mode) (st : symtab) (ops : list pop) : emit_res :=
  match ops with
  | [PMem DtNone m] =>
      if negb (String.eqb (m_label m) "") then
        match lookup (m_label m) st with
        | Some a => (match md with M16 => Bytes ([15; 1; 22] ++ le 2 a) | M32 => Bytes ([15; 1; 21] ++ le 4 a) end)
        | None => diag_nothing
        end
      else diag_nothing        (* "label not found": the bracket text is looked up as a name *)
  | _ => diag_nothing
  end.

Definition emit_instr (md : mode) (st : symtab) (mn : string) (es : list exp) : emit_res :=
  match parse_operands es with
  | POk ops =>
      if String.eqb mn "MOV" then emit_mov md st ops
      else if mem_string mn ["ADD"; "SUB"; "CMP"; "AND"; "OR"; "XOR"; "SHL"; "SHR"; "SAR"] then
        if Nat.eqb (Datatypes.length ops) 2 then emit_generic mn md ops true false else diag_nothing
      else if String.eqb mn "NOT" then
        if Nat.eqb (Datatypes.length ops) 1 then emit_generic mn md ops true false else diag_nothing
      else if String.eqb mn "IMUL" then
        if (1 <=? zlen ops) && (zlen ops <=? 3) then emit_generic mn md ops false true else diag_nothing
      else if String.eqb mn "PUSH" then emit_push md st ops
      else if String.eqb mn "POP" then emit_pop md ops
      else if String.eqb mn "IN" then emit_in md ops
      else if String.eqb mn "OUT" then emit_out md ops
      else if String.eqb mn "LGDT" then emit_lgdt md st ops
      else if mem_string mn ["MUL"; "DIV"; "IDIV"] then
        match lookup mn noparam_table with Some b => Bytes [b] | None => diag_nothing end
      else diag_nothing
  | _ => diag_nothing
  end.

(** the encoder instance *)
Definition gosk_est (md : mode) (mn : string) (es : list exp) : option Z :=
  match est_instr md mn es with EstSize n => Some n | _ => None end.

Definition gosk_unmodelled (md : mode) (mn : string) (es : list exp) : bool :=
  match est_instr md mn es with EstUnmodelled => true | _ => false end.

Definition x86_encoder : encoder :=
  {| enc_est := gosk_est;
     enc_kind_ok := fun mn => existsb (String.eqb mn) ocode_kinds;
     enc_emit := emit_instr;
     enc_diag := est_diag_anyway;
     enc_unmodelled := gosk_unmodelled |}.
