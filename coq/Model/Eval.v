(** Model of internal/ast/ast_exp_impl.go: ImmExp/MultExp/AddExp/MemoryAddrExp/SegmentExp.Eval,
    pass1.getConstValue and wrapExpInAddExp.  Transcribed branch by branch, quirks included
    (constant terms are summed and moved last; the operator in front of the first symbolic
    term is dropped; a product is reduced only when every factor is a number). *)
From Coq Require Import List ZArith String Bool.
From Gosk Require Import Base.Bytes Model.Ast.
Import ListNotations.
Local Open Scope Z_scope.

Record eenv := { macros : list (string * exp); eloc : Z }.

Fixpoint lookup {A} (k : string) (l : list (string * A)) : option A :=
  match l with
  | [] => None
  | (k', v) :: r => if String.eqb k k' then Some v else lookup k r
  end.

Definition get_const (e : exp) : option Z :=
  match e with
  | ENum z => Some z
  | EImm (FNum z) => Some z
  | _ => None
  end.

Definition is_num (e : exp) : bool := match e with ENum _ => true | _ => false end.
Definition num_val (e : exp) : Z := match e with ENum z => z | _ => 0 end.

(** result of evaluating; [Stuck] = the Go recursion does not terminate (stack overflow) *)
Inductive eres := Ev (e : exp) (reduced : bool) | Stuck.

Definition mul_fold_step (acc : option Z) (ot : mulop * exp) : option Z :=
  match acc with
  | None => None
  | Some a =>
      let b := num_val (snd ot) in
      match fst ot with
      | OpMul => Some (int64 (a * b))
      | OpDiv => if b =? 0 then None else Some (int64 (Z.quot a b))
      | OpMod => if b =? 0 then None else Some (int64 (Z.rem a b))
      end
  end.

(** term of a rebuilt AddExp must be convertible to *MultExp *)
Definition to_mult (e : exp) : option exp :=
  match e with
  | EMul _ _ => Some e
  | ENum z => Some (EMul (EImm (FNum z)) [])
  | EImm _ => Some (EMul e [])
  | _ => None
  end.

Fixpoint all_some {A} (l : list (option A)) : option (list A) :=
  match l with
  | [] => Some []
  | None :: _ => None
  | Some x :: r => match all_some r with Some r' => Some (x :: r') | None => None end
  end.

(** wrapExpInAddExp *)
Definition wrap_add (e : exp) : option exp :=
  match e with
  | EAdd _ _ => Some e
  | ENum z => Some (EAdd (EMul (EImm (FNum z)) []) [])
  | EImm _ => Some (EAdd (EMul e []) [])
  | _ => None
  end.

(** the two-step "wrap, or keep the original when nothing was reduced" of Memory/SegmentExp.Eval *)
Definition wrap_or (orig evald : exp) (red : bool) : option exp :=
  match wrap_add evald with
  | Some w => Some w
  | None => if red then None else Some orig
  end.

Section WithFuel.
Variable env : eenv.

(* accumulate an AddExp: state = (constSum, terms(rev), ops(rev), reduced) *)
Definition add_acc := (Z * list exp * list addop * bool)%type.

Fixpoint eval (fuel : nat) (e : exp) {struct fuel} : eres :=
  match fuel with
  | O => Stuck
  | S fuel' =>
    match e with
    | ENum z => Ev e true
    | EImm (FNum z) => Ev (ENum z) true
    | EImm (FHex z) => if z <=? 2 ^ 63 - 1 then Ev (ENum z) true else Ev e false
    | EImm (FChr _) => Ev e false                      (* parseChar never succeeds on the stored text *)
    | EImm (FStr _) => Ev e false
    | EImm (FId s) =>
        if String.eqb s "$" then Ev (ENum (eloc env)) true
        else match lookup s (macros env) with
             | Some m => eval fuel' m
             | None => Ev e false
             end
    | EMul h t =>
        match eval fuel' h with
        | Stuck => Stuck
        | Ev eh rh =>
            match t with
            | [] => Ev eh rh
            | _ =>
              let ets := map (fun ot => (fst ot, eval fuel' (snd ot))) t in
              if existsb (fun x => match snd x with Stuck => true | _ => false end) ets then Stuck else
              let ts := map (fun x => (fst x, match snd x with Ev e' _ => e' | Stuck => ENum 0 end)) ets in
              let anyred := existsb (fun x => match snd x with Ev _ r => r | Stuck => false end) ets in
              if is_num eh && forallb (fun x => is_num (snd x)) ts then
                match fold_left mul_fold_step ts (Some (num_val eh)) with
                | Some v => Ev (ENum v) true
                | None => Ev e false                      (* division by zero: left unreduced *)
                end
              else if rh || anyred then Ev (EMul eh ts) true
              else Ev e false
            end
        end
    | EAdd h t =>
        match eval fuel' h with
        | Stuck => Stuck
        | Ev eh rh =>
            let ets := map (fun ot => (fst ot, eval fuel' (snd ot))) t in
            if existsb (fun x => match snd x with Stuck => true | _ => false end) ets then Stuck else
            let start : add_acc :=
              match get_const eh with
              | Some v => (int64 v, [], [], rh)
              | None => (0, [eh], [], rh)
              end in
            let step (a : add_acc) (x : addop * eres) : add_acc :=
              let '(cs, terms, ops, red) := a in
              match snd x with
              | Stuck => a
              | Ev et rt =>
                  let red' := red || rt in
                  match get_const et with
                  | Some v => (match fst x with OpPlus => int64 (cs + v) | OpMinus => int64 (cs - v) end, terms, ops, red')
                  | None =>
                      match terms, fst x with
                      | [], OpMinus => (cs, [et; ENum 0], [OpMinus], red')      (* "c - X": kept as 0 - X (+ c) so that the sign survives (fix in /repo) *)
                      | [], OpPlus => (cs, [et], ops, red')
                      | _, _ => (cs, et :: terms, fst x :: ops, red')
                      end
                  end
              end in
            let '(cs, rterms, rops, red) := fold_left step ets start in
            let terms := rev rterms in
            let ops := rev rops in
            match terms with
            | [] => Ev (ENum cs) true
            | _ =>
              let '(fterms, fops) :=
                if cs =? 0 then (terms, ops)
                else if 0 <? cs then (terms ++ [ENum cs], ops ++ [OpPlus])
                else (terms ++ [ENum (int64 (- cs))], ops ++ [OpMinus]) in
              match fterms, fops with
              | [x], [] => Ev x red
              | x :: rest, _ =>
                  match to_mult x, all_some (map to_mult rest) with
                  | Some hx, Some rs => Ev (EAdd hx (combine fops rs)) red
                  | _, _ => Ev e false
                  end
              | [], _ => Ev (ENum 0) true
              end
            end
        end
    | EMem dt jt l r =>
        match eval fuel' l with
        | Stuck => Stuck
        | Ev el rl =>
            match r with
            | None =>
                match wrap_or l el rl with
                | None => Ev e false
                | Some wl => if rl then Ev (EMem dt jt wl None) true else Ev e false
                end
            | Some r0 =>
                match eval fuel' r0 with
                | Stuck => Stuck
                | Ev er rr =>
                    match wrap_or l el rl, wrap_or r0 er rr with
                    | Some wl, Some wr => if rl || rr then Ev (EMem dt jt wl (Some wr)) true else Ev e false
                    | _, _ => Ev e false
                    end
                end
            end
        end
    | ESeg dt l r =>
        match eval fuel' l with
        | Stuck => Stuck
        | Ev el rl =>
            match r with
            | None =>
                match wrap_or l el rl with
                | None => Ev e false
                | Some wl => if rl then Ev (ESeg dt wl None) true else Ev e false
                end
            | Some r0 =>
                match eval fuel' r0 with
                | Stuck => Stuck
                | Ev er rr =>
                    match wrap_or l el rl, wrap_or r0 er rr with
                    | Some wl, Some wr => if rl || rr then Ev (ESeg dt wl (Some wr)) true else Ev e false
                    | _, _ => Ev e false
                    end
                end
            end
        end
    end
  end.

End WithFuel.

Fixpoint esize (e : exp) : nat :=
  match e with
  | EImm _ | ENum _ => 1
  | EAdd h t => S (esize h + fold_right (fun x n => esize (snd x) + n)%nat 0%nat t)
  | EMul h t => S (esize h + fold_right (fun x n => esize (snd x) + n)%nat 0%nat t)
  | EMem _ _ l r => S (esize l + match r with Some x => esize x | None => 0 end)
  | ESeg _ l r => S (esize l + match r with Some x => esize x | None => 0 end)
  end.

(** fuel used by the harness and by pass 1: enough for the tree plus one macro hop per node,
    macro bodies being stored *evaluated* (numbers or short symbolic sums). *)
Definition eval_fuel (env : eenv) (e : exp) : nat :=
  (2 * esize e + fold_right (fun m n => esize (snd m) + n) 0 (macros env) + 8)%nat.

Definition eval_top (env : eenv) (e : exp) : eres := eval env (eval_fuel env e) e.
