(** The layout rule of internal/gen/grammar.peg on byte strings:
      Char    <- [^\n\r]
      Comment <- ('#' / ';') Char* END        END <- EOL / EOF     EOL <- '\n' / '\r' / "\r\n"
      _       <- ([ \n\t\r] / Comment)*
    [skip_layout] is what `_` consumes (PEG: greedy, no backtracking needed here). *)
From Coq Require Import List ZArith Bool Lia.
Import ListNotations.
Local Open Scope Z_scope.

Definition is_ws (b : Z) : bool := (b =? 32) || (b =? 10) || (b =? 9) || (b =? 13).
Definition is_eol (b : Z) : bool := (b =? 10) || (b =? 13).
Definition is_marker (b : Z) : bool := (b =? 35) || (b =? 59).

(* Char* : up to (not including) the first EOL byte *)
Fixpoint skip_chars (bs : list Z) : list Z :=
  match bs with
  | [] => []
  | b :: r => if is_eol b then bs else skip_chars r
  end.

(* END after the comment text: one EOL byte if present (a following '\n' of CRLF is whitespace for `_`) *)
Definition skip_end (bs : list Z) : list Z := match bs with b :: r => if is_eol b then r else bs | [] => [] end.

Fixpoint skip_layout (fuel : nat) (bs : list Z) : list Z :=
  match fuel with
  | O => bs
  | S f =>
      match bs with
      | [] => []
      | b :: r => if is_ws b then skip_layout f r
                  else if is_marker b then skip_layout f (skip_end (skip_chars r))
                  else bs
      end
  end.
