(** Model of cmd/gosk/main.go + frontend.Exec as a decision procedure over an abstract file system:
    which exit status results and what happens to the destination file. *)
From Coq Require Import List ZArith String Bool.
From Gosk Require Import Base.Bytes Model.Ast Model.Asm Model.Top.
Import ListNotations.
Local Open Scope Z_scope.

Inductive src_state := SrcOk | SrcMissing | SrcUnreadable.       (* os.Stat fails / ReadFile fails (a directory) *)
Inductive dst_state := DstCreatable | DstUncreatable.
Inductive file_effect := Untouched | Emptied | Written (img : list byte).

(* what the assembler proper does with a successfully parsed program *)
Inductive asm_result := AsmImage (img : list byte) | AsmPanic | AsmPass2Fail.

Definition cli (nargs : nat) (s : src_state) (d : dst_state) (parsed : bool) (a : asm_result) : Z * file_effect :=
  if Nat.ltb nargs 2 then (16, Untouched) else
  match s with
  | SrcMissing | SrcUnreadable => (17, Untouched)
  | SrcOk =>
      if negb parsed then (255, Untouched)                (* os.Exit(-1), message with line:col *)
      else match d with
           | DstUncreatable => (17, Untouched)
           | DstCreatable =>
               match a with
               | AsmImage img => (0, Written img)
               | AsmPanic => (2, Emptied)                 (* O_TRUNC happened, the Go runtime exits with status 2 *)
               | AsmPass2Fail => (255, Emptied)
               end
           end
  end.

Definition asm_result_of (o : file_outcome) : asm_result :=
  match o with
  | FDone img _ => AsmImage img
  | FPanicked => AsmPanic
  | FOverflowed => AsmPanic
  | FUnmodelled => AsmPass2Fail
  end.
