(** Model of the gosk pipeline above the instruction encoder:
    pass 1 (internal/pass1: statement fold, LOC, symbol table, EQU map, per-mnemonic
    handlers and their size estimates, the ocode list), pass 2 (label placeholders resolved
    against the finished symbol table), codegen (internal/codegen: the emission fold with
    MachineCodeLen and DollarPosition) and frontend.Exec's format switch.

    The table-driven instruction encoder is a parameter ([encoder]); Model/Encoder.v
    instantiates it.  Everything is total and executable. *)
From Coq Require Import List ZArith String Bool.
From Gosk Require Import Base.Bytes Model.Ast Model.Eval Generated.Tables.
Import ListNotations.
Local Open Scope string_scope.
Local Open Scope list_scope.
Local Open Scope Z_scope.

Inductive mode := M16 | M32.
Definition mode_eqb (a b : mode) := match a, b with M16, M16 | M32, M32 => true | _, _ => false end.

Definition symtab := list (string * Z).

(** what an instruction handler can come back with *)
Inductive emit_res :=
| Bytes (bs : list byte)          (* emitted silently *)
| BytesDiag (bs : list byte)      (* emitted (possibly nothing) and an error-level diagnostic printed *)
| EPanic                          (* runtime panic *)
| EUnmod.                         (* statement outside the modelled fragment *)

Record encoder := {
  (* pass-1 size estimate; None = the handler printed an "Error ..." line and returned
     without advancing LOC and without emitting an ocode *)
  enc_est : mode -> string -> list exp -> option Z;
  (* does pass 1 hand the statement to codegen (false: ocode line rejected by Emit, silently) *)
  enc_kind_ok : string -> bool;
  (* codegen: final mode, final symbol table, mnemonic, evaluated operands *)
  enc_emit : mode -> symtab -> string -> list exp -> emit_res;
  (* the handler printed an "Error ..." line although it went on (IN, PUSH, POP size fallbacks) *)
  enc_diag : mode -> string -> list exp -> bool;
  (* gosk accepts the statement in a way the model does not cover: the whole program is then
     outside the correspondence (never counted as agreement) *)
  enc_unmodelled : mode -> string -> list exp -> bool
}.

Inductive jtarget := JLabel (s : string) | JNum (z : Z) | JText.

Inductive ocode :=
| OData (w : nat) (vals : list Z)
| OResb (n : Z)
| OAlignb (n : Z)
| OJcc (md : mode) (name : string) (t : jtarget)        (* md: the [BITS n] in force where the statement stands *)
| OJmpFar (md : mode) (seg off : Z)
| OJmpFarText
| ONoParam (name : string)
| OInt (v : option Z)
| ORet
| OInstr (md : mode) (mn : string) (ops : list exp)
| OUnmodelled.

Record p1state := {
  loc : Z;                         (* int32 *)
  bmode : mode;
  sym : symtab;
  mac : list (string * exp);
  dollar : Z;                      (* uint32 DollarPosition *)
  globals : list string;
  externs : list string;
  fmt : list Z;                    (* OutputFormat bytes *)
  srcfile : list Z;                (* SourceFileName bytes *)
  ocodes : list ocode;             (* reversed *)
  diag : bool;                     (* an error-level / "Error..." diagnostic was printed *)
  stuck : bool                     (* non-terminating recursion (Go stack overflow) *)
}.

Definition init_state : p1state :=
  {| loc := 0; bmode := M16; sym := []; mac := []; dollar := 0; globals := []; externs := [];
     fmt := []; srcfile := []; ocodes := []; diag := false; stuck := false |}.

Definition set_loc (s : p1state) (l : Z) : p1state :=
  {| loc := l; bmode := bmode s; sym := sym s; mac := mac s; dollar := dollar s; globals := globals s;
     externs := externs s; fmt := fmt s; srcfile := srcfile s; ocodes := ocodes s; diag := diag s; stuck := stuck s |}.
Definition add_loc (s : p1state) (d : Z) : p1state := set_loc s (int32 (loc s + d)).
Definition set_diag (s : p1state) : p1state :=
  {| loc := loc s; bmode := bmode s; sym := sym s; mac := mac s; dollar := dollar s; globals := globals s;
     externs := externs s; fmt := fmt s; srcfile := srcfile s; ocodes := ocodes s; diag := true; stuck := stuck s |}.
Definition set_stuck (s : p1state) : p1state :=
  {| loc := loc s; bmode := bmode s; sym := sym s; mac := mac s; dollar := dollar s; globals := globals s;
     externs := externs s; fmt := fmt s; srcfile := srcfile s; ocodes := ocodes s; diag := diag s; stuck := true |}.
Definition push_ocode (s : p1state) (o : ocode) : p1state :=
  {| loc := loc s; bmode := bmode s; sym := sym s; mac := mac s; dollar := dollar s; globals := globals s;
     externs := externs s; fmt := fmt s; srcfile := srcfile s; ocodes := o :: ocodes s; diag := diag s; stuck := stuck s |}.
Definition set_sym (s : p1state) (k : string) (v : Z) : p1state :=
  {| loc := loc s; bmode := bmode s; sym := (k, v) :: sym s; mac := mac s; dollar := dollar s; globals := globals s;
     externs := externs s; fmt := fmt s; srcfile := srcfile s; ocodes := ocodes s; diag := diag s; stuck := stuck s |}.
Definition set_mac (s : p1state) (k : string) (v : exp) : p1state :=
  {| loc := loc s; bmode := bmode s; sym := sym s; mac := (k, v) :: mac s; dollar := dollar s; globals := globals s;
     externs := externs s; fmt := fmt s; srcfile := srcfile s; ocodes := ocodes s; diag := diag s; stuck := stuck s |}.
Definition set_mode (s : p1state) (m : mode) : p1state :=
  {| loc := loc s; bmode := m; sym := sym s; mac := mac s; dollar := dollar s; globals := globals s;
     externs := externs s; fmt := fmt s; srcfile := srcfile s; ocodes := ocodes s; diag := diag s; stuck := stuck s |}.
Definition set_org (s : p1state) (z : Z) : p1state :=
  {| loc := int32 z; bmode := bmode s; sym := sym s; mac := mac s; dollar := uint32 (dollar s + z); globals := globals s;
     externs := externs s; fmt := fmt s; srcfile := srcfile s; ocodes := ocodes s; diag := diag s; stuck := stuck s |}.
Definition dedup_append (acc : list string) (g : list string) : list string :=
  fold_left (fun a n => if existsb (String.eqb n) a then a else a ++ [n]) g acc.
Definition add_globals (s : p1state) (g : list string) : p1state :=
  {| loc := loc s; bmode := bmode s; sym := sym s; mac := mac s; dollar := dollar s; globals := dedup_append (globals s) g;
     externs := externs s; fmt := fmt s; srcfile := srcfile s; ocodes := ocodes s; diag := diag s; stuck := stuck s |}.
Definition set_fmt (s : p1state) (f : list Z) : p1state :=
  {| loc := loc s; bmode := bmode s; sym := sym s; mac := mac s; dollar := dollar s; globals := globals s;
     externs := externs s; fmt := f; srcfile := srcfile s; ocodes := ocodes s; diag := diag s; stuck := stuck s |}.
Definition set_file (s : p1state) (f : list Z) : p1state :=
  {| loc := loc s; bmode := bmode s; sym := sym s; mac := mac s; dollar := dollar s; globals := globals s;
     externs := externs s; fmt := fmt s; srcfile := f; ocodes := ocodes s; diag := diag s; stuck := stuck s |}.

Definition env_of (s : p1state) : eenv := {| macros := mac s; eloc := loc s |}.

(** ---------- data directives (pass1_inst_pseudo.go) ---------- *)

(* is e the "AddExp/MultExp wrapping a lone string" fallback of processDB? never produced by Eval, kept for fidelity *)
Definition lone_string (e : exp) : option (list Z) :=
  match e with
  | EAdd (EMul (EImm (FStr bs)) []) [] => Some bs
  | EMul (EImm (FStr bs)) [] => Some bs
  | _ => None
  end.

(* one DB operand -> (values appended, loc advance, diagnosed) *)
Definition db_operand (st : symtab) (e : exp) : list Z * bool :=
  match e with
  | ENum v => ([Z.land v 255], false)
  | EImm (FStr bs) => (bs, false)
  | EImm (FId s) => match lookup s st with
                    | Some a => ([Z.land a 255], false)
                    | None => ([], true)
                    end
  | EImm _ => ([], true)
  | EAdd _ _ | EMul _ _ => match lone_string e with Some bs => (bs, false) | None => ([], true) end
  | _ => ([], true)
  end.

Definition dw_operand (st : symtab) (e : exp) : list Z * bool :=
  match e with
  | ENum v => ([int32 (Z.land v 65535)], false)
  | EImm (FId s) => match lookup s st with Some a => ([a], false) | None => ([], true) end
  | _ => ([], true)
  end.

Definition dd_operand (st : symtab) (e : exp) : list Z * bool :=
  match e with
  | ENum v => ([int32 v], false)
  | EImm (FId s) => match lookup s st with Some a => ([a], false) | None => ([], true) end
  | _ => ([], true)
  end.

Definition data_operands (f : symtab -> exp -> list Z * bool) (st : symtab) (ops : list exp) : list Z * bool :=
  fold_left (fun acc e => let '(vs, d) := f st e in (fst acc ++ vs, snd acc || d)) ops ([], false).

Definition with_diag (s : p1state) (d : bool) : p1state := if d then set_diag s else s.

Definition do_data (s : p1state) (w : nat) (f : symtab -> exp -> list Z * bool) (ops : list exp) : p1state :=
  let '(vals, d) := data_operands f (sym s) ops in
  push_ocode (add_loc (with_diag s d) (Z.of_nat w * zlen vals)) (OData w vals).

Definition do_alignb (s : p1state) (ops : list exp) : p1state :=
  match ops with
  | [ENum v] =>
      let unit := int32 v in
      if unit <=? 0 then set_diag s
      else
        let l := loc s in
        (* Go: LOC%unit (truncated); LOC is non-negative on every path the model accepts *)
        let padding := if Z.rem l unit =? 0 then 0 else int32 (int32 (Z.quot (int32 (l + unit - 1)) unit * unit) - l) in
        push_ocode (add_loc s padding) (OAlignb unit)
  | _ => set_diag s
  end.

Definition do_org (s : p1state) (ops : list exp) : p1state :=
  match ops with
  | [ENum v] => set_org s v
  | _ => set_diag s
  end.

Definition do_resb (s : p1state) (ops : list exp) : p1state :=
  match ops with
  | [ENum v] => if v <? 0 then set_diag s else push_ocode (add_loc s (int32 v)) (OResb v)
  | _ => set_diag s
  end.

(** ---------- jumps (pass1_inst_jmp.go) ---------- *)

Definition estimate_jump (name : string) (m : mode) : Z :=
  match m with
  | M16 => if String.eqb name "CALL" then 3 else 2
  | M32 => if String.eqb name "JMP" || String.eqb name "CALL" then 5 else 6
  end.

Definition sym_has (k : string) (st : symtab) : bool := match lookup k st with Some _ => true | None => false end.

(* far JMP: pass 1 never sees a bare number here (SegmentExp.Eval wraps both sides into AddExp nodes, which GetConstValue
   does not look into), so the ocode carries the operand text `[DWORD|WORD ]seg:off`; codegen splits it at the colon and
   reads both parts with ParseInt(…, 10, …).  The text of a side is a decimal numeral exactly when the evaluated side is a
   (wrapped) number; any other size keyword in front makes the segment part unreadable. *)
Definition seg_num (e : exp) : option Z :=
  match e with
  | ENum z | EImm (FNum z) => Some z
  | EAdd (EMul (EImm (FNum z)) []) [] | EAdd (EMul (ENum z) []) [] => Some z
  | _ => None
  end.
Definition far_dt_ok (dt : datatype) : bool := match dt with DtNone | DtWord | DtDword => true | _ => false end.

Definition do_jcc (s : p1state) (name : string) (ops : list exp) : p1state :=
  match ops with
  | [op] =>
      match eval_top (env_of s) op with
      | Stuck => set_stuck s
      | Ev e _ =>
          match e with
          | ENum v =>
              let est := match bmode s with M16 => 3 | M32 => estimate_jump name M32 end in
              push_ocode (add_loc s est) (OJcc (bmode s) name (JNum v))
          | ESeg dt l (Some r) =>
              let est := match bmode s with M16 => 8 | M32 => 7 end in
              match (if far_dt_ok dt then seg_num l else None), seg_num r with
              | Some sv, Some ov => if String.eqb name "JMP" then push_ocode (add_loc s est) (OJmpFar (bmode s) sv ov) else set_diag (add_loc s est)
              | _, _ => if String.eqb name "JMP" then push_ocode (add_loc s est) OJmpFarText else set_diag (add_loc s est)
              end
          | ESeg _ l None => push_ocode (add_loc (set_diag s) 7) (OJcc (bmode s) name JText)
          | EImm (FId lbl) =>
              (* "$" has been evaluated away; a remaining identifier is a label *)
              let s1 := if sym_has lbl (sym s) then s else set_sym s lbl 0 in
              push_ocode (add_loc s1 (estimate_jump name (bmode s))) (OJcc (bmode s) name (JLabel lbl))
          | _ => push_ocode (add_loc s (estimate_jump name (bmode s))) (OJcc (bmode s) name JText)
          end
      end
  | _ => set_diag s
  end.

(** ---------- INT, RET, no-operand ---------- *)

Definition do_int (s : p1state) (ops : list exp) : p1state :=
  match ops with
  | [op] =>
      let size := match get_const op with Some 3 => 1 | _ => 2 end in
      push_ocode (add_loc s size) (OInt (match op with ENum v => Some v | _ => None end))
  | _ => set_diag s
  end.

Definition kind_known (name : string) : bool := existsb (String.eqb name) ocode_kinds.

(* Emit rejects lines whose first word is not an OcodeKind; callers drop the returned error, Emit itself reports it *)
Definition emit (s : p1state) (name : string) (o : ocode) : p1state :=
  if kind_known name then push_ocode s o else set_diag s.       (* Emit logs the rejected line at error level *)

(** ---------- the statement step (traverse.go) ---------- *)

Definition handler_of (op : string) : option string := lookup op pass1_handlers.

Fixpoint eval_operands (env : eenv) (ops : list exp) : option (list exp) :=
  match ops with
  | [] => Some []
  | e :: r => match eval_top env e with
              | Stuck => None
              | Ev e' _ => match eval_operands env r with Some r' => Some (e' :: r') | None => None end
              end
  end.

Definition bits_of (f : factor) : option mode :=
  match f with
  | FNum 16 => Some M16
  | FNum 32 => Some M32
  | _ => None
  end.

Section Step.
Variable E : encoder.

Definition do_mnemonic (s : p1state) (op : string) (ops : list exp) : p1state :=
  match handler_of op with
  | None => set_diag s                                  (* "error: No handler found for opcode" *)
  | Some h =>
      if String.eqb h "processDB" then do_data s 1 db_operand ops
      else if String.eqb h "processDW" then do_data s 2 dw_operand ops
      else if String.eqb h "processDD" then do_data s 4 dd_operand ops
      else if String.eqb h "processRESB" then do_resb s ops
      else if String.eqb h "processALIGNB" then do_alignb s ops
      else if String.eqb h "processORG" then do_org s ops
      else if String.eqb h "processCalcJcc" then do_jcc s op ops
      else if String.eqb h "processCALL" then do_jcc s "CALL" ops
      else if String.eqb h "processNoParam" then emit (add_loc s 1) op (ONoParam op)
      else if String.eqb h "processRET" then emit (add_loc s 1) "RET" ORet
      else if String.eqb h "processINT" then do_int s ops
      else
        (* table-driven and remaining hand-written instruction handlers *)
        if enc_unmodelled E (bmode s) op ops then push_ocode s OUnmodelled else
        match enc_est E (bmode s) op ops with
        | None => set_diag s
        | Some n => let s1 := add_loc (with_diag s (enc_diag E (bmode s) op ops)) n in
                    if enc_kind_ok E op then push_ocode s1 (OInstr (bmode s) op ops) else set_diag s1
        end
  end.

(* mentionsIdent: does the identifier occur in the (evaluated) expression? *)
Fixpoint mentions (n : string) (e : exp) : bool :=
  match e with
  | EImm (FId s) => String.eqb s n
  | EImm _ => false
  | ENum _ => false
  | EAdd h t => mentions n h || (fix go (l : list (addop * exp)) : bool := match l with [] => false | (_, x) :: r => mentions n x || go r end) t
  | EMul h t => mentions n h || (fix go (l : list (mulop * exp)) : bool := match l with [] => false | (_, x) :: r => mentions n x || go r end) t
  | EMem _ _ l r => mentions n l || match r with Some x => mentions n x | None => false end
  | ESeg _ l r => mentions n l || match r with Some x => mentions n x | None => false end
  end.

(* equReaches: is the name reachable from the expression, directly or through the current values of the EQU names occurring
   in it?  (Go walks the map with a visited set; reachability within |macros| hops is the same relation.)  The association
   list may hold shadowed older entries: only the value [lookup] returns counts. *)
Fixpoint equ_reaches (fuel : nat) (macros : list (string * exp)) (n : string) (e : exp) : bool :=
  if mentions n e then true else          (* [if], not [||]/[&&]: vm_compute is call-by-value and would walk every path *)
  match fuel with
  | O => false
  | S f => existsb (fun kv => if mentions (fst kv) e then match lookup (fst kv) macros with Some v => equ_reaches f macros n v | None => false end else false) macros
  end.

Definition step (s : p1state) (st : stmt) : p1state :=
  if stuck s then s else
  match st with
  | SLabel l => set_sym s l (loc s)
  | SEqu n e =>
      match eval_top (env_of s) e with
      | Stuck => set_stuck s
      | Ev e' _ => if equ_reaches (S (Datatypes.length (mac s))) (mac s) n e' then set_diag s   (* circular definition: reported and ignored (fixes 6679a29, 29ece2e) *)
                   else set_mac s n e'
      end
  | SGlobal l => add_globals s l
  | SExtern _ => s
  | SConfig c f =>
      match c with
      | CBits => match bits_of f with Some m => set_mode s m | None => set_diag s end
      | CFormat => match f with FStr bs => set_fmt s bs | _ => set_diag s end
      | CFile => match f with FStr bs => set_file s bs | _ => set_diag s end
      | CSection => match f with FStr _ | FId _ => s | _ => set_diag s end
      | _ => s
      end
  | SMnem op ops =>
      match eval_operands (env_of s) ops with
      | None => set_stuck s
      | Some ops' => do_mnemonic s op ops'
      end
  | SOp op => do_mnemonic s op []
  end.

Definition pass1 (p : program) : p1state := fold_left step p init_state.

(** ---------- codegen ---------- *)

Definition offset_size (d : Z) : Z :=
  if (-128 <=? d) && (d <=? 127) then 1
  else if (-32768 <=? d) && (d <=? 32767) then 2 else 4.

(* x86gen_jmp.go / x86gen_call.go after the fix in /repo: the displacement length follows the operand size.
   32-bit mode: always the rel32 forms (E9 cd, 0F 8x cd, E8 cd) - the sizes pass 1 reserves; 16-bit mode: rel8 when the
   displacement rel-2 fits, rel16 when it fits 16 bits, else the 66h-prefixed rel32 forms with the prefix counted in the
   instruction length. *)
Definition jump_form (m : mode) (rel : Z) : Z := match m with M32 => 4 | M16 => offset_size (rel - 2) end.

Definition gen_jmp (m : mode) (rel : Z) : list byte :=
  match jump_form m rel with
  | 1 => [235; (rel - 2) mod 256]
  | 2 => 233 :: le 2 (rel - 3)
  | _ => match m with M16 => 102 :: 233 :: le 4 (rel - 6) | M32 => 233 :: le 4 (rel - 5) end
  end.

Definition gen_jcc (m : mode) (opc : Z) (rel : Z) : list byte :=
  match jump_form m rel with
  | 1 => [opc; (rel - 2) mod 256]
  | 2 => 15 :: (opc + 16) mod 256 :: le 2 (rel - 4)
  | _ => match m with
         | M16 => 102 :: 15 :: (opc + 16) mod 256 :: le 4 (rel - 7)
         | M32 => 15 :: (opc + 16) mod 256 :: le 4 (rel - 6)
         end
  end.

Definition gen_call (m : mode) (rel : Z) : list byte :=
  match m with
  | M16 => if (-32768 <=? rel - 3) && (rel - 3 <=? 32767) then 232 :: le 2 (rel - 3) else 102 :: 232 :: le 4 (rel - 6)
  | M32 => 232 :: le 4 (rel - 5)
  end.

Definition in_range (lo hi v : Z) : bool := (lo <=? v) && (v <=? hi).

Definition gen_ocode (m : mode) (st : symtab) (dol : Z) (len : Z) (o : ocode) : emit_res :=
  match o with
  | OData w vals => Bytes (flat_map (le w) vals)
  | OResb n => if n <? 0 then BytesDiag [] else Bytes (zeros n)
  | OAlignb n =>
      if (n <=? 0) || negb (Z.land n (n - 1) =? 0) then BytesDiag []
      else Bytes (zeros ((n - (dol + len) mod n) mod n))      (* the address, not the output length (fix 9af2c29) *)
  | OJcc md name t =>        (* encoded in the mode recorded with the ocode, not in codegen's final mode (fix in /repo) *)
      let dest := match t with
                  | JLabel l => lookup l st
                  | JNum v => Some v
                  | JText => None
                  end in
      match dest with
      | None => BytesDiag []
      | Some d =>
          let rel := d - (dol + len) in
          if String.eqb name "JMP" then Bytes (gen_jmp md rel)
          else if String.eqb name "CALL" then Bytes (gen_call md rel)
          else match lookup name jcc_table with
               | Some opc => Bytes (gen_jcc md opc rel)
               | None => BytesDiag []
               end
      end
  | OJmpFar md sg off =>
      if in_range (-32768) 32767 sg && in_range (-2147483648) 2147483647 off then
        Bytes ((match md with M16 => [102] | M32 => [] end) ++ 234 :: le 4 off ++ le 2 sg)
      else BytesDiag []
  | OJmpFarText => BytesDiag []
  | ONoParam name => match lookup name noparam_table with
                     | Some b => Bytes [b]
                     | None => BytesDiag []       (* "not implemented" error from processOcode *)
                     end
  | OInt v => match v with
              | Some z => if z =? 3 then Bytes [204]       (* INT 3 -> CC, the size pass 1 counted (fix 1a62747) *)
                          else if in_range 0 255 z then Bytes [205; z] else BytesDiag []     (* ParseUint(...,10,8) fails: error logged, nothing emitted *)
              | None => BytesDiag []
              end
  | ORet => Bytes [195]
  | OInstr md mn ops => enc_emit E md st mn ops
  | OUnmodelled => EUnmod
  end.

Inductive gen_out := GOk (bs : list byte) (d : bool) | GPanic | GUnmod.

Fixpoint codegen (m : mode) (st : symtab) (dol : Z) (acc : list byte) (d : bool) (os : list ocode) : gen_out :=
  match os with
  | [] => GOk acc d
  | o :: r =>
      match gen_ocode m st dol (zlen acc) o with
      | Bytes bs => codegen m st dol (acc ++ bs) d r
      | BytesDiag bs => codegen m st dol (acc ++ bs) true r
      | EPanic => GPanic
      | EUnmod => GUnmod
      end
  end.

Inductive outcome :=
| Done (text : list byte) (diagnosed : bool) (final : p1state)
| Panicked
| Overflowed
| Unmodelled.

Definition assemble (p : program) : outcome :=
  let s := pass1 p in
  if stuck s then Overflowed else
  match codegen (bmode s) (sym s) (dollar s) [] (diag s) (rev (ocodes s)) with
  | GOk bs d => Done bs d s
  | GPanic => Panicked
  | GUnmod => Unmodelled
  end.

End Step.
