(** AST of a gosk source program, as produced by the pigeon parser (internal/ast). *)
From Coq Require Import List ZArith String.
Import ListNotations.
Local Open Scope Z_scope.

Inductive addop := OpPlus | OpMinus.
Inductive mulop := OpMul | OpDiv | OpMod.
Inductive datatype := DtNone | DtByte | DtWord | DtDword.
Inductive jumptype := JtNone | JtShort | JtNear | JtFar.

Inductive factor :=
| FNum (z : Z)                 (* NumberFactor: '-'? [0-9]+, already within int64 (strconv.Atoi succeeded) *)
| FHex (z : Z)                 (* HexFactor: value of the digits, any size *)
| FId (s : string)             (* IdentFactor (includes "$") *)
| FStr (bs : list Z)           (* StringFactor: the unquoted bytes *)
| FChr (bs : list Z).          (* CharFactor *)

(** Untyped expression tree.  The parser builds EAdd [EMul [leaf | EAdd ...]]; Eval may put
    any node anywhere, exactly as the Go interfaces allow. *)
Inductive exp :=
| EImm (f : factor)
| ENum (z : Z)                                   (* NumberExp: a fully evaluated value *)
| EAdd (h : exp) (t : list (addop * exp))
| EMul (h : exp) (t : list (mulop * exp))
| EMem (dt : datatype) (jt : jumptype) (l : exp) (r : option exp)
| ESeg (dt : datatype) (l : exp) (r : option exp).

Inductive config := CBits | CInstrset | COptimize | CFormat | CPadding | CPadset | CSection | CAbsolute | CFile.

Inductive stmt :=
| SLabel (s : string)
| SEqu (s : string) (e : exp)
| SGlobal (l : list string)
| SExtern (l : list string)
| SConfig (c : config) (f : factor)
| SMnem (op : string) (ops : list exp)
| SOp (op : string).

Definition program := list stmt.

(** smart constructors matching what the parser produces for common operands *)
Definition leaf (f : factor) : exp := EAdd (EMul (EImm f) []) [].
Definition num (z : Z) : exp := leaf (FNum z).
Definition ident (s : string) : exp := leaf (FId s).
