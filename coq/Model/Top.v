(** frontend.Exec's format switch: what ends up in the destination file. *)
From Coq Require Import List ZArith String Bool.
From Gosk Require Import Base.Bytes Model.Ast Model.Eval Model.Asm Model.Coff Model.Encoder.
Import ListNotations.
Local Open Scope Z_scope.

Definition wcoff_bytes : list byte := [87; 67; 79; 70; 70].

Fixpoint beqb (a b : list Z) : bool :=
  match a, b with
  | [], [] => true
  | x :: a', y :: b' => (x =? y) && beqb a' b'
  | _, _ => false
  end.

Inductive file_outcome :=
| FDone (image : list byte) (diagnosed : bool)
| FPanicked          (* destination was truncated by Exec, nothing written *)
| FOverflowed
| FUnmodelled.

Definition assemble_file (E : encoder) (p : program) : file_outcome :=
  match assemble E p with
  | Done text d s =>
      if beqb (fmt s) wcoff_bytes then FDone (coff_write text (srcfile s) (globals s) (sym s)) d
      else FDone text d
  | Panicked => FPanicked
  | Overflowed => FOverflowed
  | Unmodelled => FUnmodelled
  end.
