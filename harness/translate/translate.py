#!/usr/bin/env python3
"""Translators T1-T3: regenerate coq/Generated/*.v from /repo's current source.

Fail closed: any shape that is not recognised aborts with a non-zero exit and a message
`translator cannot read <what>`; the checks report that as a broken tie.
"""
import json, os, re, sys
VERIF = os.path.dirname(os.path.dirname(os.path.dirname(os.path.abspath(__file__))))
REPO = os.environ.get("VERIF_REPO", "/repo")
GEN = os.path.join(VERIF, "coq", "Generated")


def die(what):
    sys.stderr.write("translator cannot read %s\n" % what)
    print("translator cannot read %s" % what)
    sys.exit(3)


def read(rel):
    p = os.path.join(REPO, rel)
    if not os.path.exists(p):
        die(rel)
    return open(p, encoding="utf-8").read()


def strip_go_comments(s):
    s = re.sub(r"/\*.*?\*/", "", s, flags=re.S)
    out = []
    for ln in s.split("\n"):
        # naive but safe for these files: cut at // outside of quotes
        inq = False
        res = ""
        i = 0
        while i < len(ln):
            c = ln[i]
            if c == '"':
                inq = not inq
            if not inq and ln[i:i + 2] == "//":
                break
            res += c
            i += 1
        out.append(res)
    return "\n".join(out)


def qs(s):
    assert '"' not in s
    return '"%s"' % s


def slist(xs):
    return "[" + "; ".join(qs(x) for x in xs) + "]"


def main():
    os.makedirs(GEN, exist_ok=True)
    tables = json.load(open(os.path.join(VERIF, "_build", "tables.json")))

    # ---- T2a: handlers.go registry (order of assignment matters: later wins)
    h = strip_go_comments(read("internal/pass1/handlers.go"))
    m = re.search(r"noParamOps\s*:=\s*\[\]string\s*\{(.*?)\}", h, re.S)
    if not m:
        die("internal/pass1/handlers.go: noParamOps literal")
    noparam_ops = re.findall(r'"([A-Z0-9_]+)"', m.group(1))
    m = re.search(r"jmpOps\s*:=\s*\[\]string\s*\{(.*?)\}", h, re.S)
    if not m:
        die("internal/pass1/handlers.go: jmpOps literal")
    jmp_ops = re.findall(r'"([A-Z0-9_]+)"', m.group(1))
    handler = {}
    # textual order: pseudo assignments, jmp map merge, noparam loop, explicit assignments
    pos_jmp = h.find("opcodeEvalFns = lo.Assign(opcodeEvalFns, jmpFns)")
    pos_np = h.find("for _, op := range noParamOps")
    if pos_jmp < 0 or pos_np < 0:
        die("internal/pass1/handlers.go: registration of jmpOps/noParamOps")
    events = []
    for mm in re.finditer(r'opcodeEvalFns\["([A-Z0-9_]+)"\]\s*=\s*(\w+)', h):
        events.append((mm.start(), "one", mm.group(1), mm.group(2)))
    events.append((pos_jmp, "jmp", None, None))
    events.append((pos_np, "np", None, None))
    for _, kind, k, fn in sorted(events):
        if kind == "one":
            handler[k] = fn
        elif kind == "jmp":
            for k2 in jmp_ops:
                handler[k2] = "processCalcJcc"
        else:
            for k2 in noparam_ops:
                handler[k2] = "processNoParam"
    keys = sorted(handler)
    if keys != sorted(tables["pass1_keys"]):
        die("internal/pass1/handlers.go: registry differs from run-time opcodeEvalFns (%s)" %
            sorted(set(keys) ^ set(tables["pass1_keys"]))[:6])

    # ---- T2b: codegen dispatch set
    x = strip_go_comments(read("internal/codegen/x86gen.go"))
    m = re.search(r"switch oc\.Kind \{(.*?)\n\tdefault:", x, re.S)
    if not m:
        die("internal/codegen/x86gen.go: switch oc.Kind")
    body = m.group(1)
    dispatch = {}
    for mm in re.finditer(r"case ([^:]*?):\s*\n\s*return (\w+)\(", body, re.S):
        for k in re.findall(r"ocode\.Op(\w+)", mm.group(1)):
            dispatch[k] = mm.group(2)
    if len(dispatch) < 20:
        die("internal/codegen/x86gen.go: case labels")
    if "if _, exists := opcodeMap[oc.Kind]; exists" not in x:
        die("internal/codegen/x86gen.go: opcodeMap pre-dispatch")

    # ---- T2c: Jcc opcode table
    j = strip_go_comments(read("internal/codegen/x86gen_jmp.go"))
    jcc = re.findall(r"case ocode\.Op(J\w+):\s*\n\s*opcode = (0x[0-9A-Fa-f]+)", j)
    if len(jcc) < 25:
        die("internal/codegen/x86gen_jmp.go: condition-code table")

    # ---- T3: grammar keyword lists (ordered)
    g = read("internal/gen/grammar.peg")

    def alt_list(name, text):
        mm = re.search(r"^%s\s*(?:=|<-)\s*(.*?);" % name, text, re.S | re.M)
        if not mm:
            die("grammar rule %s" % name)
        return re.findall(r'"([A-Za-z0-9_]+)"', mm.group(1))
    opcodes = alt_list("Opcode", g)
    conf = alt_list("Conf", g)
    datatypes = alt_list("DataType", g)
    mm = re.search(r'^ReservedWord\s*=\s*(.*?);', g, re.M)
    if not mm:
        die("grammar rule ReservedWord")
    reserved = re.findall(r'"([A-Za-z0-9_]+)"', mm.group(1)) + datatypes
    og = read("pkg/ng_operand/operand_grammar.peg")
    mm = re.search(r"^GeneralReg\s*=\s*(.*?)\nSegmentRegisterName", og, re.S | re.M)
    if not mm:
        die("operand grammar GeneralReg")
    genregs = re.findall(r'"([A-Za-z0-9_]+)"', mm.group(1))
    regnames = list(genregs)
    for rule in ("SegmentRegisterName", "MMXReg", "XMMReg", "YMMReg", "ControlReg", "DebugReg", "TestReg"):
        mm = re.search(r"^%s\s*=\s*(.*)$" % rule, og, re.M)
        if not mm:
            die("operand grammar %s" % rule)
        regnames += re.findall(r'"([A-Za-z0-9_]+)"', mm.group(1))
    op_reserved = ["BYTE", "WORD", "DWORD", "SHORT", "NEAR", "FAR", "PTR"]
    mm = re.search(r"^ReservedWord\s*=\s*DataType\s*/\s*JumpType\s*/\s*\"PTR\"", og, re.M)
    if not mm:
        die("operand grammar ReservedWord")

    out = []
    out.append("(* GENERATED by harness/translate/translate.py from /repo - do not edit *)")
    out.append("From Coq Require Import List ZArith String.\nImport ListNotations.\nLocal Open Scope Z_scope.\nLocal Open Scope string_scope.\n")
    out.append("Definition noparam_table : list (string * Z) :=\n [" +
               "; ".join("(%s, %d)" % (qs(k[2:] if k.startswith("Op") else k), v) for k, v in sorted(tables["noparam"].items())) + "].\n")
    out.append("Definition ocode_kinds : list string := " + slist([k[2:] for k in tables["ocode_kinds"]]) + ".\n")
    out.append("Definition pass1_handlers : list (string * string) :=\n [" +
               "; ".join("(%s, %s)" % (qs(k), qs(handler[k])) for k in keys) + "].\n")
    out.append("Definition codegen_dispatch : list (string * string) :=\n [" +
               "; ".join("(%s, %s)" % (qs(k), qs(v)) for k, v in sorted(dispatch.items())) + "].\n")
    out.append("Definition jcc_table : list (string * Z) :=\n [" +
               "; ".join("(%s, %d)" % (qs(k), int(v, 16)) for k, v in jcc) + "].\n")
    out.append("Definition grammar_opcodes : list string := " + slist(opcodes) + ".\n")
    out.append("Definition grammar_conf : list string := " + slist(conf) + ".\n")
    out.append("Definition grammar_reserved : list string := " + slist(reserved) + ".\n")
    out.append("Definition operand_regnames : list string := " + slist(regnames) + ".\n")
    out.append("Definition operand_reserved : list string := " + slist(op_reserved) + ".\n")
    # ---- T1': FindEncoding tabulated over the finite operand-class skeleton (driver mode `rows`)
    rows = json.load(open(os.path.join(VERIF, "_build", "rows.json")))
    TY = {"r8": "TR8", "r16": "TR16", "r32": "TR32", "sreg": "TSreg", "creg": "TCreg", "imm8": "TImm8", "imm16": "TImm16",
          "imm32": "TImm32", "m8": "TM8", "m16": "TM16", "m32": "TM32", "rel16": "TRel16", "rel32": "TRel32", "imm64": "TImm64"}
    rl = []
    for r in rows:
        if not r["found"]:
            continue
        for t in r["types"]:
            if t not in TY:
                die("FindEncoding table: operand type %r" % t)
        ob = r["opcode"]
        if len(ob) % 2:
            die("FindEncoding table: opcode %r" % ob)
        opc = "[" + "; ".join(str(int(ob[i:i + 2], 16)) for i in range(0, len(ob), 2)) + "]"
        add = "None" if not r["addend"] else "Some %d%%nat" % int(r["addend"].lstrip("#"))
        if r["has_modrm"]:
            reg = r["Reg"]
            regs = "MOperand %d%%nat" % int(reg[1:]) if reg.startswith("#") else "MDigit %d" % int(reg)
            if not r["Rm"].startswith("#"):
                die("FindEncoding table: ModRM.rm %r" % r["Rm"])
            mod = "Some (%s, %d%%nat)" % (regs, int(r["Rm"][1:]))
        else:
            mod = "None"
        imm = "None" if not r["imm_size"] else "Some (%d%%nat, %d%%nat)" % (r["imm_size"], int(r["imm_val"].lstrip("#")))
        rl.append("((%s, [%s], %s, %s, %s, %s), {| r_opcode := %s; r_addend := %s; r_modrm := %s; r_imm := %s; r_base := %d |})" % (
            qs(r["mn"]), "; ".join(TY[t] for t in r["types"]), str(r["Acc"]).lower(), str(r["Fits8"]).lower(), str(r["Ind"]).lower(), str(r["AnyImm"]).lower(),
            opc, add, mod, imm, r["base_size"]))
    rtxt = ("(* GENERATED by harness/translate/translate.py: asmdb.FindEncoding tabulated by the driver - do not edit *)\n"
            "From Coq Require Import List ZArith String.\nImport ListNotations.\nLocal Open Scope Z_scope.\nLocal Open Scope string_scope.\n\n"
            "Inductive otype := TR8 | TR16 | TR32 | TSreg | TCreg | TImm8 | TImm16 | TImm32 | TImm64 | TM8 | TM16 | TM32 | TRel16 | TRel32 | TOther.\n"
            "Inductive mreg := MOperand (i : nat) | MDigit (d : Z).\n"
            "Record row := { r_opcode : list Z; r_addend : option nat; r_modrm : option (mreg * nat); r_imm : option (nat * nat); r_base : Z }.\n"
            "Definition rowkey := (string * list otype * bool * bool * bool * bool)%type.\n"
            "Definition rows : list (rowkey * row) :=\n [" + ";\n  ".join(rl) + "].\n")
    p2 = os.path.join(GEN, "Rows.v")
    if not os.path.exists(p2) or open(p2).read() != rtxt:
        open(p2, "w").write(rtxt)
    txt = "\n".join(out)
    p = os.path.join(GEN, "Tables.v")
    if not os.path.exists(p) or open(p).read() != txt:
        open(p, "w").write(txt)
    json.dump({"handler": handler, "dispatch": dispatch, "jcc": jcc, "opcodes": opcodes, "noparam": tables["noparam"],
               "ocode_kinds": tables["ocode_kinds"], "regnames": regnames, "reserved": reserved, "op_reserved": op_reserved},
              open(os.path.join(VERIF, "_build", "registry.json"), "w"))


if __name__ == "__main__":
    main()
