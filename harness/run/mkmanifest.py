#!/usr/bin/env python3
"""Regenerates MANIFEST.json from the table below (kept in one place so it stays valid)."""
import json, os
VERIF = os.path.dirname(os.path.dirname(os.path.dirname(os.path.abspath(__file__))))
CLAIMED = {
 "C05": ("proof", "Theorems C05_db/dw/dd/resb/alignb/silent (coq/Props/C05.v) prove over the Coq model of pass 1 + codegen that, for every operand list, value, count and residue, the data directives emit exactly the specified bytes and advance LOC by that many; the model is tied to /repo on every run by a byte-level correspondence over an exhaustive directive x operand-kind x boundary-value skeleton plus seeded random programs, and the independent reference semantics Spec/DataProg.v is evaluated on gosk's own output to search for failing inputs.",
         "9 C05", "Coq kernel; hand-written model Model/Asm.v tied by correspondence (differential); decimal text hop FormatInt/Atoi between pass 1 and codegen modelled as identity on Z; generators in harness/run/props/c05.py",
         "Coq theorems over an executable model + model/implementation correspondence + spec evaluation on implementation output"),
}
ALL = ["C%02d" % i for i in range(1, 20)]
checks = []
for p in ALL:
    if p in CLAIMED:
        cat, text, ref, note, tech = CLAIMED[p]
        checks.append({"property_id": p, "quick_cmd": "python3 harness/run/check.py %s quick" % p,
                       "thorough_cmd": "python3 harness/run/check.py %s thorough" % p,
                       "evidence_file": "/verif/evidence/%s.json" % p,
                       "replay_cmd_template": "python3 harness/run/replay.py {path}",
                       "engine": "coq-gosk",
                       "level_claimed": {"category": cat, "text": text, "design_ref": "DESIGN.md section " + ref},
                       "level_note": note, "technique": tech})
m = {"version": 1,
     "setup_cmd": "python3 harness/run/setup.py",
     "hooks": {"guard": "verif", "enable": "go build -overlay /verif/harness/overlay.json -tags verif ./cmd/goskverif (driver sources live in /verif/harness/driver; nothing is committed to /repo)",
               "baseline_off_cmd": "cd /repo && GOFLAGS=-mod=mod GOPROXY=off GOSUMDB=off GOTOOLCHAIN=local go test -json -vet=off -count=1 -timeout 25m ./...",
               "source_commits": [], "add_only": True},
     "engines": [{"name": "coq-gosk", "path": "/verif/coq", "serves_properties": sorted(CLAIMED), "kind_free_text": "Coq 8.16.1 development: executable Gallina model of gosk, independent specifications, theorems; evaluated by vm_compute against the implementation through harness/run"}],
     "checks": checks,
     "not_applicable": [{"property_id": p, "reason": "check under construction in this build round (claimed once its theorem file and correspondence exist)"} for p in ALL if p not in CLAIMED],
     "notes": "see DESIGN.md; every check rebuilds the driver from /repo's working tree through go build -overlay and re-checks the Coq development when its inputs changed"}
json.dump(m, open(os.path.join(VERIF, "MANIFEST.json"), "w"), indent=1)
