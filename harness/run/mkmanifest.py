#!/usr/bin/env python3
"""Regenerates MANIFEST.json from the table below (kept in one place so it stays valid)."""
import json, os
VERIF = os.path.dirname(os.path.dirname(os.path.dirname(os.path.abspath(__file__))))
TECH = "Coq theorems over an executable model + model/implementation correspondence + spec evaluation on implementation output"
NOTE = "Coq 8.16.1 kernel, no axioms; hand-written model coq/Model tied to /repo by correspondence (differential) on generated inputs; tables in coq/Generated regenerated from /repo per run; see DESIGN.md section 10"
CLAIMED = {
 "C04": ("proof", "Theorems C04_jmp_short/jcc_short/call16/jmp16_near prove, for every address and every target in Z, that the model's branch emitters decode under the ISA branch decoder (Spec/Branch.v) to the named kind with the emitted length and land on the target, on the domain where gosk's form selection is right (rel8 both modes; 16-bit near forms); C04_cc_table re-proves all 30 condition mnemonics against the table regenerated from x86gen_jmp.go; outside the domain the behaviour is refuted by witnesses and listed as known findings. Tie: exact byte correspondence model vs gosk over 31 mnemonics+CALL x distances x directions x ORG x BITS; search: the decoder applied to gosk's own output.",
         "9 C04", NOTE, TECH),
 "C06": ("proof", "Theorem C06_eval_const/eval_top: for every closed constant expression (any depth, literals in int64, EQU names, $) the model of gosk's Eval returns exactly Spec/Arith.aeval (precedence, left associativity, truncating division, 64-bit wrap); tie: correspondence on enumerated operator/precedence trees and random trees in DD/DW/DB/RESB/EQU/ORG positions; search: the arithmetic spec evaluated against gosk's output, spacing variants.",
         "9 C06", NOTE, TECH),
 "C08": ("proof", "Model/Coff.v models the COFF writer; Spec/CoffRead.v is an independent bounds-checked reader. Every object gosk writes for the generated programs is parsed by the reader inside Coq and checked for layout consistency (counts, offsets, string table), and the whole file is compared with the model. Theorems: see Props/C08.v.",
         "9 C08", NOTE, TECH),
 "C09": ("proof", "The reader extracts .text and the symbol records from gosk's object and compares them with the flat binary of the same source and with the declared GLOBAL set (exactly once, external, section 1, value = label offset, sorted, undefined last, FILE in aux). Theorems: see Props/C09.v.",
         "9 C09", NOTE, TECH),
 "C05": ("proof", "Theorems C05_db/dw/dd/resb/alignb/silent (coq/Props/C05.v) prove over the Coq model of pass 1 + codegen that, for every operand list, value, count and residue, the data directives emit exactly the specified bytes and advance LOC by that many; the model is tied to /repo on every run by a byte-level correspondence over an exhaustive directive x operand-kind x boundary-value skeleton plus seeded random programs, and the independent reference semantics Spec/DataProg.v is evaluated on gosk's own output to search for failing inputs.",
         "9 C05", "Coq kernel; hand-written model Model/Asm.v tied by correspondence (differential); decimal text hop FormatInt/Atoi between pass 1 and codegen modelled as identity on Z; generators in harness/run/props/c05.py",
         "Coq theorems over an executable model + model/implementation correspondence + spec evaluation on implementation output"),
}
ALL = ["C%02d" % i for i in range(1, 20)]
checks = []
for p in ALL:
    if p in CLAIMED:
        cat, text, ref, note, tech = CLAIMED[p]
        checks.append({"property_id": p, "quick_cmd": "python3 harness/run/check.py %s quick" % p,
                       "thorough_cmd": "python3 harness/run/check.py %s thorough" % p,
                       "evidence_file": "/verif/evidence/%s.json" % p,
                       "replay_cmd_template": "python3 harness/run/replay.py {path}",
                       "engine": "coq-gosk",
                       "level_claimed": {"category": cat, "text": text, "design_ref": "DESIGN.md section " + ref},
                       "level_note": note, "technique": tech})
m = {"version": 1,
     "setup_cmd": "python3 harness/run/setup.py",
     "hooks": {"guard": "verif", "enable": "go build -overlay /verif/harness/overlay.json -tags verif ./cmd/goskverif (driver sources live in /verif/harness/driver; nothing is committed to /repo)",
               "baseline_off_cmd": "cd /repo && GOFLAGS=-mod=mod GOPROXY=off GOSUMDB=off GOTOOLCHAIN=local go test -json -vet=off -count=1 -timeout 25m ./...",
               "source_commits": [], "add_only": True},
     "engines": [{"name": "coq-gosk", "path": "/verif/coq", "serves_properties": sorted(CLAIMED), "kind_free_text": "Coq 8.16.1 development: executable Gallina model of gosk, independent specifications, theorems; evaluated by vm_compute against the implementation through harness/run"}],
     "checks": checks,
     "not_applicable": [{"property_id": p, "reason": "check under construction in this build round (claimed once its theorem file and correspondence exist)"} for p in ALL if p not in CLAIMED],
     "notes": "see DESIGN.md; every check rebuilds the driver from /repo's working tree through go build -overlay and re-checks the Coq development when its inputs changed"}
json.dump(m, open(os.path.join(VERIF, "MANIFEST.json"), "w"), indent=1)
