#!/bin/bash
# try_seed.sh <patchdir> <Cxx> [more checks]: apply a seeded change to /repo's working tree, run the quick checks, undo it.
cd /verif
d=$1; shift
git -C /repo apply $d/patch.diff || { echo "patch does not apply"; exit 8; }
for p in "$@"; do
  r=$(timeout 3000 python3 harness/run/check.py $p quick 2>&1 | grep "VIOLATION" | head -1)
  if [ -z "$r" ]; then echo "$p: MISSED"; else
    f=$(echo "$r" | sed 's/.*replay=\([^ ]*\).*/\1/'); w=$(python3 -c "import json,sys; d=json.load(open('$f')); print((d.get('what') or d.get('no_longer_checks'))[:160])")
    echo "$p: DETECTED $(echo "$r" | grep -q no-failing && echo '(no failing input found)') :: $w"; fi
done
git -C /repo checkout -- .
git -C /repo status --short
