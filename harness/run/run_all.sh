#!/bin/bash
# run_all.sh [quick|thorough]: every check in sequence, one line each
T=${1:-quick}
cd /verif
for p in C01 C02 C03 C04 C05 C06 C07 C08 C09 C10 C11 C12 C13 C14 C15 C16 C17 C18 C19; do
  s=$(date +%s)
  out=$(timeout 7200 python3 harness/run/check.py $p $T 2>&1); rc=$?
  e=$(( $(date +%s) - s ))
  echo "$p rc=$rc ${e}s $(echo "$out" | grep -c KNOWN-FINDING) known; $(echo "$out" | grep VIOLATION | head -1 | cut -c1-150)"
done
