import sys, os, random
sys.path.insert(0, os.path.dirname(__file__))
import lib
from props import c07
lib.sync()
v = lib.Verdict("C07", sys.argv[1] if len(sys.argv) > 1 else "quick")
c07.run(v, v.tier, random.Random(1), write_known=True)
print(v.cov["outcomes"], v.cov["failures"], len(v.violations))
