#!/usr/bin/env python3
"""keep_seed.py <Cxx> <name> [detected_by]: copy a confirmed seeded change from /tmp/mutout/<Cxx> to /verif/seeded/<name>/"""
import json, os, shutil, sys
P, name = sys.argv[1], sys.argv[2]
src = "/tmp/mutout/%s" % P
dst = "/verif/seeded/%s" % name
os.makedirs(dst, exist_ok=True)
for f in os.listdir(src):
    if os.path.isfile(os.path.join(src, f)):
        shutil.copy(os.path.join(src, f), dst)
m = json.load(open(os.path.join(dst, "meta.json")))
m["confirmed_by_verifier"] = ("harness/run/confirm_seed.sh %s: scratch worktree of /repo, demo test passes on the clean tree; with patch.diff applied "
                              "`go build ./...` and the full suite `go test -vet=off -count=1 ./...` pass and the demo fails" % P)
if len(sys.argv) > 3:
    m["checks_run"] = sys.argv[3]
json.dump(m, open(os.path.join(dst, "meta.json"), "w"), indent=1)
print("kept", dst)
