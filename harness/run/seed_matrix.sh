#!/bin/bash
# seed_matrix.sh: apply every seeded change to /repo (working tree only), run the quick check of its property, undo it.
cd /verif
out=_build/seed_matrix.txt; : > $out
for d in seeded/*/; do
  n=$(basename $d); p=${n%%-*}
  git -C /repo apply /verif/$d/patch.diff || { echo "$n patch does not apply" >> $out; continue; }
  r=$(timeout 3000 python3 harness/run/check.py $p quick 2>&1 | grep VIOLATION | head -1)
  git -C /repo checkout -- .
  if [ -z "$r" ]; then echo "$n MISSED" >> $out; else
    f=$(echo "$r" | sed 's/.*replay=\([^ ]*\).*/\1/'); w=$(python3 -c "import json,sys; d=json.load(open('$f')); print((d.get('what') or d.get('no_longer_checks'))[:110])")
    echo "$n DETECTED $(echo "$r" | grep -q no-failing && echo '(no failing input found)') :: $w" >> $out; fi
done
git -C /repo status --short >> $out
cat $out
