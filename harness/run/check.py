#!/usr/bin/env python3
"""check.py <Cxx> [quick|thorough]  - one property check (see DESIGN.md section 7)."""
import importlib, os, random, sys, traceback
sys.path.insert(0, os.path.dirname(os.path.abspath(__file__)))
import lib


def main():
    prop = sys.argv[1]
    tr = lib.tier(sys.argv[1:])
    mod = importlib.import_module("props." + prop.lower())
    v = lib.Verdict(prop, tr, level=getattr(mod, "LEVEL", "proof"))
    proof = None
    try:
        st = lib.sync()
        v.extra["sync"] = {k: st[k] for k in st if k in ("sync_s", "coq_rebuilt", "coq_make_s", "rebuilt_driver")}
        proof = lib.proof_status(prop + ".v", st.get("coq_log", ""))
        if proof["discharged"] < proof["obligations"] or not proof["vo"]:
            detail = lib.first_coq_error()
            v.tie_broken("theorems of coq/Props/%s.v no longer check (%d/%d)" % (prop, proof["discharged"], proof["obligations"]), detail)
        for dep in getattr(mod, "NEEDS_VO", []):
            if not lib.vo_exists(dep):
                v.tie_broken("model file %s does not compile" % dep, lib.first_coq_error())
    except lib.BrokenTie as e:
        v.tie_broken(e.what, e.detail)
        proof = proof or {"obligations": 1, "discharged": 0, "theorems": [], "vo": False}
    rng = random.Random(lib.seed() * 1000003 + sum(map(ord, prop)))
    try:
        if os.path.exists(lib.DRIVER):
            mod.run(v, tr, rng)
    except lib.BrokenTie as e:
        v.tie_broken(e.what, e.detail)
    except Exception as e:  # harness bug: fail loudly, never silently pass
        traceback.print_exc()
        v.tie_broken("harness-error", traceback.format_exc()[-1500:])
    sys.exit(v.finish(proof))


if __name__ == "__main__":
    main()
