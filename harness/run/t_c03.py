import sys, os, collections, json, random
sys.path.insert(0, os.path.dirname(__file__))
import lib, ast as A, gen_prog as GP
lib.sync()
rng = random.Random(int(sys.argv[1]) if len(sys.argv) > 1 else 5)
progs = []
for _ in range(300):
    mode = rng.choice([16, 16, 32])
    p, meta = GP.gen_program(rng, mode=mode, org=rng.choice([None, 0x7c00]), nstmts=rng.choice([5, 12]))
    progs.append((p, mode))
cases = [{"id": str(i), "srcs": [A.p_program(p)]} for i, (p, _) in enumerate(progs)]
res = lib.run_cases(cases, "t3")
idx = [i for i in range(len(progs)) if res[str(i)].get("calls") and not res[str(i)]["calls"][0]["diag"]]
items = ["(%s, %s)" % (A.g_program(progs[i][0]), lib.gbytes(lib.hex2list(res[str(i)]["calls"][0]["out"]))) for i in idx]
codes = lib.coq_eval_values("t3", lib.header("Check.C03", "check_c03"), items, per_file=200)
n = 0
for k, code in enumerate(codes):
    if code and code % 100 not in (2, 7):
        i = idx[k]; p, mode = progs[i]
        si = code // 100
        print(code, mode, A.p_stmt(p[si], A.Layout()) if si < len(p) else "END", "| prev:", A.p_stmt(p[si-1], A.Layout()) if si else "")
        n += 1
        if n < 3: print(cases[i]["srcs"][0]); print(res[str(i)]["calls"][0]["out"])
print(n, "failures of", len(idx), "diag:", len(progs) - len(idx))
