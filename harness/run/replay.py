#!/usr/bin/env python3
"""replay.py <replay.json> : re-run the recorded source through the current implementation and print what it does."""
import json, os, sys
sys.path.insert(0, os.path.dirname(os.path.abspath(__file__)))
import lib
d = json.load(open(sys.argv[1]))
print(json.dumps({k: d[k] for k in d if k != "replay"}, indent=1))
rep = d.get("replay") or {}
srcs = [rep[k] for k in ("source", "source_a", "source_b") if k in rep]
if srcs:
    lib.sync(need_coq=False)
    res = lib.run_cases([{"id": str(i), "srcs": [s]} for i, s in enumerate(srcs)], "replay", jobs=1)
    for i, s in enumerate(srcs):
        print("---- source %d\n%s\n---- implementation now: %s" % (i, s, json.dumps(res[str(i)])[:2000]))
else:
    print(json.dumps(rep, indent=1)[:4000])
