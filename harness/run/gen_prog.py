"""Random programs over the statement forms on which gosk is right (the domain of C03/C11/C12/C14/C15/C16/C17),
with labels at arbitrary positions referenced before and after their definition."""
import ast as A
import gen_instr as G
from gen_common import *

SAFE_NOPARAM = ["NOP", "HLT", "CLI", "STI", "CLD", "STD", "CLC", "STC", "CMC", "RET", "LAHF", "SAHF"]


def safe_imm(rng, mode, w):
    if w == 8:
        return rng.choice([0, 1, 0x7f, 0x80, 0xff, -1, -128, 0x41])
    if mode == 16:
        if w == 16:
            return rng.choice([0, 1, -1, 0x7f, 0x80, 0xff, 0x100, 0x7fff, -0x8000, 0x1234, -129])
        return rng.choice([0, 1, -1, 0x7f, 0x80, 0x7fff, 0x8000, 0xffff, 0x10000, 0x7fffffff, -0x80000000, 0x12345678])
    # mode 32
    if w == 32:
        return rng.choice([0, 1, -1, 0x7f, -128, 0x8000, 0xffff, 0x10000, 0x7fffffff, -0x80000000, 0x12345678, -32769])
    return rng.choice([0, 1, -1, 0x7f, -128])      # 16-bit operand in 32-bit mode: keep immediates in int8


def mem16(rng):
    b, i, _ = rng.choice(G.shapes16())
    d = rng.choice([None, 0, 1, -1, 127, 128, -128, -129, 0x1234])
    if b is None and i is None and d is None:
        d = 0x0ff0
    return G.mem_exp(b, i, None, d)


def mem32(rng):
    b = rng.choice(["EAX", "ECX", "EDX", "EBX", "ESI", "EDI", "EBP", "ESP"])
    i = rng.choice([None, None, "ECX", "EDX", "ESI"])
    s = rng.choice([1, 2, 4, 8]) if i else None
    d = rng.choice([None, 1, -1, 127, 128, -128, -129, 0x1234, 0x12345678])
    if b == "EBP" and d is None:
        d = 4          # [EBP] / [EBP+index] without displacement are finding cells (sizes / encoding)
    if b == "EAX" and i == "EAX":
        i = "ECX"
    return G.mem_exp(b, i, s, d)


def safe_instr(rng, mode, labels_all):
    """one instruction statement gosk encodes correctly and sizes consistently in this mode"""
    r = rng.random()
    ws = [8, 16] if mode == 16 else [8, 32]
    if mode == 16 and rng.random() < 0.25:
        ws = [32]
    w = rng.choice(ws)
    regs = G.WIDTH[w]
    if r < 0.2:
        return ("mn", "MOV", [G.reg(rng.choice(regs)), G.imm(safe_imm(rng, mode, w))])
    if r < 0.3:
        return ("mn", "MOV", [G.reg(rng.choice(regs)), G.reg(rng.choice(regs))])
    if r < 0.45:
        return ("mn", rng.choice(G.ALU), [G.reg(rng.choice(regs)), G.imm(safe_imm(rng, mode, w))])
    if r < 0.5:
        return ("mn", rng.choice(G.ALU), [G.reg(rng.choice(regs)), G.reg(rng.choice(regs))])
    if r < 0.6:
        m = mem16(rng) if mode == 16 else mem32(rng)
        if mode == 16 and w == 32:
            w2 = 16
        else:
            w2 = w
        rg = rng.choice(G.WIDTH[w2])
        return ("mn", "MOV", [G.reg(rg), m]) if rng.random() < 0.5 else ("mn", "MOV", [m, G.reg(rg)])
    if r < 0.68:
        rr = G.R16 if mode == 16 else G.R32
        return ("mn", rng.choice(["PUSH", "POP"]), [G.reg(rng.choice(rr))])
    if r < 0.76:
        return ("op", rng.choice(SAFE_NOPARAM))
    if r < 0.8:
        return ("mn", "INT", [G.imm(rng.choice([0x10, 0x13, 0x15, 0x16, 1]))])
    if r < 0.85:
        acc = rng.choice(["AL", "AX"] if mode == 16 else ["AL", "EAX"])
        return rng.choice([("mn", "IN", [G.reg(acc), G.reg("DX")]), ("mn", "OUT", [G.reg("DX"), G.reg(acc)]),
                           ("mn", "OUT", [G.imm(0x21), G.reg("AL")]), ("mn", "IN", [G.reg("AL"), G.imm(0x60)])])
    if r < 0.93 and labels_all:
        # a label used as an immediate: the field width is fixed by the register
        rg = rng.choice(G.R16 if mode == 16 else G.R32)
        return ("mn", "MOV", [G.reg(rg), A.ident(rng.choice(labels_all))])
    if r < 0.95:
        # far jump to a constant pointer (position independent; pass 1 reserves 8 / 7 bytes)
        return ("mn", "JMP", [("seg", rng.choice(["", "DWORD"]), A.num(rng.choice([8, 16, 0x7c0])), A.hexn(rng.choice([0x1b, 0, 0x7c00])))])
    return ("mn", rng.choice(G.SHIFT), [G.reg(rng.choice(regs)), G.imm(rng.choice([1, 3, 7]))])


def data_stmt(rng, defined, equs=()):
    d = rng.choice(["DB", "DW", "DD"])
    ops = []
    for _ in range(rng.randrange(1, 5)):
        r = rng.random()
        if equs and r > 0.75:
            ops.append(rng.choice([A.ident(rng.choice(equs)), A.sum_of([("+", ("id", rng.choice(equs))), ("+", ("num", rng.randrange(1, 9)))]),
                                   A.add([("+", ("mul", ("id", rng.choice(equs)), [("*", ("num", 2))]))])]))
        elif d == "DB" and r < 0.2:
            ops.append(A.string(rand_string(rng)))
        elif r < 0.3 and defined and d != "DB":
            ops.append(A.ident(rng.choice(defined)))
        elif r < 0.4:
            ops.append(const_exp_nz(rng, 2))
        else:
            ops.append(A.num(rng.choice(BOUNDARY[:20])))
    return ("mn", d, ops)


def const_exp_nz(rng, depth):
    """constant expression without division (no division by zero by construction)"""
    def prim(d):
        if d <= 0 or rng.random() < 0.6:
            return ("num", rng.choice(SMALL))
        return exp(d - 1)

    def mul(d):
        return ("mul", prim(d), [("*", prim(d)) for _ in range(rng.choice([0, 0, 1]))])

    def exp(d):
        return ("add", mul(d), [(rng.choice("+-"), mul(d)) for _ in range(rng.choice([0, 1, 2]))])
    return exp(depth)


def gen_program(rng, mode=16, org=None, nstmts=20, jumps=True, equ=True, dollar=True):
    """returns (prog, meta).  Labels: every label is referenced at least once after and possibly before its definition."""
    nlab = rng.randrange(1, 6)
    labels = ["lab%d" % k for k in range(nlab)]
    prog = []
    if mode == 32:
        prog.append(("config", "BITS", ("num", 32)))
    if org is not None:
        prog.append(("mn", "ORG", [A.hexn(org)]))
    body = []
    pos = sorted(rng.sample(range(nstmts + 1), min(nlab, nstmts + 1)))
    defined = []
    equs = []
    k = 0
    since_label = 0
    for j in range(nstmts + 1):
        while k < len(pos) and pos[k] == j:
            body.append(("label", labels[k]))
            defined.append(labels[k])
            k += 1
            since_label = 0
        if j == nstmts:
            break
        r = rng.random()
        if r < 0.25:
            body.append(data_stmt(rng, defined, equs))
        elif r < 0.3:
            body.append(("mn", "RESB", [A.num(rng.choice([0, 1, 2, 5, 16]))]))
        elif r < 0.35 and equ:
            # small values, so that a use as an immediate stays inside the forms gosk encodes correctly
            val = A.num(rng.randrange(0, 100)) if not equs or rng.random() < 0.6 else A.sum_of([("+", ("id", rng.choice(equs))), ("+", ("num", rng.randrange(0, 20)))])
            body.append(("equ", "K%d" % j, val))
            equs.append("K%d" % j)
        elif r < 0.40 and equs:
            w = 16 if mode == 16 else 32
            body.append(("mn", "MOV", [G.reg(rng.choice(G.WIDTH[rng.choice([8, w])])), A.ident(rng.choice(equs))]))
        elif r < 0.43 and dollar:
            body.append(("mn", "DW", [A.ident("$")]))
        elif r < 0.48 and jumps and defined and since_label < 6:
            # backward short jump to the most recent label (a handful of small statements away)
            name = rng.choice(["JMP", "JE", "JNZ", "JC", "JAE", "JBE", "JG"] + (["CALL"] if mode == 16 else []))
            body.append(("mn", name, [A.ident(defined[-1])]))
        elif r < 0.54 and jumps and mode == 16 and k < len(pos) and pos[k] - j <= 5:
            name = rng.choice(["JMP", "JE", "JNE", "JB", "CALL"])
            body.append(("mn", name, [A.ident(labels[k])]))
        else:
            body.append(safe_instr(rng, mode, labels))
        since_label += 1
    tail = [("mn", "DW" if mode == 16 else "DD", [A.ident(l) for l in labels])]
    return prog + body + tail, {"mode": mode, "org": org, "labels": labels}
