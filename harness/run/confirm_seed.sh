#!/bin/bash
# confirm_seed.sh <Cxx> [dir]: confirm a seeded change independently: builds, suite passes, demo fails with / passes without.
set -u
P=$1; SRC=${2:-/tmp/mutout/$P}; W=/tmp/confirm-$P-$$
export GOFLAGS=-mod=mod GOPROXY=off GOSUMDB=off GOTOOLCHAIN=local
git -C /repo worktree add --detach $W HEAD >/dev/null 2>&1 || exit 9
cd $W
demo=$(ls $SRC/*_test.go 2>/dev/null | head -1)
cp $demo test/ 2>/dev/null
echo "--- demo on clean tree"; go test -vet=off -count=1 -run 'Demo|C[0-9][0-9]' ./test/ 2>&1 | tail -3; clean=$?
git apply $SRC/patch.diff || { echo "patch does not apply"; cd /; git -C /repo worktree remove --force $W; exit 8; }
echo "--- build + suite with patch"; go build ./... && rm -f test/$(basename $demo) && go test -vet=off -count=1 ./... 2>&1 | grep -v "^ok\|no test files" | tail -5; 
cp $demo test/
echo "--- demo with patch"; go test -vet=off -count=1 -run 'Demo|C[0-9][0-9]' ./test/ 2>&1 | grep -E "^(---|FAIL|ok|panic)" | head -8
cd /; git -C /repo worktree remove --force $W
