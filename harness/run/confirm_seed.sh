#!/bin/bash
# confirm_seed.sh <Cxx> [dir]: confirm a seeded change independently: builds, suite passes, demo fails with / passes without.
set -u
P=$1; SRC=${2:-/tmp/mutout/$P}; W=/tmp/confirm-$P-$$
export GOFLAGS=-mod=mod GOPROXY=off GOSUMDB=off GOTOOLCHAIN=local
git -C /repo worktree add --detach $W HEAD >/dev/null 2>&1 || exit 9
cd $W
demo=$(ls $SRC/*_test.go 2>/dev/null | head -1)
script=$(ls $SRC/run_demo.sh $SRC/demo.sh 2>/dev/null | head -1)
rundemo() {
  if [ -n "$demo" ]; then cp $demo test/; go test -vet=off -count=1 -run 'Demo|C[0-9][0-9]' ./test/ 2>&1 | grep -E "^(--- FAIL|FAIL|ok|panic)" | head -4; rm -f test/$(basename $demo);
  elif [ -n "$script" ]; then (cd $SRC && bash $script $W 2>&1 | tail -3; echo "script exit=$?"); fi
}
echo "--- demo on clean tree"; rundemo
git apply $SRC/patch.diff || { echo "patch does not apply"; cd /; git -C /repo worktree remove --force $W; exit 8; }
echo "--- build + suite with patch (non-ok lines only)"; go build ./... && go test -vet=off -count=1 ./... 2>&1 | grep -v "^ok\|no test files" | tail -5
echo "--- demo with patch"; rundemo
cd /; git -C /repo worktree remove --force $W
