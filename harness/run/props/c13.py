"""C13 - no input crashes or hangs the assembler."""
import json, os, re, time
import ast as A
import lib
import gen_prog as GP
import gen_instr as G

NEEDS_VO = ["Model/Asm.v", "Check/Prog.v"]
TOKENS = ["MOV", "ADD", "AX", "EAX", "AL", "[", "]", ",", "+", "-", "*", "/", "%", "(", ")", ":", "1", "0x10", "-1", "99999999999999999999", "0xffffffffffffffffff",
          "DB", "DW", "DD", "RESB", "ORG", "EQU", "JMP", "CALL", "INT", "label", "label:", "$", "\"str\"", "'c'", "\n", "\n", "\t", " ", ";c", "#c", "[BITS 32]", "[FORMAT \"WCOFF\"]",
          "GLOBAL", "EXTERN", "BYTE", "WORD", "DWORD", "SHORT", "FAR", "PTR", "ES", "CS", "CR0", "ALIGNB", "TIMES", "END", "\r\n", "\r", "\x00", "\xff", "\"", "'", "[", "]]", "))", "((",
          "PUSH", "POP", "IN", "OUT", "LGDT", "NOT", "SHL", "IMUL", "RET", "HLT", "0x", "1e5", "..", "$$", "_"]


def classify(src):
    """known crash classes, decided from the input text"""
    for m in re.finditer(r"^\s*RESB\s+(0x[0-9a-fA-F]+|\d+)\s*$", src, re.M):       # any RESB of the source, not only the first
        if int(m.group(1), 0 if m.group(1).startswith("0x") else 10) >= 1 << 31:
            return "C13-resb-huge-allocation"
    if src.count("(") > 20000:
        return "C13-deep-nesting-stack"
    return None


def mutate(rng, text):
    lines = text.split("\n")
    toks = re.findall(r"\s+|[A-Za-z_.$][\w.$]*|0x[0-9a-fA-F]+|\d+|.", text)
    k = rng.random()
    if k < 0.2 and lines:
        i = rng.randrange(len(lines))
        lines.insert(i, lines[rng.randrange(len(lines))])
        return "\n".join(lines)
    if k < 0.35 and lines:
        del lines[rng.randrange(len(lines))]
        return "\n".join(lines)
    if not toks:
        return text
    i = rng.randrange(len(toks))
    if k < 0.55:
        toks[i] = rng.choice(TOKENS)
    elif k < 0.7:
        toks.insert(i, rng.choice(TOKENS))
    elif k < 0.85:
        del toks[i]
    else:
        toks.insert(i, toks[rng.randrange(len(toks))])
    return "".join(toks)


def run(v, tier, rng):
    cases = []

    def add(kind, text=None, hexs=None):
        c = {"id": "%s%d" % (kind, len(cases)), "kind": kind}
        if hexs is not None:
            c["srcs_hex"] = [hexs]
            c["text"] = bytes.fromhex(hexs).decode("latin-1")
        else:
            c["srcs"] = [text]
            c["text"] = text
        cases.append(c)
    n = 1 if tier == "quick" else 12
    for _ in range(300 * n):
        add("bytes", hexs=bytes(rng.randrange(256) for _ in range(rng.choice([1, 5, 30, 200]))).hex())
    for _ in range(300 * n):
        add("ascii", text="".join(chr(rng.choice(list(range(32, 127)) + [9, 10, 13])) for _ in range(rng.choice([3, 20, 100, 400]))))
    for _ in range(600 * n):
        add("soup", text=" ".join(rng.choice(TOKENS) for _ in range(rng.choice([2, 6, 15, 60]))) + rng.choice(["", "\n"]))
    base = []
    for _ in range(40):
        mode = rng.choice([16, 32])
        p, _m = GP.gen_program(rng, mode=mode, org=rng.choice([None, 0x7c00]), nstmts=rng.choice([5, 15]), jumps=(mode == 16))
        base.append(A.p_program(p))
    for _ in range(1500 * n):
        t = rng.choice(base)
        for _k in range(rng.choice([1, 1, 2, 4])):
            t = mutate(rng, t)
        add("mutant", text=t)
    # every mnemonic x arity x operand kind
    reg = json.load(open(os.path.join(lib.BUILD, "registry.json")))
    kinds = ["AL", "AX", "EAX", "DS", "CR0", "1", "0x12345678", "-1", "[BX]", "[EAX+ECX*4+8]", "BYTE [SI]", "lbl", "undefined_name", "\"s\"", "1:2", "DWORD 2*8:0x1b", "'x'",
             "99999999999", "[lbl]", "$", "1+", "(1", "AX:BX"]
    for mn in reg["opcodes"]:
        add("matrix", text="\t%s\n" % mn)
        for a in (kinds if tier == "thorough" else kinds[::2] + ["0x12345678", "lbl"]):
            add("matrix", text="lbl:\n\t%s\t%s\n" % (mn, a))
        for a, b in ([("AX", "1"), ("AL", "[BX]"), ("[BX]", "AX"), ("1", "AL"), ("EAX", "lbl"), ("AX", "DS"), ("lbl", "lbl")] if tier == "quick" else [(a, b) for a in kinds[:13] for b in kinds[:13]]):
            add("matrix", text="lbl:\n\t%s\t%s,%s\n" % (mn, a, b))
        add("matrix", text="\t%s\tAX,BX,1\n" % mn)
    # numbers beyond 64 bits, unknown directives, self-referential EQU, huge RESB, deep nesting
    for t in ["\tDB\t18446744073709551616\n", "\tDD\t0xffffffffffffffffffff\n", "\tMOV\tAX,0x1ffffffffffffffff\n", "[NOSUCH 1]\n", "\tNOSUCH\tAX\n", "A\tEQU\tA\n\tDB\tA\n",
              "A\tEQU\tB\nB\tEQU\tA\n\tDW\tA\n", "\tRESB\t0x7fffffffffff\n", "\tRESB\t-1\n", "\tALIGNB\t0\n", "\tALIGNB\t4294967296\n", "\tALIGNB\t0x100000000\n", "\tORG\t-1\n",
              "\tINT\t0x80\n", "\tINT\tAX\n", "\tINT\tlbl\n", "\tDB\t1/0\n", "\tDB\t1%0\n", "\tJMP\t1/0\n", "\tMOV\tAX,[1/0]\n", "\tDD\t-9223372036854775808/-1\n",
              "\tDD\t9223372036854775807*9223372036854775807\n", "\tTIMES\t3 DB 1\n", "\tMOV\n", "MOV", "\tMOV\tAX,", ":", "EQU", "\tDB\t\"unterminated\n", "\tDB\t'\n"]:
        add("special", text=t)
    # expression shapes: constants, labels (defined / undefined), $, EQU names and parenthesised terms in every position of
    # products, quotients and sums, in every operand position that takes an expression
    import itertools
    atoms = ["2", "lbl", "undef", "$", "K", "(1+2)", "0"]
    pats = ["%s*%s*%s", "%s*%s/%s", "%s/%s*%s", "%s+%s+%s", "%s-%s+%s", "%s*%s+%s", "%s+%s*%s", "%s*%s*%s*4", "%s*%s"]
    posns = ["\tDW\t%s\n", "\tDD\t1,%s\n", "\tMOV\tAX,%s\n", "\tMOV\tAX,[%s]\n", "\tMOV\tCX,[BX+%s]\n", "X\tEQU\t%s\n\tDW\tX\n", "\tRESB\t%s\n", "\tJMP\t%s\n", "\tADD\tEAX,%s\n"]
    shapes = []
    for pat in pats:
        k = pat.count("%s")
        for tup in itertools.product(atoms, repeat=k):
            shapes.append(pat % tup)
    if tier == "quick":
        rng.shuffle(shapes)
        shapes = shapes[:700]
    for si, e in enumerate(shapes):
        for pos in (posns if tier == "thorough" else [posns[si % len(posns)], posns[(si * 7 + 3) % len(posns)]]):
            add("exprshape", text="K\tEQU\t3\nlbl:\n" + pos % e)
    # EQU graphs: small sets of definitions whose bodies mention each other (cycles of every length, forward references,
    # redefinitions, parenthesised and scaled terms), then uses of every name
    enames = ["A", "B", "Q", "R", "S"]
    bodies = ["%s", "%s+1", "(%s+%s)+%s", "(%s+1)*2", "%s*%s", "%s-(%s)", "2*(%s+%s)", "(%s)", "%s+%s+3", "5", "(%s*2)+(%s/3)"]
    for _ in range(400 * n):
        defs = []
        for _k in range(rng.randrange(2, 6)):
            b = rng.choice(bodies)
            defs.append("%s\tEQU\t%s\n" % (rng.choice(enames), b % tuple(rng.choice(enames + ["7"]) for _x in range(b.count("%s")))))
        use = rng.choice(["\tDW\t%s\n", "\tMOV\tAX,%s\n", "\tDB\t%s+1\n", "\tMOV\tCX,[BX+%s]\n", "\tRESB\t%s\n"])
        add("equgraph", text="".join(defs) + "".join(use % x for x in rng.sample(enames, 3)))
    # rings of every length that close through unexpanded definitions, behind a forward reference (always present; the
    # guard walks a Go map, so each ring is run several times)
    for nmid in (0, 1, 2, 3, 4, 6):
        for closing in ("(%s+R)+S", "%s+1", "(%s*2)+R", "2*(%s+R)"):
            names = ["M%d" % k for k in range(nmid)]
            chain = ["A"] + names
            defs = ["A\tEQU\tQ\n"] + ["%s\tEQU\t(%s+R)+S\n" % (chain[k + 1], chain[k]) for k in range(nmid)] + ["Q\tEQU\t" + closing % chain[-1] + "\n"]
            for rep in range(3):
                for use in ("\tMOV\tAX,Q\n", "\tDW\t%s\n" % chain[-1], "\tDB\tA+1\n\tHLT\n"):
                    add("equring", text="".join(defs) + use + "; run %d\n" % rep)
    # scaling: length and nesting depth
    scale = []
    for nlines in ([1000, 10000] if tier == "quick" else [1000, 10000, 100000]):
        add("scale-lines", text="\tMOV\tAX,1\n\tDB\t1,2,3\nl%d:\n" % nlines + "\tADD\tBX,2\n" * nlines)
        scale.append((cases[-1]["id"], nlines))
    for depth in ([100, 1000, 5000] if tier == "quick" else [100, 1000, 10000]):
        add("scale-nest", text="\tDD\t" + "(" * depth + "1" + ")" * depth + "\n")
        scale.append((cases[-1]["id"], depth))
    for nops in ([1000, 10000] if tier == "quick" else [1000, 10000, 100000]):
        add("scale-sum", text="\tDD\t" + "+".join(["1"] * nops) + "\n")
        scale.append((cases[-1]["id"], nops))
    add("deep-nesting", text="\tDD\t" + "(" * 100000 + "1" + ")" * 100000 + "\n")
    t0 = time.time()
    small = [c for c in cases if not c["kind"].startswith(("scale", "deep"))]
    big = [c for c in cases if c["kind"].startswith(("scale", "deep"))]
    res = lib.run_cases([{k: c[k] for k in c if k in ("id", "srcs", "srcs_hex")} for c in small], "c13")
    old = lib.CASE_TIMEOUT
    lib.CASE_TIMEOUT = 900           # the scaling inputs are measured, not raced against the small-case watchdog
    try:
        res.update(lib.run_cases([{k: c[k] for k in c if k in ("id", "srcs", "srcs_hex")} for c in big], "c13b", jobs=len(big)))
    finally:
        lib.CASE_TIMEOUT = old
    hist = {}
    nontriv = set()
    for c in cases:
        hist[c["kind"]] = hist.get(c["kind"], 0) + 1
        r = res[c["id"]]
        bad = None
        if "died" in r and r["died"] in (255, 17, 16):
            continue            # os.Exit with a failing status after a GOSK message: a diagnosed failure, not a crash
        if "died" in r:
            bad = "process died (exit %s): %s" % (r["died"], r.get("stderr", "")[-200:].replace("\n", " | ")) if r["died"] != -99 else "hang: no result within %d s" % lib.CASE_TIMEOUT
        elif r["calls"][0].get("panic"):
            bad = "runtime panic: " + r["calls"][0]["panic"][:200]
        else:
            if r["calls"][0]["out"] not in ("", "!nofile") or r["calls"][0].get("parse_err"):
                nontriv.add(c["text"][:200])
        if bad:
            cl = classify(c["text"])
            if cl is None and ("Failed to parse INT number" in bad or "INT instruction requires one operand" in bad):
                cl = "C13-int-operand-panic"       # the panic site itself identifies the defect
            w = {"source": c["text"][:2000], "source_len": len(c["text"]), "what": bad, "kind": c["kind"]}
            if cl:
                v.finding(cl, w)
            else:
                v.violation(bad[:120], w)
    # time must grow at most polynomially (in practice linearly): compare per-unit cost across decades
    times = {}
    for cid, n in scale:
        r = res[cid]
        if r.get("calls"):
            times[cid] = (n, r["calls"][0]["ms"])
    fam = {}
    for cid, (n, ms) in times.items():
        fam.setdefault(cid.rstrip("0123456789"), []).append((n, ms))
    growth = {}
    for f, pts in fam.items():
        pts.sort()
        for (n1, t1), (n2, t2) in zip(pts, pts[1:]):
            ratio = (t2 / max(t1, 0.05)) / (n2 / n1)
            growth["%s %d->%d" % (f, n1, n2)] = round(ratio, 2)
            if ratio > 25 and t2 > 2000:     # worse than ~quadratic-and-a-half over a decade and slow in absolute terms
                v.violation("assembly time grows faster than polynomially expected (%s: %d -> %d units, %.0f ms -> %.0f ms)" % (f, n1, n2, t1, t2), {"family": f, "points": pts})
    v.cov.update({"evaluations": len(cases), "distinct_nontrivial": len(nontriv),
                  "rule": "arbitrary byte strings, printable noise, token soup, token/line mutations of valid programs, every grammar mnemonic x arity 0..3 x operand kind, oversized numbers, unknown directives, self-referential EQUs, huge RESB, deep nesting; scaling families (lines, nesting depth, sum length) with per-case wall clock; every case runs in a worker that is killed after %d s without progress; non-trivial = distinct inputs that produced output or a parse error" % lib.CASE_TIMEOUT,
                  "samples": [cases[0]["text"][:80], cases[700]["text"][:120], cases[-5]["text"][:80]], "generator_histogram": hist, "time_growth_per_unit": growth,
                  "wall_impl_s": round(time.time() - t0, 1)})
