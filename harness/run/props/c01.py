"""C01 - emitted bytes decode to exactly the source instruction."""
import json, os
import ast as A
import lib
import gen_instr as G
import x86class

NEEDS_VO = ["Model/X86Enc.v", "Spec/X86.v", "Spec/Denote.v", "Check/C01.v", "Check/Prog.v"]
CHECK = "check_c01"
PROP = "C01"


def skeleton(tier):
    full = tier == "thorough"
    sk = G.one_stmt_skeleton(full)
    reg = json.load(open(os.path.join(lib.BUILD, "registry.json")))
    for name, h in sorted(reg["handler"].items()):
        if h == "processNoParam" and name in reg["opcodes"]:      # names the grammar does not list parse as something else (CDQE = CDQ E)
            sk.append((("op", name), {"form": "noparam"}))
    sk += [(st, t) for st, t in G.mem_skeleton(full)][:: (1 if full else 7)]
    return sk


def run_generic(v, tier, rng, prop, check, sk, why):
    progs = []
    for st, tags in sk:
        for mode in (16, 32):
            progs.append((G.wrap_mode(st, mode), tags, mode, st))
    cases = [{"id": str(i), "srcs": [A.p_program(p)]} for i, (p, _, _, _) in enumerate(progs)]
    res = lib.run_cases(cases, prop.lower())
    items = ["(%s, %s)" % (A.g_program(p), lib.obs_of(res[str(i)])) for i, (p, _, _, _) in enumerate(progs)]
    bad = lib.coq_eval(prop.lower() + "m", lib.header(), items, per_file=500)
    idx = []
    for i in range(len(progs)):
        r = res[str(i)]
        if not r.get("calls") or r["calls"][0].get("panic"):
            st = progs[i][3]
            w = {"source": cases[i]["srcs"][0], "why": "assembler panicked / died", "detail": (r.get("calls") or [{}])[0].get("panic", r.get("stderr", ""))[:300]}
            if st[0] == "mn" and st[1] == "INT":
                v.finding("X86-int-operand-panic", w)
            else:
                v.violation("assembler died on a one-statement program", w)
            continue
        if r["calls"][0]["diag"] or r["calls"][0].get("parse_err"):
            continue
        idx.append(i)
    items2 = ["(%d, %s, %s)" % (progs[i][2], A.g_stmt(progs[i][3]), lib.gbytes(lib.hex2list(res[str(i)]["calls"][0]["out"]))) for i in idx]
    codes = lib.coq_eval_values(prop.lower() + "s", lib.HDR % "Check.C01 Spec.X86 Spec.Denote" + "Definition check := %s.\n" % check, items2, per_file=500)
    byclass = {}
    outside = 0
    for k, code in enumerate(codes):
        if code == 0:
            continue
        if code == 4:
            outside += 1
            continue
        i = idx[k]
        p, tags, mode, st = progs[i]
        cl = x86class.classify(tags, mode, st)
        byclass[str(cl)] = byclass.get(str(cl), 0) + 1
        w = {"source": cases[i]["srcs"][0], "mode": mode, "emitted": res[str(i)]["calls"][0]["out"], "code": code, "why": why[code], "form": tags.get("form")}
        if cl:
            v.finding(cl, w)
        else:
            v.violation("%s [%s, BITS %d]" % (why[code], tags.get("form"), mode), w)
    if bad and not v.violations:
        for k in bad[:3]:
            v.tie_broken("correspondence Model/X86Enc.v vs gosk (one-statement programs)", {"source": cases[k]["srcs"][0], "impl": res[str(k)]})
    hist = {}
    for _, tags, _, _ in progs:
        hist[tags.get("form")] = hist.get(tags.get("form"), 0) + 1
    v.cov.update({"evaluations": len(progs), "distinct_nontrivial": len(set(cases[i]["srcs"][0] for i in idx)),
                  "rule": "one statement per program: every mnemonic gosk dispatches x operand form x registers per position (all 8 in thorough) x boundary immediates x addressing shapes x displacements x BITS 16/32; non-trivial = distinct source assembled without diagnostic and decoded by Spec/X86.v",
                  "samples": [cases[0]["srcs"][0], cases[len(cases) // 2]["srcs"][0], cases[-1]["srcs"][0]],
                  "forms": hist, "spec_checked": len(idx) - outside, "spec_outside_fragment": outside,
                  "spec_failures_by_class": byclass, "correspondence_mismatches": len(bad)})


WHY = {1: "emitted bytes are not a valid instruction of the subset in this mode", 2: "emitted bytes decode to a different instruction than the statement denotes",
       3: "decoded length differs from the emitted length (extra/missing bytes)"}


def run(v, tier, rng):
    run_generic(v, tier, rng, PROP, CHECK, skeleton(tier), WHY)
