"""C10 - output is deterministic and independent of history."""
import os, shutil, subprocess
import ast as A
import lib
import gen_prog as GP
import gen_coff as GC
import gen_instr as G

NEEDS_VO = ["Model/History.v", "Check/Prog.v"]


def expr_heavy(rng, mode):
    """statements whose operands are sums mixing registers and constants in several orders"""
    if mode == 16:
        b, i = rng.choice([("BX", "SI"), ("BX", "DI"), ("BP", "SI"), ("BX", None), ("SI", None)])
        rg = rng.choice(G.R16)
    else:
        b, i = rng.choice([("EBX", "ESI"), ("EAX", "ECX"), ("EBP", "EDI"), ("EDX", None)])
        rg = rng.choice(G.R32)
    c1, c2 = rng.choice([1, 2, 4, 8, 100]), rng.choice([1, 3, 16])
    shapes = []
    if i:
        shapes = [[("+", ("id", b)), ("-", ("num", c1)), ("+", ("id", i))], [("+", ("id", b)), ("+", ("num", c1)), ("+", ("id", i)), ("-", ("num", c2))],
                  [("+", ("num", c1)), ("+", ("id", b)), ("+", ("id", i))], [("+", ("id", b)), ("+", ("id", i)), ("-", ("num", c1))]]
    else:
        shapes = [[("+", ("id", b)), ("-", ("num", c1)), ("+", ("num", c2))], [("+", ("num", c1)), ("+", ("id", b))], [("+", ("id", b)), ("+", ("num", c1)), ("-", ("num", c2))]]
    m = A.mem("", A.sum_of(rng.choice(shapes)))
    return rng.choice([("mn", "MOV", [G.reg(rg), m]), ("mn", "MOV", [m, G.reg(rg)]), ("mn", "ADD", [G.reg(rg), m])])


def pool(rng, n):
    out = []
    for k in range(n):
        r = rng.random()
        if r < 0.25:
            c = GC.gen_coff_program(rng)
            out.append(c["prog"])
        else:
            mode = rng.choice([16, 32])
            p, _ = GP.gen_program(rng, mode=mode, org=rng.choice([None, 0x7c00, 0xc200]), nstmts=rng.choice([4, 10, 25]), jumps=(mode == 16))
            extra = [expr_heavy(rng, mode) for _ in range(rng.randrange(1, 4))]
            if rng.random() < 0.5:
                extra.append(("equ", "HK%d" % k, A.sum_of([("+", ("num", 4)), ("+", ("id", "$")), ("-", ("num", 1))])))
                extra.append(("mn", "DW", [A.sum_of([("+", ("id", "HK%d" % k)), ("-", ("num", 2)), ("+", ("num", 7))])]))
            out.append(p[:-1] + extra + p[-1:])
    return out


def twins(rng, k):
    """the SAME statement texts assembled in 16-bit and in 32-bit mode (sizes and prefixes differ), with labels whose
    values depend on those sizes: anything remembered per statement text across assemblies shows up in the other mode"""
    body = []
    labels = []
    for j in range(rng.randrange(3, 9)):
        body.append(GP.safe_instr(rng, rng.choice([16, 32]), []))
        if rng.random() < 0.6:
            lab = "tw%d_%d" % (k, j)
            labels.append(lab)
            body.append(("label", lab))
    labels = labels or ["tw%d_end" % k]
    if labels == ["tw%d_end" % k]:
        body.append(("label", labels[0]))
    body.append(("mn", "DD", [A.ident(l) for l in labels]))
    return body, [("config", "BITS", ("num", 32))] + body


def run(v, tier, rng):
    npool = 24 if tier == "quick" else 60
    progs = pool(rng, npool)
    ntw = 6 if tier == "quick" else 30
    twin_idx = []
    for k in range(ntw):
        a, b = twins(rng, k)
        twin_idx.append((len(progs), len(progs) + 1))
        progs += [a, b]
    # a program that DEFINES some names, and programs that only REFER to those names (undefined there): whatever a
    # referrer assembles to (diagnostic, failure, undefined external in the object) must not depend on an earlier definer
    ref_groups = []
    for k in range(4 if tier == "quick" else 16):
        n1, n2, n3 = "dr%d_a" % k, "dr%d_b" % k, "_dr%d_ext" % k
        mode = rng.choice([16, 32])
        hd = [("config", "BITS", ("num", 32))] if mode == 32 else []
        acc = "AX" if mode == 16 else "EAX"
        definer = hd + [("mn", "ORG", [A.hexn(0x7c00)]), ("label", n1), ("mn", "MOV", [G.reg(acc), A.num(1)]), ("label", n2), ("mn", "DB", [A.num(1), A.num(2)]), ("label", n3), ("op", "RET")]
        referrers = [hd + [("mn", "MOV", [G.reg(acc), A.num(1)]), ("mn", rng.choice(["JMP", "CALL", "JE"]), [A.ident(n1)]), ("op", "HLT")],
                     hd + [("mn", "DW", [A.ident(n2)]), ("mn", "MOV", [G.reg(acc), A.ident(n2)]), ("mn", "DB", [A.num(7)])],
                     [("config", "FORMAT", ("str", b"WCOFF")), ("config", "BITS", ("num", 32)), ("config", "FILE", ("str", b"r.nas")), ("global", [n3, "_dr%d_here" % k]),
                      ("config", "SECTION", ("id", ".text")), ("label", "_dr%d_here" % k), ("mn", "MOV", [G.reg("EAX"), A.num(1)]), ("op", "RET")]]
        base = len(progs)
        progs += [definer] + referrers
        ref_groups.append((base, [base + 1 + j for j in range(len(referrers))]))
    undef_idx = []
    for k, names in enumerate((["_u1", "_u2"], ["_zz", "_aa", "_mm"], ["_e%d" % j for j in range(6)])):
        progs.append([("config", "FORMAT", ("str", b"WCOFF")), ("config", "BITS", ("num", 32)), ("config", "FILE", ("str", b"u.nas")), ("global", names + ["_here%d" % k]),
                      ("config", "SECTION", ("id", ".text")), ("label", "_here%d" % k), ("op", "RET")])
        undef_idx.append(len(progs) - 1)
    npool_hist = npool = len(progs) - sum(1 + len(rs) for _, rs in ref_groups) - len(undef_idx)
    texts = [A.p_program(p) for p in progs]
    # reference: one fresh process per program (the CLI binary)
    work = os.path.join(lib.BUILD, "c10-%d" % os.getpid())
    shutil.rmtree(work, ignore_errors=True)
    os.makedirs(work)
    ref = []
    try:
        procs = []
        for i, t in enumerate(texts):
            open(os.path.join(work, "%d.nas" % i), "w").write(t)
            procs.append(subprocess.Popen([lib.CLI, os.path.join(work, "%d.nas" % i), os.path.join(work, "%d.bin" % i)], stdout=subprocess.DEVNULL, stderr=subprocess.DEVNULL))
        for i, p in enumerate(procs):
            p.wait()
            f = os.path.join(work, "%d.bin" % i)
            ref.append(open(f, "rb").read().hex() if os.path.exists(f) else None)
    finally:
        shutil.rmtree(work, ignore_errors=True)
    nh = 60 if tier == "quick" else 800
    cases = []
    hist = []
    for h in range(nh):
        L = rng.choice([2, 5, 12, 30] if tier == "quick" else [5, 20, 50, 200])
        seq = [rng.randrange(npool_hist) for _ in range(L)]
        if rng.random() < 0.3:
            seq = seq + seq[::-1]
        c = {"id": "h%d" % h, "srcs": [texts[i] for i in seq]}
        if rng.random() < 0.5:
            c["prefill"] = (bytes(range(256)) * rng.choice([1, 8, 64])).hex()
        cases.append(c)
        hist.append(seq)
    # the same statement texts in both modes, alternating, in both orders
    for k, (ia, ib) in enumerate(twin_idx):
        for o, seq in enumerate(([ia, ib, ia, ib], [ib, ia, ib, ia])):
            cases.append({"id": "tw%d_%d" % (k, o), "srcs": [texts[i] for i in seq]})
            hist.append(seq)
    for k, (d, rs) in enumerate(ref_groups):
        for j, r in enumerate(rs):
            for o, seq in enumerate(([d, r], [r, d, r], [d, d, r, r])):
                cases.append({"id": "dr%d_%d_%d" % (k, j, o), "srcs": [texts[i] for i in seq]})
                hist.append(seq)
    # objects whose symbol table holds several UNDEFINED externals (nothing orders them but the declaration): repeated runs
    for k, ui in enumerate(undef_idx):
        cases.append({"id": "ud%d" % k, "srcs": [texts[ui]] * 8})
        hist.append([ui] * 8)
    # all orders of a 4-program pool
    import itertools
    for k, perm in enumerate(itertools.permutations(range(4))):
        cases.append({"id": "perm%d" % k, "srcs": [texts[i] for i in perm] * 2})
        hist.append(list(perm) * 2)
    # the same already-parsed tree assembled three times
    for i in range(len(progs)):
        cases.append({"id": "r%d" % i, "srcs": [texts[i]] * 3, "reuse": True})
        hist.append([i, i, i])
    res = lib.run_cases(cases, "c10")
    nontriv = 0
    calls = 0
    for c, seq in zip(cases, hist):
        r = res[c["id"]]
        if not r.get("calls") or len(r["calls"]) != len(seq):
            v.violation("assembler died in the middle of a history", {"history": seq, "programs": [texts[i] for i in seq][:3], "result": str(r)[:400]})
            continue
        nontriv += 1
        for k, (i, call) in enumerate(zip(seq, r["calls"])):
            calls += 1
            if ref[i] is None:
                if not call["out"].startswith("!"):
                    v.violation("call %d of a history assembles a source that a fresh process refuses" % k,
                                {"source": texts[i], "history_indices": seq[:k + 1], "earlier_sources": [texts[j] for j in seq[:k]][-3:], "history_hex": call["out"][:400]})
                    break
                continue
            if call["out"] != ref[i]:
                v.violation("call %d of a history differs from the fresh-process output of the same source%s" % (k, " (re-assembling the same parsed program)" if c.get("reuse") else ""),
                            {"source": texts[i], "history_indices": seq[:k + 1], "earlier_sources": [texts[j] for j in seq[:k]][-3:], "fresh_hex": ref[i][:400], "history_hex": call["out"][:400],
                             "prefilled": bool(c.get("prefill")), "reuse": bool(c.get("reuse"))})
                break
    # model correspondence: the pool programs against the model (whole file)
    items = ["(%s, (0, %s, false))" % (A.g_program(p), lib.gbytes(lib.hex2list(ref[i]))) for i, p in enumerate(progs) if ref[i] is not None]
    bad = lib.coq_eval("c10m", lib.header("Check.C08", "check_file_bytes"), items, per_file=30)
    if bad and not v.violations:
        v.tie_broken("correspondence model vs gosk (pool programs, whole file)", {"source": texts[bad[0]]})
    v.cov.update({"evaluations": calls, "distinct_nontrivial": nontriv,
                  "rule": "pool of flat/WCOFF programs in both modes with labels, EQUs, GLOBALs and sums mixing registers and constants; pairs of programs made of the same statement texts in 16-bit and 32-bit mode; histories = random sequences with repetitions, the twin programs alternating in both orders (some with the destination pre-filled with longer content), all orders of a 4-program pool twice, and every program re-assembled three times from one parsed tree, each in one process; every call is compared with the output of a fresh CLI process for that source; non-trivial = histories run",
                  "samples": [{"history": hist[0], "first_source": texts[hist[0][0]]}], "pool": npool, "histories": len(cases), "calls": calls, "correspondence_mismatches": len(bad)})
