"""C05 - data directives emit exactly their operand values."""
import ast as A
import lib
from gen_common import *

NEEDS_VO = ["Model/Asm.v", "Check/C05.v", "Check/Prog.v"]


def gen_operand(rng, directive, labels, allow_dollar=True):
    r = rng.random()
    if directive == "DB" and r < 0.2:
        return A.string(rand_string(rng))
    if r < 0.55:
        return A.num(rng.choice(BOUNDARY)) if rng.random() < 0.7 else A.hexn(rng.choice([b for b in BOUNDARY if b >= 0]))
    if r < 0.7:
        return const_exp(rng, 2)
    if r < 0.85 and labels:
        return A.ident(rng.choice(labels))
    if r < 0.9 and allow_dollar:
        return A.ident("$")
    return A.num(rng.randrange(-70000, 70000))


def gen_program(rng, maxstmts):
    prog = []
    labels = []
    org = rng.choice([None, 0, 0x100, 0x7c00, 0xc200, 0x10000, 0x280000, 0x12344])
    if org is not None:
        prog.append(("mn", "ORG", [A.hexn(org)]))
    n = rng.randrange(1, maxstmts)
    for k in range(n):
        r = rng.random()
        if r < 0.15:
            l = "L%d" % len(labels)
            labels.append(l)
            prog.append(("label", l))
        elif r < 0.2:
            prog.append(("equ", "E%d" % k, const_exp(rng, 2)))
        elif r < 0.23:
            prog.append(rng.choice([("config", "INSTRSET", ("str", b"i486p")), ("global", ["g%d" % k]), ("extern", ["x%d" % k]),
                                    ("config", "OPTIMIZE", ("num", 1)), ("config", "SECTION", ("id", ".text"))]))
        elif r < 0.8:
            d = rng.choice(["DB", "DW", "DD"])
            cnt = rng.choice([1, 1, 2, 3, 5, 8, 17, 64]) if rng.random() < 0.3 else rng.randrange(1, 6)
            prog.append(("mn", d, [gen_operand(rng, d, labels) for _ in range(cnt)]))
        elif r < 0.9:
            if rng.random() < 0.5:
                prog.append(("mn", "RESB", [A.num(rng.choice([0, 1, 2, 7, 18, 100, 511]))]))
            else:
                # RESB addr-$ with addr beyond the current position: use a generous target
                base = (org or 0)
                prog.append(("mn", "RESB", [A.sum_of([("+", ("hex", base + 0x200 * (k + 1))), ("-", ("id", "$"))])]))
        else:
            prog.append(("mn", "ALIGNB", [A.num(rng.choice([1, 2, 4, 8, 16]))]))
    return prog, org


def skeleton():
    """exhaustive finite part: directive x operand kind x boundary value; ALIGNB n x every residue."""
    out = []
    for d in ("DB", "DW", "DD"):
        for v in BOUNDARY:
            out.append(([("mn", d, [A.num(v)])], "num"))
        for v in [b for b in BOUNDARY if b >= 0]:
            out.append(([("mn", d, [A.hexn(v)])], "hex"))
        out.append(([("label", "a"), ("mn", d, [A.ident("a"), A.ident("$")]), ("label", "b"), ("mn", d, [A.ident("b"), A.ident("$"), A.ident("a")])], "label"))
        out.append(([("mn", "ORG", [A.hexn(0x7c00)]), ("op", "NOP") if False else ("mn", "DB", [A.num(0)]), ("label", "a"), ("mn", d, [A.ident("a"), A.ident("$")])], "label-org"))
    for d in ("DB", "DW", "DD"):
        for org in (0xfffe, 0x10000, 0x12345, 0x280000, 0x7fff0000):
            out.append(([("mn", "ORG", [A.hexn(org)]), ("mn", "DB", [A.num(1), A.num(2), A.num(3)]), ("label", "a"), ("mn", d, [A.ident("a"), A.ident("$"), A.num(0x1234)]), ("label", "b"), ("mn", d, [A.ident("b")])], "label-high-org"))
        out.append(([("mn", "DB", [A.num(7)]), ("mn", "RESB", [A.hexn(0x10000)]), ("label", "far"), ("mn", d, [A.ident("far"), A.ident("$")])], "label-after-64k"))
    for s in [b"", b"a", b"hello", b"a,b", b"x;y", b"#z", b" sp ace ", b"it's", b"0x41", b"DB 1,2",
              # strings are bytes: characters that take several bytes in the source text emit (and count as) all of them
              "\u00e9".encode(), "\u65e5\u672c\u8a9e".encode(), "a\u00e9b\u20acc".encode(), "\uff71\uff72".encode(), "\U0001f600".encode()]:
        out.append(([("mn", "DB", [A.string(s)])], "str"))
        out.append(([("mn", "DB", [A.num(1), A.string(s), A.num(2)])], "str"))
        out.append(([("mn", "ORG", [A.hexn(0x7c00)]), ("mn", "DB", [A.string(s)]), ("label", "after"), ("mn", "DW", [A.ident("after"), A.ident("$")])], "str-label"))
    for n in (1, 2, 4, 8, 16, 32):
        for res in range(n if n <= 16 else 5):
            out.append(([("mn", "DB", [A.num(i) for i in range(res)])] * (1 if res else 0) + [("mn", "ALIGNB", [A.num(n)]), ("mn", "DB", [A.num(0xAA)])], "alignb"))
            out.append(([("mn", "ORG", [A.hexn(0x7c00)])] + [("mn", "DB", [A.num(i) for i in range(res)])] * (1 if res else 0) + [("mn", "ALIGNB", [A.num(n)]), ("mn", "DB", [A.num(0xAA)])], "alignb-org"))
    for org in (0x101, 0x7c02, 3):
        for n in (2, 4, 16):
            out.append(([("mn", "ORG", [A.hexn(org)]), ("mn", "DB", [A.num(1)]), ("mn", "ALIGNB", [A.num(n)]), ("mn", "DB", [A.num(0xAA)])], "alignb-unaligned-org"))
    for n in (0, 1, 2, 17, 512, 4096):
        out.append(([("mn", "RESB", [A.num(n)]), ("mn", "DB", [A.num(1)])], "resb"))
    out.append(([("mn", "ORG", [A.hexn(0x7c00)]), ("mn", "DB", [A.num(1)]), ("mn", "RESB", [A.sum_of([("+", ("hex", 0x7dfe)), ("-", ("id", "$"))])]), ("mn", "DB", [A.hexn(0x55), A.hexn(0xaa)])], "resb-dollar"))
    return out


def is_unaligned_alignb(prog):
    org = 0
    for st in prog:
        if st[0] == "mn" and st[1] == "ORG":
            org = st[2][0][1][1][1]
        if st[0] == "mn" and st[1] == "ALIGNB":
            n = st[2][0][1][1][1]
            if n > 0 and org % n != 0:
                return True
    return False


def run(v, tier, rng):
    nrand = 600 if tier == "quick" else 12000
    progs = [(p, tag) for p, tag in skeleton()]
    for _ in range(nrand):
        p, org = gen_program(rng, 10 if tier == "quick" else 30)
        progs.append((p, "random"))
    cases = [{"id": str(i), "srcs": [A.p_program(p)]} for i, (p, _) in enumerate(progs)]
    res = lib.run_cases(cases, "c05")
    # correspondence: model vs implementation on (bytes, diag, panic)
    items = ["(%s, %s)" % (A.g_program(p), lib.obs_of(res[str(i)])) for i, (p, _) in enumerate(progs)]
    bad = lib.coq_eval("c05m", lib.header(), items)
    # direct spec evaluation on the implementation output (search for failing inputs)
    spec_idx = [i for i, (p, _) in enumerate(progs) if "died" not in res[str(i)] and not res[str(i)]["calls"][0].get("panic")
                and not res[str(i)]["calls"][0]["diag"] and not res[str(i)]["calls"][0].get("parse_err")]
    items2 = ["(%s, %s)" % (A.g_program(progs[i][0]), lib.gbytes(lib.hex2list(res[str(i)]["calls"][0]["out"]))) for i in spec_idx]
    codes = lib.coq_eval_values("c05s", lib.header("Check.C05", "check_c05_code"), items2)
    bad2 = [k for k, c in enumerate(codes) if c == 1]
    outside = sum(1 for c in codes if c == 2)
    nontrivial = set()
    hist = {}
    for i, (p, tag) in enumerate(progs):
        hist[tag] = hist.get(tag, 0) + 1
        r = res[str(i)]
        if "died" not in r and r["calls"][0]["out"] not in ("", "!nofile"):
            nontrivial.add(cases[i]["srcs"][0])
    for k in bad2:
        i = spec_idx[k]
        p, tag = progs[i]
        w = {"source": cases[i]["srcs"][0], "got": res[str(i)]["calls"][0]["out"], "why": "output differs from the data-directive specification (Spec/DataProg.v)"}
        v.violation("data directive output differs from specification", w)
    if bad and not v.violations:
        for k in bad[:3]:
            v.tie_broken("correspondence Model/Asm.v vs gosk (C05 programs)",
                         {"source": cases[k]["srcs"][0], "impl": res[str(k)], "note": "model and implementation disagree on (bytes, diag)"})
    v.cov.update({"evaluations": len(progs), "distinct_nontrivial": len(nontrivial),
                  "rule": "one-statement skeleton (directive x operand kind x boundary value; ALIGNB n x residue x origin) + seeded random data programs; "
                          "non-trivial = distinct source text whose output is non-empty",
                  "samples": [cases[0]["srcs"][0], cases[len(cases) // 2]["srcs"][0], cases[-1]["srcs"][0]],
                  "generator_histogram": hist, "correspondence_mismatches": len(bad), "spec_checked": len(spec_idx) - outside, "spec_outside_fragment": outside, "spec_failures": len(bad2)})
