"""C18 - compact encodings are chosen where the ISA offers them."""
import ast as A
import gen_instr as G
from props.c01 import run_generic

NEEDS_VO = ["Model/X86Enc.v", "Spec/X86Len.v", "Check/C01.v", "Check/Prog.v"]
WHY = {5: "emitted encoding is longer than the shortest valid encoding in this mode", 1: "undecodable", 2: "decodes to a different instruction", 3: "length"}
EDGE = [0, 1, 5, 126, 127, 128, 129, -1, -127, -128, -129, -130, 255, 256, 1000, -1000, 0x7fff, 0x8000, 0x12345, 0xff7f, 0xff80, 0xffff, 0xffffff7f, 0xffffff80, 0xffffffff]


def skeleton(tier):
    full = tier == "thorough"
    out = []
    for w in (16, 32, 8):
        rs = G.WIDTH[w]
        for op in G.ALU:
            for r in (rs if full or op in ("ADD", "CMP") else [rs[0], rs[3], rs[6]]):
                for v in (EDGE if full or r in (rs[0], rs[3]) else [127, 128, -128, -129]):
                    out.append((("mn", op, [G.reg(r), G.imm(v)]), {"form": "alu r,imm", "w": w, "imm": v}))
        for r in rs:
            for v in (EDGE if full else [0, 127, 128, -128, -129, 0x1234]):
                out.append((("mn", "MOV", [G.reg(r), G.imm(v)]), {"form": "mov r,imm", "w": w, "imm": v}))
    for w in (16, 32):
        for (b, i, s) in G.shapes16():
            for d in ([None, 0, 4, 127, 128, -128, -129, 0x1234] if (b or i) else [0x1234]):
                m = G.sized(G.mem_exp(b, i, s, d), w)
                for op in (G.ALU if full else ["ADD", "AND", "CMP"]):
                    for v in [127, 128, -128, -129, 1]:
                        out.append((("mn", op, [m, G.imm(v)]), {"form": "alu mem16,imm", "w": w, "imm": v, "asize": 16, "mem": G.mem_desc(b, i, s, d, G.DT[w])}))
        for (b, i, s) in [("EBX", None, None), ("EBP", None, None), ("ESP", None, None), ("EAX", "ECX", 4), (None, None, None), ("ESI", "EDI", 1)]:
            for d in ([None, 8, 127, 128, -128, -129, 0x12345] if (b or i) else [0x1234]):
                m = G.sized(G.mem_exp(b, i, s, d), w)
                for op in (G.ALU if full else ["ADD", "CMP"]):
                    for v in [127, 128, -128, -129]:
                        out.append((("mn", op, [m, G.imm(v)]), {"form": "alu mem32,imm", "w": w, "imm": v, "asize": 32, "mem": G.mem_desc(b, i, s, d, G.DT[w])}))
    # byte-sized memory destinations: no operand-size prefix whatever the immediate looks like
    for (b, i, sc, asz) in [("BX", None, None, 16), ("BP", "SI", None, 16), (None, None, None, 0), ("EBX", None, None, 32), ("EAX", "ECX", 4, 32)]:
        for d in ([None, 4, 0x1234] if (b or i) else [0x1234]):
            m = G.sized(G.mem_exp(b, i, sc, d), 8)
            for op in (G.ALU if full else ["ADD", "CMP", "AND"]) + ["MOV"]:
                for v in [1, 127, 128, 200, 255, -1, -128]:
                    out.append((("mn", op, [m, G.imm(v)]), {"form": ("alu" if op != "MOV" else "mov") + " mem8,imm", "w": 8, "imm": v, "asize": asz, "mem": G.mem_desc(b, i, sc, d, "BYTE")}))
    for acc, w in (("AL", 8), ("AX", 16), ("EAX", 32)):
        for addr in (0, 0x12, 0x0ff0, 0x7fff, 0x8000, 0xffff):
            m = G.mem_exp(None, None, None, addr)
            out.append((("mn", "MOV", [G.reg(acc), m]), {"form": "mov acc,moffs", "w": w, "asize": 0, "mem": G.mem_desc(None, None, None, addr, "")}))
            out.append((("mn", "MOV", [m, G.reg(acc)]), {"form": "mov moffs,acc", "w": w, "asize": 0, "mem": G.mem_desc(None, None, None, addr, "")}))
    for r in G.R16 + G.R32:
        out.append((("mn", "PUSH", [G.reg(r)]), {"form": "push r"}))
        out.append((("mn", "POP", [G.reg(r)]), {"form": "pop r"}))
    return out


def run(v, tier, rng):
    run_generic(v, tier, rng, "C18", "check_c18", skeleton(tier), WHY)
