"""C15 - symbol names are arbitrary."""
import ast as A
import lib
import gen_prog as GP
import gen_coff as GC
import gen_instr as G

NEEDS_VO = ["Model/X86Enc.v", "Model/Asm.v", "Model/Coff.v", "Check/C08.v", "Check/Prog.v"]
CH = "abcdefghijklmnopqrstuvwxyzABCDEFGHIJKLMNOPQRSTUVWXYZ0123456789_"
FAMILIES = [["a", "aa", "a_", "A"], ["x", "x1", "x_1", "X"], ["l", "ll", "l0", "L"], ["_", "__", "_a", "_A"], ["foo", "foobar", "foo_", "Foo"], ["q", "qq", "q_", "Q"]]


def rename_exp(e, s):
    k = e[0]
    if k == "add":
        return ("add", rename_exp(e[1], s), [(o, rename_exp(m, s)) for o, m in e[2]])
    if k == "mul":
        return ("mul", rename_exp(e[1], s), [(o, rename_exp(p, s)) for o, p in e[2]])
    if k == "mem":
        return ("mem", e[1], rename_exp(e[2], s), rename_exp(e[3], s) if e[3] is not None else None)
    if k == "id":
        return ("id", s.get(e[1], e[1]))
    return e


def rename(prog, s):
    out = []
    for st in prog:
        if st[0] == "label":
            out.append(("label", s.get(st[1], st[1])))
        elif st[0] == "equ":
            out.append(("equ", s.get(st[1], st[1]), rename_exp(st[2], s)))
        elif st[0] == "global":
            out.append(("global", [s.get(x, x) for x in st[1]]))
        elif st[0] == "mn":
            out.append(("mn", st[1], [rename_exp(o, s) for o in st[2]]))
        else:
            out.append(st)
    return out


def names_of(prog):
    ns = []
    for st in prog:
        if st[0] in ("label", "equ") and st[1] not in ns:
            ns.append(st[1])
    return ns


def safe_first(rng):
    # first characters that are no prefix of an opcode / register / keyword in either grammar
    return rng.choice("_qzQZ")


def rand_ident(rng, n):
    return safe_first(rng) + "".join(rng.choice(CH) for _ in range(n - 1))


def run(v, tier, rng):
    n = 150 if tier == "quick" else 3000
    pairs = []
    for g in range(n):
        mode = rng.choice([16, 16, 32])
        prog, meta = GP.gen_program(rng, mode=mode, org=rng.choice([None, 0x7c00]), nstmts=rng.choice([6, 15, 30]), jumps=(mode == 16))
        # further places where a label name travels as text: memory operands of LGDT / MOV / ALU / PUSH, label arithmetic
        labs = meta["labels"]
        if labs and rng.random() < 0.6:
            acc, rg = ("AX", "CX") if mode == 16 else ("EAX", "ECX")
            extra = [("mn", "LGDT", [A.mem("", A.ident(rng.choice(labs)))]), ("mn", "MOV", [G.reg(acc), A.mem("", A.ident(rng.choice(labs)))]),
                     ("mn", "MOV", [A.mem("", A.ident(rng.choice(labs))), G.reg("AL")]), ("mn", "ADD", [G.reg(rg), A.mem("", A.sum_of([("+", ("id", rng.choice(labs))), ("+", ("num", 2))]))]),
                     ("mn", "MOV", [G.reg(rg), A.sum_of([("+", ("id", rng.choice(labs))), ("+", ("num", 4))])]), ("mn", "PUSH", [A.ident(rng.choice(labs))])]
            rng.shuffle(extra)
            k = rng.randrange(len(prog) - 1) + 1 if len(prog) > 1 else 0
            hd = 1 if prog and prog[0][0] == "config" else 0
            k = max(k, hd + (1 if len(prog) > hd and prog[hd][0] == "mn" and prog[hd][1] == "ORG" else 0))
            prog = prog[:k] + extra[: rng.randrange(1, 4)] + prog[k:]
        ns = names_of(prog)
        if rng.random() < 0.4 and len(ns) <= 4:
            fam = rng.choice(FAMILIES)
            new = fam[:len(ns)]
            rng.shuffle(new)
        else:
            new = []
            while len(new) < len(ns):
                c = rand_ident(rng, rng.choice([1, 2, 3, 8, 9, 17, 40]))
                if c not in new and c not in ns:
                    new.append(c)
        s = dict(zip(ns, new))
        pairs.append((prog, rename(prog, s), mode, s, "flat"))
    for g in range(40 if tier == "quick" else 500):
        c = GC.gen_coff_program(rng)
        ns = c["labels"] + [x for x in c["globals"] if x not in c["labels"]]
        ns = list(dict.fromkeys(ns))
        new = []
        if rng.random() < 0.4:
            # long names that agree in their first 8 (and more) characters: they must stay distinct symbols
            stem = rand_ident(rng, rng.choice([8, 9, 12]))
            fam = [stem + suf for suf in ["", "_", "x", "_" + stem, "21", "27", "_a", "_b", "0", "00"]]
            rng.shuffle(fam)
            new = [x for x in fam if x not in ns][:len(ns)]
        while len(new) < len(ns):
            cnd = rand_ident(rng, rng.choice([1, 2, 8, 9, 10, 30]))
            if cnd not in new and cnd not in ns:
                new.append(cnd)
        s = dict(zip(ns, new))
        pairs.append((c["prog"], rename(c["prog"], s), 32, s, "coff"))
    cases = []
    for i, (a, b, _, _, _) in enumerate(pairs):
        cases.append({"id": "a%d" % i, "srcs": [A.p_program(a)]})
        cases.append({"id": "b%d" % i, "srcs": [A.p_program(b)]})
    res = lib.run_cases(cases, "c15")
    nontriv = 0
    coff_items = []
    coff_idx = []
    for i, (a, b, mode, s, kind) in enumerate(pairs):
        ra, rb = res["a%d" % i], res["b%d" % i]
        if not ra.get("calls") or not rb.get("calls"):
            v.violation("assembler died", {"source_a": A.p_program(a), "source_b": A.p_program(b)})
            continue
        ca, cb = ra["calls"][0], rb["calls"][0]
        if ca.get("parse_err") or ca["diag"]:
            continue
        nontriv += 1
        w = {"source_a": A.p_program(a), "source_b": A.p_program(b), "renaming": s, "out_a": ca["out"][:600], "out_b": cb["out"][:600], "diag_b": cb["diag"], "parse_err_b": cb.get("parse_err")}
        if kind == "flat":
            if cb.get("parse_err") or cb["diag"] or ca["out"] != cb["out"]:
                v.violation("consistent renaming of labels/EQU names changes the flat binary", w)
        else:
            if cb.get("parse_err") or cb["diag"] or len(ca["out"]) == 0:
                v.violation("consistent renaming changes the COFF result", w)
            else:
                ren = "[" + "; ".join("(%s, %s)" % (lib.gbytes(list(k.encode())), lib.gbytes(list(x.encode()))) for k, x in s.items()) + "]"
                coff_items.append("(%s, %s, %s)" % (lib.gbytes(lib.hex2list(ca["out"])), lib.gbytes(lib.hex2list(cb["out"])), ren))
                coff_idx.append(i)
    if coff_items:
        codes = lib.coq_eval_values("c15c", lib.header("Check.C08 Check.C15", "check_c15_coff_ren"), coff_items, per_file=100)
        for k, code in enumerate(codes):
            if code:
                i = coff_idx[k]
                v.violation("renaming changes more than name fields and string table in the COFF object, or the names read back are not the renamed ones (code %d; 6 = names)" % code,
                            {"source_a": A.p_program(pairs[i][0]), "source_b": A.p_program(pairs[i][1])})
    items = ["(%s, %s)" % (A.g_program(pairs[i][1]), lib.obs_of(res["b%d" % i])) for i in range(len(pairs)) if pairs[i][4] == "flat"]
    bad = lib.coq_eval("c15m", lib.header(), items, per_file=200)
    if bad and not v.violations:
        v.tie_broken("correspondence model vs gosk (renamed programs)", {"count": len(bad)})
    v.cov.update({"evaluations": len(cases), "distinct_nontrivial": nontriv,
                  "rule": "random 16/32-bit programs and WCOFF programs x injective renamings of all labels/EQU names into identifiers over [A-Za-z0-9_] of length 1..40 (adversarial families a/aa/a_/A etc.), first character chosen outside every opcode/register/keyword prefix; non-trivial = pairs whose original assembles undiagnosed",
                  "samples": [cases[0]["srcs"][0], cases[1]["srcs"][0]], "pairs": len(pairs), "coff_pairs": len(coff_items), "correspondence_mismatches": len(bad)})
