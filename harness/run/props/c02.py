"""C02 - memory operands encode the effective address that was written."""
import gen_instr as G
from props.c01 import run_generic

NEEDS_VO = ["Model/X86Enc.v", "Spec/X86.v", "Spec/Denote.v", "Check/C01.v", "Check/Prog.v"]
WHY = {1: "emitted bytes are not a valid instruction in this mode", 2: "ModR/M, SIB and displacement designate a different effective address than the one written",
       3: "decoded length differs from the emitted length"}


def run(v, tier, rng):
    sk = G.mem_skeleton(tier == "thorough")
    if tier == "quick":
        sk = sk[::3]
    run_generic(v, tier, rng, "C02", "check_c02", sk, WHY)
