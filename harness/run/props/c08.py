"""C08 - WCOFF output is a structurally valid COFF object."""
import ast as A
import lib
from gen_coff import *
import random

NEEDS_VO = ["Model/Coff.v", "Spec/CoffRead.v", "Check/C08.v"]


def corpus(rng, tier):
    n = 250 if tier == "quick" else 4000
    out = [gen_coff_program(rng) for _ in range(n)]
    out += [gen_coff_program(rng, big=True) for _ in range(3 if tier == "quick" else 40)]
    # empty .text, no symbols
    out.append({"prog": [("config", "FORMAT", ("str", b"WCOFF"))], "flat": [], "globals": [], "labels": [], "file": None, "dup": False, "longfile": False})
    # .text at and beyond 64 KiB (16-bit size fields must not be involved anywhere)
    for n in (65533, 65534, 65535, 70000):
        prog = [("config", "FORMAT", ("str", b"WCOFF")), ("config", "BITS", ("num", 32)), ("global", ["_head", "_tail_of_a_large_section"]), ("label", "_head"),
                ("op", "NOP"), ("mn", "RESB", [A.num(n)]), ("label", "_tail_of_a_large_section"), ("op", "RET")]
        out.append({"prog": prog, "flat": prog[1:], "globals": ["_head", "_tail_of_a_large_section"], "labels": ["_head", "_tail_of_a_large_section"], "file": None,
                    "dup": False, "longfile": False})
    # every name length 1..40, defined and undefined, once and twice
    for n in range(1, 41):
        nm = "_" + "a" * (n - 1)
        for defined in (True, False):
            for twice in (False, True):
                prog = [("config", "FORMAT", ("str", b"WCOFF")), ("config", "BITS", ("num", 32)), ("global", [nm] + ([nm] if twice else []))]
                prog += [("op", "NOP")] + ([("label", nm)] if defined else []) + [("op", "RET")]
                out.append({"prog": prog, "flat": prog[1:], "globals": [nm] * (2 if twice else 1), "labels": [nm] if defined else [], "file": None,
                            "dup": twice, "longfile": False})
    return out


def run(v, tier, rng):
    cs = corpus(rng, tier)
    cases = [{"id": str(i), "srcs": [A.p_program(c["prog"])]} for i, c in enumerate(cs)]
    res = lib.run_cases(cases, "c08")
    # spec: independent reader accepts the implementation's object
    idx = [i for i in range(len(cs)) if res[str(i)].get("calls") and not res[str(i)]["calls"][0].get("panic")]
    items = [lib.gbytes(lib.hex2list(res[str(i)]["calls"][0]["out"])) for i in idx]
    codes = lib.coq_eval_values("c08r", lib.header("Check.C08 Spec.CoffRead", "check_c08_read"), items, per_file=150)
    for k, c in enumerate(codes):
        if c != 0:
            i = idx[k]
            v.violation("object rejected by the independent COFF reader (code %d: 1=inconsistent layout, 2=unparseable)" % c,
                        {"source": cases[i]["srcs"][0], "object_hex": res[str(i)]["calls"][0]["out"]})
    # the same object written again in the same process (and after other objects) must be just as well-formed
    rep = [i for i, c in enumerate(cs) if any(len(n) > 8 for n in c["globals"])][:: (2 if tier == "quick" else 1)][:400]
    rcases = [{"id": "r%d" % i, "srcs": [cases[i]["srcs"][0], cases[rep[(k + 1) % len(rep)]]["srcs"][0], cases[i]["srcs"][0]]} for k, i in enumerate(rep)]
    rres = lib.run_cases(rcases, "c08r")
    ritems, rmeta = [], []
    for k, i in enumerate(rep):
        r = rres["r%d" % i]
        if not r.get("calls") or len(r["calls"]) != 3:
            v.violation("assembler died while writing several objects in one process", {"source": cases[i]["srcs"][0]})
            continue
        for j, call in enumerate(r["calls"]):
            ritems.append(lib.gbytes(lib.hex2list(call["out"])))
            rmeta.append((i, j))
    rcodes = lib.coq_eval_values("c08rr", lib.header("Check.C08 Spec.CoffRead", "check_c08_read"), ritems, per_file=150)
    for k, c in enumerate(rcodes):
        if c != 0:
            i, j = rmeta[k]
            v.violation("object number %d written in one process is rejected by the independent COFF reader (code %d)" % (j + 1, c),
                        {"source": cases[i]["srcs"][0], "note": "sources assembled in this order in one process: this one, another WCOFF program, this one again",
                         "other_source": cases[rep[(rep.index(i) + 1) % len(rep)]]["srcs"][0]})
            break
    # correspondence model vs implementation (whole file)
    items2 = ["(%s, %s)" % (A.g_program(c["prog"]), lib.obs_of(res[str(i)])) for i, c in enumerate(cs)]
    bad = lib.coq_eval("c08m", lib.header("Check.C08", "check_file"), items2, per_file=150)
    if bad and not v.violations:
        for k in bad[:3]:
            v.tie_broken("correspondence Model/Coff.v vs gosk (whole object file)", {"source": cases[k]["srcs"][0], "impl": res[str(k)]["calls"][0]["out"] if res[str(k)].get("calls") else res[str(k)]})
    hist = {"dup": sum(c["dup"] for c in cs), "longfile": sum(c["longfile"] for c in cs), "with_file": sum(c["file"] is not None for c in cs),
            "names_gt8": sum(any(len(n) > 8 for n in c["globals"]) for c in cs), "undefined": sum(any(n not in c["labels"] for n in c["globals"]) for c in cs)}
    v.cov.update({"evaluations": len(cs), "distinct_nontrivial": len(set(res[str(i)]["calls"][0]["out"] for i in idx)),
                  "rule": "WCOFF programs: random label/GLOBAL sets (name lengths 1..40, defined/undefined/duplicated/prefix-sharing, GLOBAL before/after), FILE of any length, empty to large .text, plus every name length 1..40 x defined/undefined x once/twice; non-trivial = distinct object files produced",
                  "samples": [cases[0]["srcs"][0], cases[len(cases) // 3]["srcs"][0]], "generator_histogram": hist,
                  "reader_rejections": sum(1 for c in codes if c != 0), "correspondence_mismatches": len(bad)})
