"""C07 - nothing is dropped or mis-assembled silently."""
import json, os
import ast as A
import lib

NEEDS_VO = ["Check/C01.v", "Check/Prog.v"]
KNOWN_FILE = os.path.join(os.path.dirname(os.path.dirname(os.path.abspath(__file__))), "known_c07.json")
KINDS = {"r8": "CL", "r16": "BX", "r32": "EDX", "acc8": "AL", "acc16": "AX", "acc32": "EAX", "sreg": "DS", "creg": "CR0", "imm8": "5", "imm16": "0x1234", "imm32": "0x12345678",
         "neg": "-3", "mem16": "[BX+4]", "mem32": "[EDX+ECX*4+8]", "abs": "[0x0ff0]", "bytemem": "BYTE [SI]", "wordmem": "WORD [BX]", "dwordmem": "DWORD [0x0ff8]",
         "farundef": "nosuchseg:0x10", "farbig": "0xF000:0xFFF0",      # far pointers whose segment is not a number gosk can encode
         "badpair": "[SI+DI]", "badpair2": "[BX+BP+4]", "badpair3": "[CX+SI]",      # register pairs that have no 16-bit ModR/M encoding
         "label": "lbl", "undef": "nosuchname", "str": "\"s\"", "far": "2*8:0x1b", "dollar": "$", "expr": "lbl+2", "memlabel": "[lbl]", "port": "0x3f8"}
NON_EMITTING = {"ORG", "ALIGNB", "ALIGN", "END", "RESB", "RESW", "RESD", "RESQ", "REST", "TIMES", "DB", "DW", "DD", "DQ", "DT"}
PREFIX = "\tMOV\tAX,1\n"
SUFFIX = "after:\n\tDW\tafter\n\tNOP\n"


def arglists(tier):
    ks = list(KINDS)
    one = [[k] for k in ks]
    two_sel = [("r16", "imm8"), ("r16", "imm16"), ("r16", "r16"), ("r8", "r8"), ("r32", "r32"), ("r32", "imm32"), ("acc16", "imm16"), ("r16", "mem16"), ("mem16", "r16"), ("r8", "bytemem"),
               ("bytemem", "imm8"), ("wordmem", "imm16"), ("dwordmem", "imm32"), ("r16", "label"), ("r16", "undef"), ("acc8", "port"), ("port", "acc8"), ("acc8", "imm8"), ("imm8", "acc8"),
               ("sreg", "r16"), ("r16", "sreg"), ("creg", "r32"), ("r32", "creg"), ("r32", "mem32"), ("mem32", "r32"), ("r16", "abs"), ("acc16", "abs"), ("abs", "acc16"),
               ("r16", "badpair"), ("badpair", "r16"), ("r16", "badpair2"), ("r8", "badpair3"), ("badpair2", "imm8"),
               ("undef", "r16"), ("mem16", "undef"), ("r16", "expr"), ("r16", "str"), ("r16", "dollar"), ("r16", "memlabel"), ("r16", "neg")]
    sub = ["r8", "r16", "r32", "acc16", "sreg", "imm8", "imm16", "imm32", "mem16", "mem32", "abs", "bytemem", "label", "undef", "port"]
    two = [list(t) for t in two_sel] if tier == "quick" else [list(t) for t in two_sel] + [[a, b] for a in sub for b in sub if (a, b) not in two_sel]
    three = [["r16", "r16", "imm8"], ["r32", "mem32", "imm16"], ["r16", "imm8", "imm8"]]
    return [[]] + one + two + three


def build(mn, args, mode):
    head = "[BITS 32]\n" if mode == 32 else ""
    x = "\t%s%s\n" % (mn, ("\t" + ",".join(KINDS[a] for a in args)) if args else "")
    lbl = "lbl:\n" if any(a in ("label", "expr", "memlabel") for a in args) else ""
    return head + lbl + PREFIX + x + SUFFIX, head + lbl + PREFIX + SUFFIX


DETAILED = {"MOV", "ADD", "OR", "AND", "SUB", "XOR", "CMP", "NOT", "SHL", "SHR", "SAR", "IMUL", "PUSH", "POP", "IN", "OUT", "INT", "LGDT", "CALL", "ADC", "SBB", "INC",
            "DEC", "NEG", "MUL", "DIV", "IDIV", "RET"}


def key(mn, args, mode):
    # encoder-driven mnemonics: the exact operand-kind list identifies the finding; for the others (operands are
    # ignored or the one-byte table is used) the arity does
    if mn in DETAILED or mn.startswith("J"):
        return "%s|%s|%d" % (mn, ",".join(args), mode)
    return "%s|arity%d|%d" % (mn, len(args), mode)


def run(v, tier, rng, write_known=False):
    reg = json.load(open(os.path.join(lib.BUILD, "registry.json")))
    known = set(json.load(open(KNOWN_FILE))) if os.path.exists(KNOWN_FILE) else set()
    cases = []
    meta = []
    for mn in reg["opcodes"]:
        for args in arglists(tier):
            for mode in ((16, 32) if tier == "thorough" or len(args) <= 1 else (16,) if hash(mn) % 2 else (32,)):
                src, base = build(mn, args, mode)
                cases.append({"id": str(len(cases)), "srcs": [src]})
                meta.append((mn, args, mode, src))
    res = lib.run_cases(cases, "c07")
    # the three bytes of the prefix and the three of the suffix are fixed; what lies between belongs to the statement under test
    pre_len = {16: 3, 32: 4}      # MOV AX,1 = B8 01 00 / 66 B8 01 00
    silent = []
    stats = {"diagnosed": 0, "parse_error": 0, "crashed": 0, "silent_ok": 0}
    fail = []
    for i, (mn, args, mode, src) in enumerate(meta):
        r = res[str(i)]
        if not r.get("calls") or r["calls"][0].get("panic"):
            stats["crashed"] += 1          # C13's business
            continue
        c = r["calls"][0]
        if c.get("parse_err"):
            stats["parse_error"] += 1
            continue
        if c["diag"]:
            stats["diagnosed"] += 1
            continue
        out = bytes.fromhex(c["out"])
        pl = pre_len[mode]
        xb = out[pl:-3] if len(out) >= pl + 3 else b""
        after = int.from_bytes(out[-3:-1], "little") if len(out) >= 3 else -1
        emitting = mn not in NON_EMITTING
        if mn.startswith("J") and args in (["farundef"], ["farbig"]) and len(xb) > 0 and xb[-2:] != (b"\x00\xf0" if args == ["farbig"] else b"\xff\xff"):
            # a far jump came out although its segment is unknown, or with another segment than the one written
            fail.append((i, "far-jump-segment-substituted"))
        if mn != "JMP" and any(a.startswith("far") for a in args) and len(xb) > 0 and (xb[:1] == b"\xea" or xb[:2] == b"\x66\xea"):
            fail.append((i, "far-pointer-operand-assembled-as-JMP"))          # EA = JMP ptr16:16/32 (SDM); CALL is 9A, Jcc has no far form
        if mn in DETAILED and any(a.startswith("badpair") for a in args) and emitting and len(xb) > 0:
            # the operand has no encoding at all (no 16-bit ModR/M row for this register pair): bytes without a diagnostic
            # can only be some other instruction
            fail.append((i, "accepted-unencodable-operand"))
        if emitting and len(xb) == 0:
            fail.append((i, "silent-drop"))
        elif after != (pl + len(xb)) % 65536 and mn not in ("ORG",):
            fail.append((i, "label-drift"))
        silent.append((i, xb))
    # statements with a denotation: do the bytes decode to them?
    def gst(mn, args):
        return None
    # use the Coq decoder only on operand kinds the AST printers cover: build the AST from the kinds
    import gen_instr as G
    AST = {"r8": G.reg("CL"), "r16": G.reg("BX"), "r32": G.reg("EDX"), "acc8": G.reg("AL"), "acc16": G.reg("AX"), "acc32": G.reg("EAX"), "sreg": G.reg("DS"), "creg": G.reg("CR0"),
           "imm8": A.num(5), "imm16": A.hexn(0x1234), "imm32": A.hexn(0x12345678), "neg": A.num(-3), "mem16": G.mem_exp("BX", None, None, 4), "mem32": G.mem_exp("EDX", "ECX", 4, 8),
           "abs": G.mem_exp(None, None, None, 0x0ff0), "bytemem": ("mem", "BYTE", A.ident("SI"), None), "wordmem": ("mem", "WORD", A.ident("BX"), None),
           "dwordmem": ("mem", "DWORD", A.hexn(0x0ff8), None), "port": A.hexn(0x3f8)}
    items = []
    idx = []
    for i, xb in silent:
        mn, args, mode, src = meta[i]
        if all(a in AST for a in args) and mn not in NON_EMITTING and len(xb) > 0:
            st = ("mn", mn, [AST[a] for a in args]) if args else ("op", mn)
            items.append("(%d, %s, %s)" % (mode, A.g_stmt(st), lib.gbytes(list(xb))))
            idx.append(i)
    codes = lib.coq_eval_values("c07s", lib.HDR % "Check.C01 Spec.X86 Spec.Denote" + "Definition check := check_c01.\n", items, per_file=500)
    judged = 0
    for k, code in enumerate(codes):
        if code == 4:
            continue
        judged += 1
        if code != 0:
            fail.append((idx[k], "misassembled"))
    stats["silent_ok"] = len(silent) - len(set(i for i, _ in fail))
    newk = set()
    hits = 0
    for i, what in fail:
        mn, args, mode, src = meta[i]
        kk = key(mn, args, mode) + "|" + what
        newk.add(kk)
        if kk in known:
            hits += 1
            v.finding("C07-silent-table", {"source": src, "what": what, "output": res[str(i)]["calls"][0]["out"]})
        else:
            v.violation("statement accepted without diagnostic but %s [%s %s, BITS %d]" % (what, mn, ",".join(args), mode),
                        {"source": src, "what": what, "output": res[str(i)]["calls"][0]["out"]})
    if write_known:
        json.dump(sorted(newk), open(KNOWN_FILE, "w"), indent=0)
    v.cov.update({"evaluations": len(cases), "distinct_nontrivial": len(silent),
                  "rule": "every mnemonic the grammar accepts (%d) x operand lists of 0..3 operands over %d operand kinds (registers of every class, immediates, memory forms, defined/undefined labels, strings, far pointers, $), embedded between two correct statements with a label after it whose value is embedded; a case that exits 0 without diagnostic must (a) emit bytes for an emitting mnemonic, (b) leave the following label at the real offset, (c) decode to the statement when the ISA spec covers it; non-trivial = cases accepted silently" % (len(reg["opcodes"]), len(KINDS)),
                  "samples": [meta[5][3], meta[len(meta) // 2][3]], "outcomes": stats, "silently_accepted": len(silent), "judged_by_decoder": judged, "failures": len(fail), "known_table_hits": hits})
