"""C04 - relative branches land exactly on their targets."""
import ast as A
import lib

NEEDS_VO = ["Model/Asm.v", "Spec/Branch.v", "Check/C04.v", "Check/Prog.v"]
JCC = ["JA", "JAE", "JB", "JBE", "JC", "JE", "JG", "JGE", "JL", "JLE", "JNA", "JNAE", "JNB", "JNBE", "JNC", "JNE", "JNG", "JNGE",
       "JNL", "JNLE", "JNO", "JNP", "JNS", "JNZ", "JO", "JP", "JPE", "JPO", "JS", "JZ"]
ALL = ["JMP", "CALL"] + JCC


def filler(n):
    return [("mn", "RESB", [A.num(n)])] if n else []


def mk(name, mode, org, direction, n, target_kind="label", pre=3):
    """direction fwd: n filler bytes between branch and target; bwd: n filler bytes between target and branch"""
    head = []
    if mode == 32:
        head.append(("config", "BITS", ("num", 32)))
    if org is not None:
        head.append(("mn", "ORG", [A.hexn(org)]))
    origin = org or 0
    if direction == "fwd":
        body = filler(pre) + [("mn", name, [A.ident("tgt")])] + filler(n) + [("label", "tgt"), ("mn", "DB", [A.hexn(0xAB)])]
        return {"prog": head + body, "off": pre, "target": ("end", None), "origin": origin}
    if direction == "bwd":
        body = filler(pre) + [("label", "tgt")] + filler(n) + [("mn", name, [A.ident("tgt")]), ("mn", "DB", [A.hexn(0xAB)])]
        return {"prog": head + body, "off": pre + n, "target": ("abs", origin + pre), "origin": origin}
    if direction == "num":   # numeric absolute target n
        body = filler(pre) + [("mn", name, [A.hexn(n)]), ("mn", "DB", [A.hexn(0xAB)])]
        return {"prog": head + body, "off": pre, "target": ("abs", n), "origin": origin}
    raise ValueError(direction)


def classify(c, code, out):
    """finding class of a failing case (None = not a known class).  rel = the distance gosk itself computes
    (target value as pass 1 assigned it minus the address of the branch).  Since the fixes c1e6918 / 68e2454 every emitted
    branch form is right for the distance codegen sees; what is left is pass 1's fixed 16-bit size estimate: a FORWARD
    label is assigned assuming the branch takes 2 (CALL: 3) bytes, so when codegen needs a longer form the label drifts
    and the branch lands short of it."""
    name, mode, direction, n = c["name"], c["mode"], c["dir"], c["n"]
    kind = "JMP" if name == "JMP" else "CALL" if name == "CALL" else "JCC"
    if mode == 32:
        return None                                        # rel32 forms of exactly the sizes pass 1 reserves
    if c.get("over"):
        n = max(0, len(out) - c["off"] - 1 - (3 if kind == "CALL" else 2))     # bytes between the branch and its target
    if direction == "fwd":
        est = 3 if kind == "CALL" else 2
        rel = est + n
        if kind in ("JMP", "JCC") and rel - 2 > 127:
            return "C04-bits16-forward-beyond-short"      # pass 1 counted 2 bytes, codegen emits 3/4 (or 6/7): target label drifts
        if kind == "CALL" and rel - 3 > 32767:
            return "C04-bits16-forward-beyond-short"      # pass 1 counted 3 bytes, codegen emits 66 E8 cd
    return None


def run(v, tier, rng):
    cs = []
    dist_all = list(range(0, 141)) + list(range(32755, 32775))
    dist_b = [0, 1, 2, 3, 120, 124, 125, 126, 127, 128, 129, 130, 131, 140, 32760, 32764, 32765, 32766, 32767, 32768, 32770]
    orgs = [None, 0x7c00, 0xc200] if tier == "thorough" else [None, 0x7c00]
    for mode in (16, 32):
        for name in ALL:
            full = tier == "thorough" or name in ("JMP", "JE", "CALL")
            ds = dist_all if full else dist_b
            if tier == "quick" and full:
                ds = sorted(set(dist_b + list(range(0, 141, 5)) + [126, 127, 128, 129, 130, 131, 132]))
            for n in ds:
                for org in (orgs if n in (0, 127, 128, 32767) or tier == "thorough" else [None]):
                    for direction in ("fwd", "bwd"):
                        c = mk(name, mode, org, direction, n)
                        c.update({"name": name, "mode": mode, "dir": direction, "n": n})
                        cs.append(c)
            for tgt in (0, 0x7c00, 0x7c05, 0xc200, 0x8000, 0xffff, 0x10000, 0x12345):
                for org in (None, 0x7c00):
                    c = mk(name, mode, org, "num", tgt)
                    c.update({"name": name, "mode": mode, "dir": "num", "n": tgt})
                    cs.append(c)
    # a branch as the first statement of the file, or the first after a [BITS n] that switches mode, in a source that
    # contains both modes: it must be encoded in the mode in force where it stands
    for name in (["JMP", "JE", "JNLE", "CALL"] if tier == "quick" else ALL):
        kindl = "JMP" if name == "JMP" else "CALL" if name == "CALL" else "JCC"
        for m1, m2 in ((16, 32), (32, 16)):
            h1 = [("config", "BITS", ("num", 32))] if m1 == 32 else []
            est = (3 if kindl == "CALL" else 2) if m1 == 16 else (6 if kindl == "JCC" else 5)
            prog = h1 + [("mn", name, [A.ident("tgt")])] + filler(1) + [("label", "tgt"), ("mn", "DB", [A.hexn(0xAB)]), ("config", "BITS", ("num", m2)), ("mn", "DB", [A.hexn(0x90)])]
            cs.append({"prog": prog, "off": 0, "target": ("abs", est + 1), "origin": 0, "name": name, "mode": m1, "dir": "fwd", "n": 1})
            prog = h1 + [("mn", "DB", [A.hexn(0x90)]), ("config", "BITS", ("num", m2)), ("mn", name, [A.ident("tgt")])] + filler(1) + [("label", "tgt"), ("mn", "DB", [A.hexn(0xAB)])]
            cs.append({"prog": prog, "off": 1, "target": ("end", None), "origin": 0, "name": name, "mode": m2, "dir": "fwd", "n": 1})
    # forward branches over real statements (not RESB): the target label sits right before the final DB, so the branch must
    # land on image end - 1 whatever lies in between - every statement kind pass 1 sizes can make the label drift
    import gen_instr as G
    far = [("mn", "JMP", [("seg", dt, A.num(16), A.num(27))]) for dt in ("", "DWORD")]
    sk = [st for st, _ in G.one_stmt_skeleton(tier == "thorough")]
    sk = sk[::(3 if tier == "thorough" else 9)] + [st for st, _ in G.mem_skeleton(tier == "thorough")][::(5 if tier == "thorough" else 41)]
    mids = [[f] for f in far] + [[st] for st in sk] + [[far[0], st] for st in sk[::7]]
    # ... and over another, backward, branch at the distances where its short form ends (rel8 = -128 is 126 filler bytes)
    for bn in (0, 100, 125, 126):
        for bname in ("JMP", "JNE", "JC"):
            mids.append([("label", "back"), ("mn", "RESB", [A.num(bn)]), ("mn", bname, [A.ident("back")]), ("op", "NOP")])
    for mode in (16, 32):
        for name in ("JMP", "JE", "CALL"):
            for mid in mids:
                head = [("config", "BITS", ("num", 32))] if mode == 32 else []
                prog = head + [("mn", "ORG", [A.hexn(0x7c00)]), ("mn", name, [A.ident("tgt")])] + mid + [("label", "tgt"), ("mn", "DB", [A.hexn(0xAB)])]
                cs.append({"prog": prog, "off": 0, "target": ("end", None), "origin": 0x7c00, "name": name, "mode": mode, "dir": "fwd", "n": 1, "over": True})
    cases = [{"id": str(i), "srcs": [A.p_program(c["prog"])]} for i, c in enumerate(cs)]
    res = lib.run_cases(cases, "c04")
    # correspondence
    items = ["(%s, %s)" % (A.g_program(c["prog"]), lib.obs_of(res[str(i)])) for i, c in enumerate(cs)]
    bad = lib.coq_eval("c04m", lib.header(), items, per_file=150)
    # spec on implementation output
    idx = []
    items2 = []
    for i, c in enumerate(cs):
        r = res[str(i)]
        if not r.get("calls") or r["calls"][0].get("panic"):
            v.violation("assembler died", {"source": cases[i]["srcs"][0]})
            continue
        call = r["calls"][0]
        if call["diag"]:
            continue                      # diagnosed: outside the premise
        img = lib.hex2list(call["out"])
        kind, val = c["target"]
        target = c["origin"] + len(img) - 1 if kind == "end" else val
        items2.append("(%d, %d, %d, %s, %d, %d, %s)" % (c["mode"], c["origin"], c["off"], lib.gstr(c["name"]), target, -1, lib.gbytes(img)))
        idx.append(i)
    codes = lib.coq_eval_values("c04s", lib.header("Check.C04", "check_c04"), items2, per_file=300)
    fails = {}
    for k, code in enumerate(codes):
        if code == 0:
            continue
        i = idx[k]
        c = cs[i]
        out = lib.hex2list(res[str(i)]["calls"][0]["out"])
        w = {"source": cases[i]["srcs"][0] if len(cases[i]["srcs"][0]) < 2000 else "(long)", "mode": c["mode"], "mnemonic": c["name"], "direction": c["dir"], "distance_or_target": c["n"],
             "code": code, "why": {1: "branch bytes undecodable in this mode", 2: "wrong branch kind / condition code", 3: "branch lands on a different address than the target"}[code],
             "branch_bytes": bytes(out[c["off"]:c["off"] + 7]).hex(), "program": c["prog"] if False else None}
        w["source"] = cases[i]["srcs"][0]
        cl = classify(c, code, out)
        fails[cl] = fails.get(cl, 0) + 1
        if cl:
            v.finding(cl, w)
        else:
            v.violation(w["why"] + " [%s %s %s %s code %d %s]" % (c["mode"], c["name"], c["dir"], c["n"], code, w["branch_bytes"]), w)
    if bad and not v.violations:
        for k in bad[:3]:
            v.tie_broken("correspondence Model/Asm.v vs gosk (branch programs)", {"source": cases[k]["srcs"][0], "impl": res[str(k)]})
    v.cov.update({"evaluations": len(cs), "distinct_nontrivial": len(set(cases[i]["srcs"][0] for i in idx)),
                  "rule": "31 jump mnemonics + CALL x {forward, backward} label targets at distances in [0,140] and around 32768 (all distances for JMP/JE/CALL, boundary distances for the rest) x ORG x BITS, plus numeric targets; non-trivial = distinct source assembled without diagnostic whose branch was decoded",
                  "samples": [cases[0]["srcs"][0], cases[len(cases) // 2]["srcs"][0]],
                  "spec_checked": len(idx), "spec_failures_by_class": {str(k): n for k, n in fails.items()}, "correspondence_mismatches": len(bad)})
