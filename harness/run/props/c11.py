"""C11 - EQU names are transparent abbreviations."""
import ast as A
import lib
import gen_instr as G
import gen_prog as GP
from gen_common import *

NEEDS_VO = ["Model/X86Enc.v", "Model/Asm.v", "Model/Eval.v", "Check/Prog.v"]
VALUES = [0, 1, -1, 4, 7, 0x7f, 0x80, 0xff, 0x100, -128, -129, 0x7fff, 0x8000, 0xffff, 0x10000, 0x7fffffff, 0x80000000, 0xfffffff0, 0xffffff80, 0xe0000000,
          0x0ff0, 0x7c00, 1000, 512]


def subst(e, defs):
    """replace EQU names by their parenthesised defining expressions (recursively)"""
    k = e[0]
    if k == "add":
        return ("add", subst(e[1], defs), [(o, subst(m, defs)) for o, m in e[2]])
    if k == "mul":
        return ("mul", subst_prim(e[1], defs), [(o, subst_prim(p, defs)) for o, p in e[2]])
    if k == "mem":
        return ("mem", e[1], subst(e[2], defs), subst(e[3], defs) if e[3] is not None else None)
    return e


def subst_prim(p, defs):
    if p[0] == "id" and p[1] in defs:
        return subst(defs[p[1]], defs)            # a parenthesised add expression
    if p[0] == "add":
        return subst(p, defs)
    return p


def uses(rng, names, mode):
    """statements using EQU names in every position that admits an expression"""
    n = lambda: ("id", rng.choice(names))
    out = []
    w = 16 if mode == 16 else 32
    regs = G.WIDTH[w]
    out.append(("mn", "DD", [A.sum_of([("+", n())]), A.sum_of([("+", n()), ("+", ("num", 1))]), A.add([("+", ("mul", n(), [("*", ("num", 2))]))])]))
    out.append(("mn", "DW", [A.add([("+", ("mul", n(), [("/", ("num", 16))]))]), A.sum_of([("+", n()), ("-", n())])]))
    out.append(("mn", "DB", [A.add([("+", ("mul", n(), [("%", ("num", 251))]))])]))
    out.append(("mn", "MOV", [G.reg(rng.choice(regs)), A.sum_of([("+", n())])]))
    out.append(("mn", rng.choice(G.ALU), [G.reg(rng.choice(regs[1:])), A.sum_of([("+", n())])]))
    out.append(("mn", rng.choice(G.ALU), [G.reg(rng.choice(regs[1:])), A.sum_of([("+", n()), ("+", ("num", 3))])]))
    base = "BX" if mode == 16 else "EBX"
    out.append(("mn", "MOV", [G.reg(regs[1]), A.mem("", A.sum_of([("+", ("id", base)), ("+", n())]))]))
    out.append(("mn", "MOV", [A.mem("", A.sum_of([("+", n())])), G.reg(regs[0])]))
    out.append(("mn", "RESB", [A.add([("+", ("mul", ("add", ("mul", ("add", ("mul", n(), [("%", ("num", 19))]), []), []), [("+", ("mul", ("num", 19), []))]), [("%", ("num", 19))]))])]))
    rng.shuffle(out)
    return out[: rng.randrange(3, len(out) + 1)]


def rand_sum(rng, names):
    """a sum of 2..5 terms, names and constants in any position and with either sign (the first term positive): with
    the definitions written out of dependency order some names are still unknown when the body is first folded"""
    k = rng.randrange(2, 6)
    terms = []
    for j in range(k):
        t = ("id", rng.choice(names)) if rng.random() < 0.5 else ("num", rng.choice([1, 7, 20, 100, 255, 4096]))
        terms.append(("+" if j == 0 else rng.choice("+-"), t))
    if not any(t[1][0] == "id" for t in terms):
        terms[rng.randrange(len(terms))] = (terms[0][0] if len(terms) == 1 else "-", ("id", rng.choice(names)))
        terms[0] = ("+", terms[0][1])
    return A.sum_of(terms)


def run(v, tier, rng):
    n = 200 if tier == "quick" else 4000
    pairs = []
    for g in range(n):
        mode = rng.choice([16, 32])
        depth = rng.randrange(1, 5 if tier == "quick" else 9)
        defs = {}
        order = []
        for k in range(depth):
            nm = "E%d_%d" % (g % 97, k)
            if k == 0 or rng.random() < 0.3:
                body = A.num(rng.choice(VALUES)) if rng.random() < 0.6 else A.hexn(abs(rng.choice(VALUES)))
            else:
                prev = ("id", rng.choice(order))
                body = rng.choice([A.sum_of([("+", prev), ("+", ("num", rng.choice([1, 2, 16])))]),
                                   A.add([("+", ("mul", prev, [(rng.choice("*/"), ("num", rng.choice([2, 4, 0x1000])))]))]),
                                   A.sum_of([("+", prev), ("-", ("id", rng.choice(order)))]),
                                   A.add([("+", ("mul", prev, [("/", ("hex", 0x1000))])), ("+", ("mul", ("num", 1), []))]),
                                   rand_sum(rng, order), rand_sum(rng, order)])
            defs[nm] = body
            order.append(nm)
        us = uses(rng, order, mode)
        head = [("config", "BITS", ("num", 32))] if mode == 32 else []
        deforder = list(order)
        if rng.random() < 0.35:
            rng.shuffle(deforder)        # definitions not in dependency order (a body may use a name defined further down); all precede the first use
        with_equ = head + [("equ", nm, defs[nm]) for nm in deforder] + us
        # interleave: definitions may also sit between uses of earlier names (define-before-use kept)
        inlined = head + [("mn", st[1], [subst(o, defs) for o in st[2]]) for st in us]
        pairs.append((with_equ, inlined, mode, depth))
    # shared sub-definitions behind a forward reference (an acyclic graph in which one name is reached along two paths)
    for g in range(12 if tier == "quick" else 200):
        mode = rng.choice([16, 32])
        k1, k2, k3 = rng.choice([1, 2, 7]), rng.choice([2, 3, 16]), rng.choice([3, 5, 100])
        nb, nc, ne, nx = ("D%d_%s" % (g, c) for c in "BCEX")
        defs = {nx: A.num(k3), nb: A.sum_of([("+", ("id", nx)), ("+", ("num", k1))]), nc: A.sum_of([("+", ("id", nb)), ("+", ("num", k2))]),
                ne: A.sum_of([("+", ("id", nb)), ("+", ("id", nc))])}
        deforder = rng.choice([[nb, nc, ne, nx], [nc, nb, ne, nx], [ne, nb, nc, nx], [nx, nb, nc, ne], [nb, nx, nc, ne]])
        us = uses(rng, [ne, nc, nb], mode)
        head = [("config", "BITS", ("num", 32))] if mode == 32 else []
        pairs.append((head + [("equ", nm, defs[nm]) for nm in deforder] + us, head + [("mn", st[1], [subst(o, defs) for o in st[2]]) for st in us], mode, 3))
    cases = []
    for i, (a, b, _, _) in enumerate(pairs):
        cases.append({"id": "e%d" % i, "srcs": [A.p_program(a)]})
        cases.append({"id": "i%d" % i, "srcs": [A.p_program(b)]})
    res = lib.run_cases(cases, "c11")
    nontriv = 0
    for i, (a, b, mode, depth) in enumerate(pairs):
        ra, rb = res["e%d" % i], res["i%d" % i]
        if not ra.get("calls") or not rb.get("calls") or ra["calls"][0].get("panic") or rb["calls"][0].get("panic"):
            v.violation("assembler died on an EQU program", {"source_a": A.p_program(a), "source_b": A.p_program(b)})
            continue
        ca, cb = ra["calls"][0], rb["calls"][0]
        if ca["diag"] and cb["diag"]:
            continue
        nontriv += 1
        if ca["out"] != cb["out"] or ca["diag"] != cb["diag"]:
            v.violation("program with EQU names and its textually inlined form assemble differently (chain depth %d, BITS %d)" % (depth, mode),
                        {"source_a": A.p_program(a), "source_b": A.p_program(b), "out_a": ca["out"], "out_b": cb["out"], "diag_a": ca["diag"], "diag_b": cb["diag"]})
        # EQU emits no bytes: covered by equality with the inlined program, which has no EQU statement at all
    items = []
    for i, (a, b, _, _) in enumerate(pairs):
        items.append("(%s, %s)" % (A.g_program(a), lib.obs_of(res["e%d" % i])))
        items.append("(%s, %s)" % (A.g_program(b), lib.obs_of(res["i%d" % i])))
    bad = lib.coq_eval("c11m", lib.header(), items, per_file=200)
    if bad and not v.violations:
        k = bad[0]
        v.tie_broken("correspondence model vs gosk (EQU / inlined programs)", {"source": cases[k]["srcs"][0], "impl": res[cases[k]["id"]]})
    v.cov.update({"evaluations": len(cases), "distinct_nontrivial": nontriv,
                  "rule": "EQU chains (depth 1..4 quick / 1..8 thorough) over boundary values incl. 0x80000000..0xffffffff, used in DD/DW/DB, immediates, displacements, absolute addresses and RESB, versus the program with every name replaced by its parenthesised definition; non-trivial = pairs where at least one side assembles undiagnosed",
                  "samples": [cases[0]["srcs"][0], cases[1]["srcs"][0]], "pairs": len(pairs), "correspondence_mismatches": len(bad)})
