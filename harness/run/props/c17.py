"""C17 - BITS selects the encoding mode for what follows it."""
import ast as A
import lib
import gen_prog as GP
import gen_instr as G

NEEDS_VO = ["Model/X86Enc.v", "Model/Asm.v", "Check/C03.v", "Check/Prog.v"]


def prefix_items(rng, k):
    pool = [("equ", "PK%d" % k, A.num(rng.randrange(100))), ("global", ["g%d" % k]), ("config", "INSTRSET", ("str", b"i486p")),
            ("config", "OPTIMIZE", ("num", 1)), ("config", "FILE", ("str", b"x.nas")), ("extern", ["e%d" % k]), ("config", "SECTION", ("id", ".text")),
            # "regardless of ... labels or data in between": statements that advance the location counter without being instructions
            ("label", "lp%d" % k), ("mn", "DB", [A.num(rng.randrange(256)), A.num(rng.randrange(256))]), ("mn", "DW", [A.hexn(rng.randrange(65536))]),
            ("mn", "RESB", [A.num(rng.randrange(1, 9))])]
    return rng.choice(pool)


def run(v, tier, rng):
    cases = []
    groups = []      # (kind, ids that must all produce the same output, reference id)
    n = 120 if tier == "quick" else 2000
    for g in range(n):
        mode = rng.choice([16, 32])
        npre = rng.randrange(0, 6)
        pre = [prefix_items(rng, 10 * g + k) for k in range(npre)]
        if rng.random() < 0.5:
            pre = [("mn", "ORG", [A.hexn(rng.choice([0x7c00, 0xc200, 0x100, 0x280000]))])] + pre
            npre += 1
        body = [GP.safe_instr(rng, mode, []) for _ in range(rng.randrange(2, 8))] + [GP.data_stmt(rng, [])]
        ids = []
        # BITS at every position of the non-instruction prefix
        for pos in range(npre + 1):
            prog = pre[:pos] + [("config", "BITS", ("num", mode))] + pre[pos:] + body
            cid = "g%d_%d" % (g, pos)
            cases.append({"id": cid, "srcs": [A.p_program(prog)], "prog": prog})
            ids.append(cid)
        # an earlier, different BITS directive in the prefix is overridden by the later one
        for pos in range(0, npre + 1, 2):
            prog = [("config", "BITS", ("num", 48 - mode))] + pre[:pos] + [("config", "BITS", ("num", mode))] + pre[pos:] + body
            cid = "g%d_o%d" % (g, pos)
            cases.append({"id": cid, "srcs": [A.p_program(prog)], "prog": prog})
            ids.append(cid)
        if mode == 16:
            cid = "g%d_none" % g
            cases.append({"id": cid, "srcs": [A.p_program(pre + body)], "prog": pre + body})     # no BITS at all = 16-bit
            ids.append(cid)
        groups.append(("prefix", ids, mode))
    # mode switching between instruction groups: each segment must be encoded in its own mode
    nsw = 40 if tier == "quick" else 600
    sw = []
    for g in range(nsw):
        segs = []
        m = rng.choice([16, 32])
        for si in range(rng.choice([2, 2, 3])):
            body = [GP.safe_instr(rng, m, []) for _ in range(rng.randrange(1, 5))]
            if segs and rng.random() < 0.5:
                # the same statement texts as in the previous group, now in the other mode (their sizes differ): anything
                # remembered per statement text must not carry over the switch
                body = [st for st in segs[-1][1] if st[0] == "mn" and st[1] not in ("JMP", "JE", "JNLE", "CALL", "DB")][:3] or body
            if rng.random() < (0.6 if g % 2 else 1.0):
                # a branch to a label of its own group as the FIRST statement after the mode switch (relative: the
                # group assembles to the same bytes alone and in context); kept short so that the 16-bit size estimate holds
                lab = "sw%d_%d" % (g, si)
                body = [("mn", rng.choice(["JMP", "JE", "JNLE", "CALL"]), [A.ident(lab)])] + body[:3] + [("label", lab), ("mn", "DB", [A.num(rng.randrange(256))])]
            segs.append((m, body))
            m = 48 - m
        prog = []
        for (m, sts) in segs:
            prog += [("config", "BITS", ("num", m))] + sts
        cid = "s%d" % g
        cases.append({"id": cid, "srcs": [A.p_program(prog)], "prog": prog})
        for si, (m, sts) in enumerate(segs):
            cases.append({"id": "s%d_%d" % (g, si), "srcs": [A.p_program([("config", "BITS", ("num", m))] + sts)], "prog": None})
        sw.append((cid, ["s%d_%d" % (g, si) for si in range(len(segs))]))
    res = lib.run_cases([{"id": c["id"], "srcs": c["srcs"]} for c in cases], "c17")
    src = {c["id"]: c["srcs"][0] for c in cases}
    progs = {c["id"]: c["prog"] for c in cases}

    def out(cid):
        r = res[cid]
        if not r.get("calls") or r["calls"][0].get("panic") or r["calls"][0]["diag"]:
            return None
        return r["calls"][0]["out"]
    nontriv = 0
    for kind, ids, mode in groups:
        outs = [out(i) for i in ids]
        if any(o is None for o in outs):
            continue
        nontriv += 1
        for i, o in zip(ids, outs):
            if o != outs[0]:
                v.violation("position of the BITS directive among non-instruction statements changes the encoding (BITS %d)" % mode,
                            {"source_a": src[ids[0]], "source_b": src[i], "out_a": outs[0], "out_b": o})
                break
    # walk the prefix programs under the mode in force (spec: decode segment-wise)
    widx = [c["id"] for c in cases if c["id"].startswith("g") and out(c["id"]) is not None][:: (1 if tier == "thorough" else 2)]
    codes = lib.coq_eval_values("c17w", lib.header("Check.C03", "check_c03"), ["(%s, %s)" % (A.g_program(progs[i]), lib.gbytes(lib.hex2list(out(i)))) for i in widx], per_file=200)
    for k, code in enumerate(codes):
        if code and code % 100 not in (2, 7):
            v.violation("instructions are not encoded/sized for the mode selected by BITS (walk code %d)" % code, {"source": src[widx[k]], "image": out(widx[k])})
    for cid, parts in sw:
        w = out(cid)
        ps = [out(p) for p in parts]
        if w is None or any(p is None for p in ps):
            continue
        nontriv += 1
        if w != "".join(ps):
            v.violation("a program that switches mode between instruction groups is not the concatenation of its groups assembled in their own mode",
                        {"source": src[cid], "out": w, "expected_segmentwise": "".join(ps), "segments": [src[p] for p in parts]})
    bad = lib.coq_eval("c17m", lib.header(), ["(%s, %s)" % (A.g_program(c["prog"]), lib.obs_of(res[c["id"]])) for c in cases if c["prog"] is not None], per_file=200)
    if bad and not v.violations:
        v.tie_broken("correspondence model vs gosk (BITS placement / switching programs)", {"count": len(bad)})
    v.cov.update({"evaluations": len(cases), "distinct_nontrivial": nontriv,
                  "rule": "BITS n at every position of a prefix of ORG/EQU/GLOBAL/EXTERN/bracket directives/labels/data before the first instruction (and no BITS at all for 16-bit) must give identical output, walked by the decoder in mode n; programs switching mode between instruction groups compared with the concatenation of their separately assembled segments; non-trivial = undiagnosed groups",
                  "samples": [cases[0]["srcs"][0], src[sw[0][0]]], "switching_programs": len(sw), "correspondence_mismatches": len(bad)})
