"""C09 - COFF carries the same code and the right symbols."""
import ast as A
import lib
from gen_coff import *

NEEDS_VO = ["Model/Coff.v", "Spec/CoffRead.v", "Check/C08.v"]


def run(v, tier, rng):
    n = 300 if tier == "quick" else 5000
    cs = [gen_coff_program(rng) for _ in range(n)]
    # every subset and ordering of 3 labels
    import itertools
    labs = ["_aa", "_bbbbbbbbb", "_c"]
    for r in range(0, 4):
        for sub in itertools.permutations(labs, r):
            for before in (True, False):
                body = [("op", "NOP"), ("label", labs[0]), ("mn", "DB", [A.num(1), A.num(2)]), ("label", labs[1]), ("op", "RET"), ("label", labs[2]), ("op", "HLT")]
                g = [("global", list(sub))] if sub else []
                head = [("config", "FORMAT", ("str", b"WCOFF")), ("config", "BITS", ("num", 32)), ("config", "FILE", ("str", b"t.nas"))]
                prog = head + (g + body if before else body + g)
                cs.append({"prog": prog, "flat": prog[1:], "globals": list(sub), "labels": labs, "file": b"t.nas", "dup": False, "longfile": False, "addr": label_offsets(body)})
    # repeated names in every position of one or two GLOBAL statements (always present, not left to the random draw)
    labs4 = ["_a", "_bb", "_ccccccccc", "_d"]
    body4 = []
    for k, l in enumerate(labs4):
        body4 += [("label", l), ("mn", "DB", [A.num(k)] * (k + 1))]
    head4 = [("config", "FORMAT", ("str", b"WCOFF")), ("config", "BITS", ("num", 32)), ("config", "FILE", ("str", b"d.nas"))]
    for stmts in ([["_a", "_bb"], ["_bb", "_ccccccccc", "_d"]], [["_a", "_a", "_bb"]], [["_a", "_bb", "_a"]], [["_a", "_bb", "_a", "_d"]], [["_a", "_bb"], ["_a"]],
                  [["_a", "_bb"], ["_a", "_d"]], [["_d", "_a"], ["_bb", "_d", "_ccccccccc"]], [["_a"], ["_a"], ["_a", "_bb"]], [["_x1", "_a", "_x1", "_bb"]]):
        for before in (True, False):
            g = [("global", list(x)) for x in stmts]
            prog = head4 + (g + body4 if before else body4 + g)
            cs.append({"prog": prog, "flat": prog[1:], "globals": [n for x in stmts for n in x], "labels": labs4, "file": b"d.nas", "dup": True, "longfile": False, "addr": label_offsets(body4)})
    cases = []
    for i, c in enumerate(cs):
        cases.append({"id": "o%d" % i, "srcs": [A.p_program(c["prog"])]})
        cases.append({"id": "f%d" % i, "srcs": [A.p_program(c["flat"])]})
    res = lib.run_cases(cases, "c09")
    items = []
    idx = []
    for i, c in enumerate(cs):
        ro, rf = res["o%d" % i], res["f%d" % i]
        if not ro.get("calls") or not rf.get("calls") or ro["calls"][0].get("panic") or rf["calls"][0].get("panic"):
            v.violation("assembler died on a COFF program", {"source": cases[2 * i]["srcs"][0]})
            continue
        symv = rf["calls"][0].get("sym") or {}
        seen = []
        for nme in c["globals"]:          # each declared name exactly once, in first-declaration order
            if nme not in seen:
                seen.append(nme)
        ents = []
        for k, nme in enumerate(seen):
            if nme in c["labels"]:
                # the value a GLOBAL label must carry is its real offset in .text, computed from the statement sizes
                # (not what gosk's own symbol table says); for bodies the size rule does not cover, gosk's table
                real = (c.get("addr") or {}).get(nme)
                ents.append((0, (real if real is not None else symv.get(nme, -1)) % (1 << 32), k, nme, 1))
            else:
                ents.append((1, 0, k, nme, 0))
        ents.sort(key=lambda e: (e[0], e[1] if e[0] == 0 else 0))   # stable: undefined last, defined by address
        exp = lib.glist("(%s, %d, %d)" % (lib.gbytes(list(e[3].encode())), e[1], e[4]) for e in ents)
        items.append("(%s, %s, %s, %s)" % (lib.gbytes(lib.hex2list(ro["calls"][0]["out"])), lib.gbytes(lib.hex2list(rf["calls"][0]["out"])), exp,
                                           lib.gbytes(list(c["file"] or b""))))
        idx.append(i)
    codes = lib.coq_eval_values("c09", lib.header("Check.C08", "check_c09"), items, per_file=120)
    why = {1: "object unreadable", 2: ".text differs from the flat binary of the same source", 3: "symbol records differ from the declared GLOBAL set", 4: ".file auxiliary record does not hold the FILE name"}
    for k, code in enumerate(codes):
        if code == 0:
            continue
        i = idx[k]
        c = cs[i]
        w = {"source": cases[2 * i]["srcs"][0], "code": code, "why": why.get(code), "object_hex": res["o%d" % i]["calls"][0]["out"]}
        v.violation(why.get(code, "?"), w)
    v.cov.update({"evaluations": len(cs), "distinct_nontrivial": len(set(cases[2 * i]["srcs"][0] for i in idx if cs[i]["globals"])),
                  "rule": "32-bit WCOFF programs with random label sets, GLOBAL subsets/orders/placements (one or several statements, before/after definitions), names 1..40 bytes, FILE names, plus all ordered subsets of a 3-label program; each assembled with and without FORMAT; non-trivial = distinct sources declaring at least one GLOBAL",
                  "samples": [cases[0]["srcs"][0]], "failures_by_code": {str(k): sum(1 for c in codes if c == k) for k in (1, 2, 3, 4)},
                  "dup_cases": sum(c["dup"] for c in cs), "longfile_cases": sum(c["longfile"] for c in cs)})
