"""C16 - ORG relocates absolute references and nothing else."""
import ast as A
import lib
import gen_prog as GP

NEEDS_VO = ["Model/X86Enc.v", "Model/Asm.v", "Check/C16.v", "Check/Prog.v"]
ORGS = [None, 0, 0x100, 0x7c00, 0xc200, 0x8000, 0xfff0]


def with_org(body, org):
    return ([("mn", "ORG", [A.hexn(org)])] if org is not None else []) + body


def fixed_bodies():
    out = []
    b1 = [("label", "start"), ("mn", "MOV", [A.ident("AX"), A.ident("start")]), ("mn", "JMP", [A.ident("fwd")]), ("mn", "DW", [A.ident("start"), A.ident("$")]),
          ("mn", "DD", [A.ident("start")]), ("label", "fwd"), ("mn", "CMP", [A.ident("AL"), A.num(0)]), ("mn", "JE", [A.ident("start")]),
          ("mn", "CALL", [A.ident("start")]), ("mn", "MOV", [A.ident("SI"), A.ident("fwd")]), ("mn", "DB", [A.num(1), A.num(2)]), ("mn", "JMP", [A.ident("start")])]
    out.append(b1)
    # relative forms beyond 32 KiB (66h-prefixed rel32 in 16-bit mode): their displacement must not see the origin either
    for br in ("CALL", "JMP", "JNZ"):
        out.append([("label", "target"), ("op", "RET"), ("mn", "MOV", [A.ident("BX"), A.ident("target")]), ("mn", "RESB", [A.num(40000)]), ("label", "caller"),
                    ("mn", br, [A.ident("target")]), ("mn", "DW", [A.ident("target"), A.ident("caller")])])
    # bracket directives in the middle of a body must not touch the location counter (ORG is recorded in two places)
    out.append(b1[:3] + [("config", "SECTION", ("id", ".text"))] + b1[3:])
    out.append([("config", "SECTION", ("id", ".data"))] + b1[:6] + [("config", "INSTRSET", ("str", b"i486p")), ("config", "SECTION", ("id", ".text"))] + b1[6:])
    out.append([("mn", "DB", [A.num(9)]), ("label", "a"), ("mn", "DW", [A.ident("a")]), ("label", "b"), ("mn", "DD", [A.ident("b"), A.ident("a"), A.ident("$")]), ("mn", "JNZ", [A.ident("a")])])
    return out


def run(v, tier, rng):
    bodies = fixed_bodies()
    n = 120 if tier == "quick" else 2500
    for _ in range(n):
        p, meta = GP.gen_program(rng, mode=16, org=None, nstmts=rng.choice([6, 14, 30]), jumps=True)
        bodies.append(p)
    cases = []
    for bi, b in enumerate(bodies):
        for oi, org in enumerate(ORGS):
            cases.append({"id": "%d_%d" % (bi, oi), "srcs": [A.p_program(with_org(b, org))]})
    res = lib.run_cases(cases, "c16")
    items = []
    meta = []
    for bi, b in enumerate(bodies):
        outs = []
        for oi, org in enumerate(ORGS):
            r = res["%d_%d" % (bi, oi)]
            if not r.get("calls") or r["calls"][0].get("panic") or r["calls"][0]["diag"]:
                outs.append(None)
            else:
                outs.append(r["calls"][0]["out"])
        st = [(res["%d_%d" % (bi, oi)].get("calls") or [{}])[0].get("diag") for oi in range(len(ORGS))]
        if any(x is True for x in st) and any(x is False for x in st):
            oa, ob = st.index(False), st.index(True)
            v.violation("the program assembles cleanly at one origin and is diagnosed (statement dropped) at another",
                        {"source_a": A.p_program(with_org(b, ORGS[oa])), "source_b": A.p_program(with_org(b, ORGS[ob])),
                         "out_a": res["%d_%d" % (bi, oa)]["calls"][0]["out"], "out_b": res["%d_%d" % (bi, ob)]["calls"][0]["out"],
                         "diag_b": res["%d_%d" % (bi, ob)]["calls"][0].get("diag_msgs")})
        # no ORG means origin 0
        if outs[0] is not None and outs[1] is not None and outs[0] != outs[1]:
            v.violation("without ORG the origin is not 0", {"source_a": A.p_program(with_org(b, None)), "source_b": A.p_program(with_org(b, 0)), "out_a": outs[0], "out_b": outs[1]})
        pairs = [(1, 2), (2, 3), (3, 4), (1, 5), (4, 6), (3, 6)] if tier == "quick" else [(i, j) for i in range(1, 7) for j in range(1, 7) if i != j]
        for (i, j) in pairs:
            if outs[i] is None or outs[j] is None:
                continue
            delta = ORGS[j] - ORGS[i]
            items.append("(%s, %s, %s, %s)" % (A.g_program(with_org(b, ORGS[i])), lib.gbytes(lib.hex2list(outs[i])), lib.gbytes(lib.hex2list(outs[j])), lib.gz(delta)))
            meta.append((bi, i, j))
    codes = lib.coq_eval_values("c16", lib.header("Check.C16", "check_c16"), items, per_file=150)
    why = {1: "image cannot be walked statement by statement", 2: "output length changes with ORG", 3: "bytes outside absolute label/$ fields change with ORG (relative displacement or code changed)",
           4: "an embedded absolute value did not move by exactly the ORG delta"}
    fails = {}
    for k, code in enumerate(codes):
        if code == 0:
            continue
        bi, i, j = meta[k]
        fails[code] = fails.get(code, 0) + 1
        if code == 1:
            continue       # not walkable = outside the fragment of the walker (counted)
        v.violation(why[code], {"source_a": A.p_program(with_org(bodies[bi], ORGS[i])), "source_b": A.p_program(with_org(bodies[bi], ORGS[j])),
                                "out_a": res["%d_%d" % (bi, i)]["calls"][0]["out"], "out_b": res["%d_%d" % (bi, j)]["calls"][0]["out"], "delta": ORGS[j] - ORGS[i]})
    # model correspondence at all origins
    allp = [(with_org(b, org), "%d_%d" % (bi, oi)) for bi, b in enumerate(bodies) for oi, org in enumerate(ORGS)]
    bad = lib.coq_eval("c16m", lib.header(), ["(%s, %s)" % (A.g_program(p), lib.obs_of(res[cid])) for p, cid in allp], per_file=200)
    if bad and not v.violations:
        for k in bad[:3]:
            v.tie_broken("correspondence model vs gosk (programs at several origins)", {"source": A.p_program(allp[k][0]), "impl": res[allp[k][1]]})
    v.cov.update({"evaluations": len(cases), "distinct_nontrivial": len(items),
                  "rule": "16-bit programs with label-target branches, label immediates, DW/DD of labels and $ assembled at ORG in {none,0,0x100,0x7c00,0xc200,0x8000,0xfff0}; pairs of origins are diffed position by position against the relocation relation (fields found by walking the image); non-trivial = origin pairs compared",
                  "samples": [cases[0]["srcs"][0]], "pairs_checked": len(items), "failures_by_code": {str(k): n for k, n in fails.items()}, "correspondence_mismatches": len(bad)})
