"""C14 - statements assemble independently of their neighbours."""
import itertools
import ast as A
import lib
import gen_instr as G
import gen_prog as GP

NEEDS_VO = ["Model/X86Enc.v", "Model/Asm.v", "Check/Prog.v"]


def label_free_stmt(rng, mode):
    r = rng.random()
    if r < 0.3:
        return GP.data_stmt(rng, [])
    if r < 0.35:
        return ("mn", "RESB", [A.num(rng.choice([0, 1, 3, 8]))])
    st = GP.safe_instr(rng, mode, [])
    return st


def head(mode):
    return [("config", "BITS", ("num", 32))] if mode == 32 else []


def run(v, tier, rng):
    npairs = 250 if tier == "quick" else 5000
    groups = []       # (mode, [seqA, seqB, ...]) -> compare out(concat) with concat(out)
    for _ in range(npairs):
        mode = rng.choice([16, 32])
        k = rng.choice([2, 2, 3])
        seqs = [[label_free_stmt(rng, mode) for _ in range(rng.randrange(1, 6))] for _ in range(k)]
        groups.append((mode, seqs, "concat"))
    # single-statement insertion / deletion in longer programs: every statement alone vs in context
    for _ in range(40 if tier == "quick" else 600):
        mode = rng.choice([16, 32])
        stmts = [label_free_stmt(rng, mode) for _ in range(rng.randrange(8, 25))]
        groups.append((mode, [[s] for s in stmts], "per-statement"))
    # all pairs of the one-statement skeleton classes (one representative per form)
    reps = {}
    for st, tags in G.one_stmt_skeleton(False):
        reps.setdefault(tags["form"], st)
    forms = sorted(reps)
    for i, fa in enumerate(forms):
        for fb in (forms if tier == "thorough" else forms[i::5]):
            for mode in (16, 32):
                groups.append((mode, [[reps[fa]], [reps[fb]]], "skeleton-pair"))
    # same-mnemonic pairs: statements that differ only in what the encoder keys on (accumulator vs other register,
    # direct vs indirect address, immediate class) in both orders
    def pool(mode):
        w = 16 if mode == 16 else 32
        acc8, acc, r8, r = "AL", ("AX" if mode == 16 else "EAX"), "CL", ("BX" if mode == 16 else "EBX")
        ind = G.mem_exp("SI" if mode == 16 else "ESI", None, None, None)
        ind2 = G.mem_exp("BX" if mode == 16 else "ESP", None, None, 4)
        d1, d2 = G.mem_exp(None, None, None, 0x0ff0), G.mem_exp(None, None, None, 0x0ff2)
        mv = []
        for a8, aw in ((acc8, acc), (r8, r)):
            for m in (ind, ind2, d1, d2):
                mv += [("mn", "MOV", [G.reg(a8), m]), ("mn", "MOV", [m, G.reg(a8)]), ("mn", "MOV", [G.reg(aw), m]), ("mn", "MOV", [m, G.reg(aw)])]
        alu = []
        for op in ("ADD", "CMP", "AND"):
            for rg in (acc, r, acc8, r8):
                for v in (5, 1000 if rg in (acc, r) else 100, -128, 127):
                    alu.append(("mn", op, [G.reg(rg), G.imm(v)]))
        return mv, alu
    for mode in (16, 32):
        mv, alu = pool(mode)
        for fam, kind in ((mv, "mov-pair"), (alu, "alu-pair")):
            prs = list(itertools.permutations(fam, 2))
            if tier == "quick":
                prs = prs[::3]
            for a, b in prs:
                groups.append((mode, [[a], [b]], kind))
    # immediate-class pairs, every case in a driver process of its own: a statement must not change how a LATER statement
    # of the same mnemonic is encoded, and the reference outputs of A and B alone must not share process state with A;B
    fresh_groups = []
    for mode in (16, 32):
        rw = ("CX", "DX") if mode == 16 else ("ECX", "EDX")
        big = 30000 if mode == 16 else 100000
        for op in ("IMUL", "ADD", "CMP", "MOV", "PUSH"):
            sts = [("mn", "PUSH", [G.imm(x)]) for x in (4, -128, 1000, big)] if op == "PUSH" else \
                  [("mn", op, [G.reg(r), G.imm(x)]) for r in rw for x in (4, -128, 1000, big)]
            prs = list(itertools.permutations(sts, 2))
            if tier == "quick":
                prs = prs[::2]
            for a, b in prs:
                fresh_groups.append((mode, [[a], [b]], "imm-pair, fresh processes"))
    fcases, fseen = [], {}
    for gi, (mode, seqs, kind) in enumerate(fresh_groups):
        for q in [[s for q in seqs for s in q]] + seqs:
            src = A.p_program(head(mode) + q)
            if src not in fseen:
                fseen[src] = "f%d" % len(fseen)
                fcases.append({"id": fseen[src], "srcs": [src]})
    fres = lib.run_cases(fcases, "c14f", fresh=True)
    fnontriv = 0
    for mode, seqs, kind in fresh_groups:
        srcs = [A.p_program(head(mode) + [s for q in seqs for s in q])] + [A.p_program(head(mode) + q) for q in seqs]
        rs = [fres[fseen[x]] for x in srcs]
        if any(not r.get("calls") or r["calls"][0].get("panic") for r in rs):
            continue
        cs = [r["calls"][0] for r in rs]
        if any(c["diag"] for c in cs):
            continue
        fnontriv += 1
        if cs[0]["out"] != "".join(c["out"] for c in cs[1:]):
            v.violation("output of A;B differs from output(A) ++ output(B) [%s, BITS %d]" % (kind, mode),
                        {"source": srcs[0], "out_whole": cs[0]["out"], "out_parts": [c["out"] for c in cs[1:]], "parts": srcs[1:],
                         "note": "each of the three programs was assembled by a separate process"})
    # statements that use the same EQU name: what one statement does with the name must not change what the next one gets
    equ_groups = []
    for g in range(30 if tier == "quick" else 400):
        mode = rng.choice([16, 32])
        r = ("AX", "CX", "BX") if mode == 16 else ("EAX", "ECX", "EBX")
        nm, val, k = "EQ%d" % g, rng.choice([512, 18, 7, 0x1000, 255]), rng.choice([2, 18, 3])
        hdr = [("equ", nm, A.num(val))]
        pool = [("mn", "MOV", [G.reg(r[1]), A.add([("+", ("mul", ("id", nm), [("*", ("num", k))]))])]), ("mn", "MOV", [G.reg(r[0]), A.ident(nm)]), ("mn", "DW", [A.ident(nm)]),
                ("mn", "ADD", [G.reg(r[2]), A.add([("+", ("mul", ("id", nm), [("/", ("num", 2))]))])]), ("mn", "DD", [A.add([("+", ("mul", ("id", nm), [("%", ("num", 5))])), ("+", ("mul", ("num", 1), []))])]),
                ("mn", "RESB", [A.add([("+", ("mul", ("id", nm), [("%", ("num", 7))]))])]), ("mn", "MOV", [G.reg(r[1]), G.mem_exp(r[2] if mode == 32 else "BX", None, None, None)]),
                ("mn", "DB", [A.sum_of([("+", ("id", nm)), ("-", ("id", nm)), ("+", ("num", 9))])])]
        sts = [rng.choice(pool) for _ in range(rng.randrange(2, 5))]
        equ_groups.append((mode, hdr, sts))
    ecases = []
    for gi, (mode, hdr, sts) in enumerate(equ_groups):
        ecases.append({"id": "ew%d" % gi, "srcs": [A.p_program(head(mode) + hdr + sts)]})
        for qi, st in enumerate(sts):
            ecases.append({"id": "ep%d_%d" % (gi, qi), "srcs": [A.p_program(head(mode) + hdr + [st])]})
    eres = lib.run_cases(ecases, "c14e")
    enontriv = 0
    for gi, (mode, hdr, sts) in enumerate(equ_groups):
        rs = [eres["ew%d" % gi]] + [eres["ep%d_%d" % (gi, qi)] for qi in range(len(sts))]
        if any(not r.get("calls") or r["calls"][0].get("panic") for r in rs):
            continue
        cs = [r["calls"][0] for r in rs]
        if any(c["diag"] for c in cs):
            continue
        enontriv += 1
        if cs[0]["out"] != "".join(c["out"] for c in cs[1:]):
            v.violation("output of A;B differs from output(A) ++ output(B) [statements sharing an EQU name, BITS %d]" % mode,
                        {"source": A.p_program(head(mode) + hdr + sts), "out_whole": cs[0]["out"], "out_parts": [c["out"] for c in cs[1:]],
                         "parts": [A.p_program(head(mode) + hdr + [st]) for st in sts]})
    # self-contained groups: each sets its own mode and ends with a branch back to its own label (relative, hence position
    # independent): a group must assemble to the same bytes whatever groups stand before and after it
    sc_groups = []
    for g in range(20 if tier == "quick" else 300):
        segs = []
        for si in range(rng.randrange(2, 4)):
            m = rng.choice([16, 32])
            lab = "sc%d_%d" % (g, si)
            body = [("config", "BITS", ("num", m))]
            pre = [GP.safe_instr(rng, m, []) for _ in range(rng.randrange(0, 2))]
            mid = [GP.safe_instr(rng, m, []) for _ in range(rng.randrange(0, 3))]
            body += pre + [("label", lab)] + mid + [("mn", rng.choice(["JMP", "JE", "JNZ", "CALL"]), [A.ident(lab)])]
            segs.append(body)
        sc_groups.append(segs)
    sccases = []
    for gi, segs in enumerate(sc_groups):
        sccases.append({"id": "sw%d" % gi, "srcs": [A.p_program([st for sg in segs for st in sg])]})
        for qi, sg in enumerate(segs):
            sccases.append({"id": "sp%d_%d" % (gi, qi), "srcs": [A.p_program(sg)]})
    scres = lib.run_cases(sccases, "c14s")
    scnontriv = 0
    for gi, segs in enumerate(sc_groups):
        rs = [scres["sw%d" % gi]] + [scres["sp%d_%d" % (gi, qi)] for qi in range(len(segs))]
        if any(not r.get("calls") or r["calls"][0].get("panic") for r in rs):
            continue
        cs = [r["calls"][0] for r in rs]
        if any(c["diag"] for c in cs):
            continue
        scnontriv += 1
        if cs[0]["out"] != "".join(c["out"] for c in cs[1:]):
            v.violation("output of A;B differs from output(A) ++ output(B) [self-contained groups with their own BITS and label]",
                        {"source": sccases[[c["id"] for c in sccases].index("sw%d" % gi)]["srcs"][0], "out_whole": cs[0]["out"], "out_parts": [c["out"] for c in cs[1:]],
                         "parts": [A.p_program(sg) for sg in segs]})
    cases = []
    for gi, (mode, seqs, kind) in enumerate(groups):
        whole = [s for q in seqs for s in q]
        cases.append({"id": "w%d" % gi, "srcs": [A.p_program(head(mode) + whole)]})
        for qi, q in enumerate(seqs):
            cases.append({"id": "p%d_%d" % (gi, qi), "srcs": [A.p_program(head(mode) + q)]})
    res = lib.run_cases(cases, "c14")

    def out(cid):
        r = res[cid]
        if not r.get("calls") or r["calls"][0].get("panic"):
            return None
        return r["calls"][0]
    nontriv = 0
    for gi, (mode, seqs, kind) in enumerate(groups):
        w = out("w%d" % gi)
        parts = [out("p%d_%d" % (gi, qi)) for qi in range(len(seqs))]
        if w is None or any(p is None for p in parts):
            continue
        if w["diag"] or any(p["diag"] for p in parts):
            continue        # a diagnosed sequence is outside the premise
        cat = "".join(p["out"] for p in parts)
        if cat:
            nontriv += 1
        if w["out"] != cat:
            whole = [s for q in seqs for s in q]
            v.violation("output of A;B differs from output(A) ++ output(B) [%s, BITS %d]" % (kind, mode),
                        {"source": A.p_program(head(mode) + whole), "out_whole": w["out"], "out_parts": [p["out"] for p in parts],
                         "parts": [A.p_program(head(mode) + q) for q in seqs]})
    # model correspondence on the whole programs
    items = ["(%s, %s)" % (A.g_program(head(mode) + [s for q in seqs for s in q]), lib.obs_of(res["w%d" % gi])) for gi, (mode, seqs, _) in enumerate(groups)]
    bad = lib.coq_eval("c14m", lib.header(), items, per_file=300)
    if bad and not v.violations:
        for k in bad[:3]:
            v.tie_broken("correspondence model vs gosk (label-free sequences)", {"source": cases[0]["srcs"][0], "index": k})
    v.cov.update({"evaluations": len(cases) + len(fcases), "distinct_nontrivial": nontriv,
                  "rule": "label-free position-independent sequences (safe instruction forms, DB/DW/DD, RESB; no $, ALIGNB, jumps) in both modes: random pairs/triples, every statement of longer programs alone vs in context, pairs of skeleton forms; non-trivial = groups whose concatenated output is non-empty and undiagnosed",
                  "samples": [cases[0]["srcs"][0], cases[1]["srcs"][0]], "groups": len(groups), "fresh_process_groups": len(fresh_groups), "equ_sharing_groups": enontriv, "self_contained_groups": scnontriv, "fresh_nontrivial": fnontriv, "correspondence_mismatches": len(bad)})
