"""C03 - label and $ values equal the real byte offsets."""
import json, os
import ast as A
import lib
import gen_instr as G
import gen_prog as GP
import x86class

NEEDS_VO = ["Model/X86Enc.v", "Model/Asm.v", "Check/C03.v", "Check/Prog.v"]
ORGS = [None, 0, 0x100, 0x7c00, 0xc200, 0x8000]


def followed_by_label(tier):
    """every statement kind immediately followed by a label whose value is embedded afterwards"""
    out = []
    sk = G.one_stmt_skeleton(tier == "thorough")
    if tier == "quick":
        sk = sk[::4]
    sk += G.mem_skeleton(tier == "thorough")[:: (3 if tier == "thorough" else 23)]
    for st, tags in sk:
        for mode in (16, 32):
            head = [("config", "BITS", ("num", 32))] if mode == 32 else []
            prog = head + [("mn", "ORG", [A.hexn(0x7c00)]), st, ("label", "after"), ("mn", "DW" if mode == 16 else "DD", [A.ident("after")])]
            out.append((prog, dict(tags, kind="stmt+label"), mode, st))
    # every no-operand mnemonic followed by a label: pass 1 counts one byte for each of them
    reg = json.load(open(os.path.join(lib.BUILD, "registry.json")))
    for name, h in sorted(reg["handler"].items()):
        if h == "processNoParam" and name in reg["opcodes"]:
            for mode in (16, 32):
                head = [("config", "BITS", ("num", 32))] if mode == 32 else []
                st = ("op", name)
                prog = head + [("mn", "ORG", [A.hexn(0x7c00)]), st, ("label", "after"), ("mn", "DW" if mode == 16 else "DD", [A.ident("after")])]
                out.append((prog, {"kind": "stmt+label", "form": "noparam"}, mode, st))
    # far jumps (ptr16:16/32), with and without a size keyword: outside the walker's decoder, judged by the tail-label rule
    for mode in (16, 32):
        head = [("config", "BITS", ("num", 32))] if mode == 32 else []
        for dt in ("", "DWORD", "WORD"):
            for sg, of in ((("add", ("mul", ("num", 2), [("*", ("num", 8))]), []), A.hexn(0x1b)), (A.num(16), A.num(27)), (A.num(0), A.hexn(0xc200))):
                st = ("mn", "JMP", [("seg", dt, sg, of)])
                prog = head + [("mn", "ORG", [A.hexn(0x7c00)]), st, ("label", "after"), ("mn", "DW" if mode == 16 else "DD", [A.ident("after")])]
                out.append((prog, {"kind": "stmt+label", "form": "far jmp"}, mode, st))
    # branches followed by a label: pass 1 sizes them with a fixed estimate (16-bit: JMP/Jcc 2, CALL 3, numeric target 3;
    # 32-bit: 5/6), codegen picks the form from the distance
    for mode in (16, 32):
        head = [("config", "BITS", ("num", 32))] if mode == 32 else []
        tab = ("mn", "DW" if mode == 16 else "DD", [A.ident("after"), A.ident("tgt")])
        for name in ("JMP", "JE", "JNLE", "CALL"):
            dists = [0, 1, 100, 124, 125, 126, 127, 128, 129, 130, 200, 40000] if tier == "thorough" or name in ("JMP", "JE") else [0, 126, 127, 200]
            for n in dists:
                back = head + [("mn", "ORG", [A.hexn(0x7c00)]), ("label", "tgt"), ("mn", "RESB", [A.num(n)]), ("mn", name, [A.ident("tgt")]), ("label", "after"), tab]
                out.append((back, {"kind": "branch+label", "form": "branch", "branch": (name, "bwd", n)}, mode, back[-3]))
                fwd = head + [("mn", "ORG", [A.hexn(0x7c00)]), ("mn", name, [A.ident("tgt")]), ("label", "after"), ("mn", "RESB", [A.num(n)]), ("label", "tgt"), tab]
                out.append((fwd, {"kind": "branch+label", "form": "branch", "branch": (name, "fwd", n)}, mode, fwd[len(head) + 1]))
            for t in (0x7c00, 0x7c40, 0x7d00, 0xc200, 0x17c00):
                num = head + [("mn", "ORG", [A.hexn(0x7c00)]), ("mn", name, [A.hexn(t)]), ("label", "after"), ("mn", "DW" if mode == 16 else "DD", [A.ident("after")])]
                out.append((num, {"kind": "branch+label", "form": "branch", "branch": (name, "num", t - 0x7c00)}, mode, num[len(head) + 1]))
    # strings, also with characters that take several bytes in the source text: the label after them counts bytes
    for sb in (b"hello", "\u65e5\u672c".encode(), "x\u00e9\u20ac".encode(), b""):
        prog = [("mn", "ORG", [A.hexn(0x7c00)]), ("mn", "DB", [A.string(sb), A.num(0)]), ("label", "after"), ("mn", "DW", [A.ident("after"), A.ident("$")])]
        out.append((prog, {"kind": "data+label", "form": "data"}, 16, prog[1]))
    for d in ("DB", "DW", "DD"):
        for n in (1, 2, 7):
            prog = [("mn", "ORG", [A.hexn(0xc200)]), ("mn", d, [A.num(k) for k in range(n)]), ("label", "after"), ("mn", "DW", [A.ident("after"), A.ident("$")])]
            out.append((prog, {"kind": "data+label", "form": "data"}, 16, prog[1]))
    for prog_mid, nm in ([("mn", "RESB", [A.num(18)])], "resb"), ([("mn", "RESB", [A.sum_of([("+", ("hex", 0x7dfe)), ("-", ("id", "$"))])])], "resb-dollar"), \
                        ([("mn", "DB", [A.num(1)]), ("mn", "ALIGNB", [A.num(16)])], "alignb"), ([("equ", "X", A.num(5))], "equ"):
        prog = [("mn", "ORG", [A.hexn(0x7c00)])] + prog_mid + [("label", "after"), ("mn", "DW", [A.ident("after"), A.ident("$")])]
        out.append((prog, {"kind": nm + "+label", "form": nm}, 16, prog_mid[-1]))
    return out


def branch_size_mismatch(br, mode):
    """does pass 1's fixed estimate differ from the length of the form codegen picks? (16-bit mode only)"""
    name, direction, n = br
    kind = "JMP" if name == "JMP" else "CALL" if name == "CALL" else "JCC"
    if mode == 32:
        return False
    est = 3 if (kind == "CALL" or direction == "num") else 2
    rel = {"bwd": -n, "fwd": est + n, "num": n}[direction]
    if kind == "CALL":
        emitted = 3 if -32768 <= rel - 3 <= 32767 else 6
    else:
        d8 = rel - 2
        short, near, far = (2, 3, 6) if kind == "JMP" else (2, 4, 7)
        emitted = short if -128 <= d8 <= 127 else near if -32768 <= d8 <= 32767 else far
    return emitted != est


def size_class(tags, mode, st, p):
    """finding classes for pass-1 size estimate != emitted length (label drift)"""
    if tags.get("branch"):
        return "C03-bits16-branch-size-estimate" if branch_size_mismatch(tags["branch"], mode) else None
    c = x86class.classify(tags, mode, st)
    if c:
        return c
    form = tags.get("form", "")
    if st[0] == "mn":
        if st[1] in ("INC", "DEC", "NEG", "ADC", "SBB", "MUL", "DIV", "IDIV"):
            return "C03-unimplemented-sized"
    return None


def run(v, tier, rng):
    fixed = followed_by_label(tier)
    nrand = 300 if tier == "quick" else 6000
    rnd = []
    for _ in range(nrand):
        mode = rng.choice([16, 16, 32])
        jumps = mode == 16 or rng.random() < 0.15
        p, meta = GP.gen_program(rng, mode=mode, org=rng.choice(ORGS), nstmts=rng.choice([5, 12, 25, 40 if tier == "quick" else 120]), jumps=jumps)
        rnd.append((p, {"kind": "random", "form": "random", "jumps32": mode == 32 and any(st[0] == "mn" and st[1][0] == "J" for st in p)}, mode, None))
    allp = fixed + rnd
    cases = [{"id": str(i), "srcs": [A.p_program(p)]} for i, (p, _, _, _) in enumerate(allp)]
    res = lib.run_cases(cases, "c03")
    items = ["(%s, %s)" % (A.g_program(p), lib.obs_of(res[str(i)])) for i, (p, _, _, _) in enumerate(allp)]
    bad = lib.coq_eval("c03m", lib.header(), items, per_file=200)
    idx = [i for i in range(len(allp)) if res[str(i)].get("calls") and not res[str(i)]["calls"][0].get("panic") and not res[str(i)]["calls"][0]["diag"]
           and not res[str(i)]["calls"][0].get("parse_err")]
    items2 = ["(%s, %s)" % (A.g_program(allp[i][0]), lib.gbytes(lib.hex2list(res[str(i)]["calls"][0]["out"]))) for i in idx]
    codes = lib.coq_eval_values("c03s", lib.header("Check.C03", "check_c03"), items2, per_file=200)
    why = {1: "image not decodable at the walked offset", 2: "outside the specified fragment", 3: "embedded label/$ value in data differs from the real offset",
           4: "wrong branch kind", 5: "branch lands on a different address than the label's real offset", 6: "embedded label value / operand differs",
           7: "no denotation", 8: "total output length differs from the walk"}
    byclass = {}
    died = [i for i in range(len(allp)) if not res[str(i)].get("calls") or res[str(i)]["calls"][0].get("panic")]
    for i in died:
        p, tags, mode, st = allp[i]
        if st and st[0] == "mn" and st[1] == "INT":
            v.finding("X86-int-operand-panic", {"source": cases[i]["srcs"][0]})
        else:
            v.violation("assembler died", {"source": cases[i]["srcs"][0]})
    # tail-label rule (needs no decoder): in the stmt+label programs the last statement is `DW/DD after` with `after:` right
    # before it, so the value embedded there must be ORG + (image length - width), whatever the statement before it is
    tail_checked = 0
    for i in idx:
        p, tags, mode, st = allp[i]
        if tags.get("kind") != "stmt+label" or p[-1][0] != "mn" or p[-1][1] not in ("DW", "DD") or p[-2] != ("label", "after"):
            continue
        img = lib.hex2list(res[str(i)]["calls"][0]["out"])
        w = 2 if p[-1][1] == "DW" else 4
        if len(img) < w:
            continue
        tail_checked += 1
        got = int.from_bytes(bytes(img[-w:]), "little")
        want = (0x7c00 + len(img) - w) % (1 << (8 * w))
        if got != want:
            cl = size_class(tags, mode, st, p) if tags.get("form") != "noparam" else None
            wt = {"source": cases[i]["srcs"][0], "label_value_embedded": got, "real_offset_of_label": want, "image": res[str(i)]["calls"][0]["out"][:200]}
            if cl:
                v.finding(cl, wt)
            else:
                v.violation("label after the statement has a value different from its real offset [%s]" % tags.get("form"), wt)
    for k, code in enumerate(codes):
        if code == 0:
            continue
        i = idx[k]
        p, tags, mode, st = allp[i]
        c = code % 100
        if c in (2, 7) or tags.get("form") == "noparam":       # which byte(s) they are is C01's business (table finding): here only the tail-label rule judges them
            byclass["outside"] = byclass.get("outside", 0) + 1
            continue
        if (tags.get("form") == "far jmp" and c == 1):       # ptr16:32 is not in the walker's decoder: judged by the tail-label rule
            byclass["outside"] = byclass.get("outside", 0) + 1
            continue
        w = {"source": cases[i]["srcs"][0], "statement_index": code // 100, "code": c, "why": why.get(c), "image": res[str(i)]["calls"][0]["out"][:400]}
        cl = size_class(tags, mode, st, p) if st is not None else None
        byclass[str(cl)] = byclass.get(str(cl), 0) + 1
        if cl:
            v.finding(cl, w)
        else:
            v.violation("%s [%s]" % (why.get(c), tags.get("form")), w)
    if bad and not v.violations:
        for k in bad[:3]:
            v.tie_broken("correspondence Model/Asm.v+X86Enc.v vs gosk (whole programs)", {"source": cases[k]["srcs"][0], "impl": res[str(k)]})
    v.cov.update({"tail_label_checked": tail_checked, "evaluations": len(allp), "distinct_nontrivial": len(set(cases[i]["srcs"][0] for i in idx)),
                  "rule": "every statement kind immediately followed by a label whose value is embedded after it (instruction skeleton x BITS, data, RESB incl. x-$, ALIGNB, EQU) + seeded random programs with labels at arbitrary positions referenced before and after definition, ORG in {none,0,0x100,0x7c00,0xc200,0x8000}; the image is walked statement by statement by the ISA decoder; non-trivial = distinct source assembled without diagnostic",
                  "samples": [cases[0]["srcs"][0], cases[-1]["srcs"][0]], "spec_checked": len(idx), "failures_by_class": byclass,
                  "correspondence_mismatches": len(bad), "random_programs": len(rnd)})
