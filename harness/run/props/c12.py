"""C12 - comments, spacing and line endings never change the output."""
import ast as A
import lib
import gen_prog as GP
import gen_coff as GC

NEEDS_VO = ["Check/Prog.v", "Model/Lex.v", "Check/C12.v"]
CCH = "abcxyz ABC 0123456789 ,;#:\"'[]()+-*/%$_.\t MOV EQU DB label: 0x10 !?<>=&|~^@`{}\\"


class RandLayout(A.Layout):
    def __init__(self, rng, first_is_label):
        self.rng = rng
        self.eol = rng.choice(["\n", "\r\n", "\r", "\n"])
        self.indent = rng.choice(["\t", " ", "    ", "\t\t", " \t "])
        self.sep = rng.choice([",", ", ", " ,", " , ", ",\t"])
        self.opsp = rng.choice(["", " ", "  ", "\t"])
        self.brk = rng.choice(["", " ", "  "])
        self.final_newline = rng.random() < 0.6
        self.first_is_label = first_is_label
        self.colon_comments = True

    def comment(self):
        rng = self.rng
        return rng.choice([";", "#"]) + "".join(rng.choice(CCH) for _ in range(rng.choice([0, 1, 5, 20, 60])))

    def after_stmt(self, k):
        rng = self.rng
        r = rng.random()
        if r < 0.35:
            return rng.choice(["", " ", "\t", "   "]) + self.comment()
        if r < 0.5:
            return rng.choice([" ", "\t", "  \t "])
        return ""

    def before_stmt(self, k):
        rng = self.rng
        if k == 0 and self.first_is_label and not getattr(self, "allow_before_first_label", False):
            return ""
        out = ""
        while rng.random() < 0.3:
            out += rng.choice(["", " ", "\t"]) + rng.choice(["", self.comment()]) + self.eol
        return out


def run(v, tier, rng):
    n = 150 if tier == "quick" else 3000
    progs = []
    for g in range(n):
        r = rng.random()
        if r < 0.2:
            progs.append(GC.gen_coff_program(rng)["prog"])
        else:
            mode = rng.choice([16, 32])
            p, _ = GP.gen_program(rng, mode=mode, org=rng.choice([None, 0x7c00]), nstmts=rng.choice([4, 10, 25]), jumps=(mode == 16))
            # strings keep ; # , as data
            p.insert(len(p) - 1, ("mn", "DB", [A.string(b"a;b#c,d e"), A.num(0), A.string(b"; not a comment"), A.string(b"#,;")]))
            progs.append(p)
    K = 4 if tier == "quick" else 8
    cases = []
    for i, p in enumerate(progs):
        cases.append({"id": "c%d" % i, "srcs": [A.p_program(p)]})
        for k in range(K):
            lay = RandLayout(rng, p[0][0] == "label")
            if k == K - 1 and p[0][0] == "label":
                lay.allow_before_first_label = True        # the known-finding layout, classified below
            text = A.p_program(p, lay)
            cases.append({"id": "l%d_%d" % (i, k), "srcs": [text], "first_label_preceded": bool(getattr(lay, "allow_before_first_label", False)) and text[:len(p[0][1])] != p[0][1]})
    res = lib.run_cases([{"id": c["id"], "srcs": c["srcs"]} for c in cases], "c12")
    byid = {c["id"]: c for c in cases}
    nontriv = 0
    for i, p in enumerate(progs):
        r0 = res["c%d" % i]
        if not r0.get("calls") or r0["calls"][0].get("parse_err") or r0["calls"][0].get("panic"):
            continue
        base = r0["calls"][0]
        for k in range(K):
            cid = "l%d_%d" % (i, k)
            r = res[cid]
            nontriv += 1
            c = r["calls"][0] if r.get("calls") else None
            same = c is not None and not c.get("parse_err") and c["out"] == base["out"] and c["diag"] == base["diag"]
            if not same:
                w = {"source_a": byid["c%d" % i]["srcs"][0], "source_b": byid[cid]["srcs"][0], "out_a": base["out"][:400], "out_b": (c or {}).get("out", "died")[:400],
                     "parse_err_b": (c or {}).get("parse_err")}
                if byid[cid].get("first_label_preceded") and ((c or {}).get("parse_err") or (c or {}).get("out") == ""):
                    v.finding("C12-layout-before-first-label", w)
                else:
                    v.violation("re-laid-out source (comments / spacing / line endings only) assembles differently", w)
                break
    # ---- tie of Model/Lex.v (the `_` rule) to the real parser: a byte string w in front of "NOP\n"
    # parses to exactly one NOP statement  <->  the model's skip_layout consumes w entirely
    alpha = [32, 32, 9, 10, 13, 59, 35, 97, 58, 34, 44, 120, 39]
    lex = []
    for _ in range(400 if tier == "quick" else 4000):
        w = bytes(rng.choice(alpha) for _ in range(rng.choice([0, 1, 2, 4, 8, 16])))
        lex.append(w)
    lres = lib.run_ast([{"id": str(i), "srcs_hex": [(w + b"NOP\n").hex()]} for i, w in enumerate(lex)], "c12lex")
    items = []
    for i, w in enumerate(lex):
        r = lres[str(i)]
        is_nop = (not r.get("err")) and r.get("sexp") == ['(op "NOP")']
        items.append("(%s, %s)" % (lib.gbytes(list(w + b"NOP\n")), "true" if is_nop else "false"))
    lbad = lib.coq_eval("c12lex", lib.header("Check.C12", "check_lex"), items, per_file=400)
    if lbad and not v.violations:
        v.tie_broken("correspondence Model/Lex.v (layout rule) vs the pigeon parser", {"prefix_hex": lex[lbad[0]].hex(), "parser": lres[str(lbad[0])]})
    v.extra["lex_correspondence_cases"] = len(lex)
    v.extra["lex_correspondence_mismatches"] = len(lbad)
    v.cov.update({"evaluations": len(cases), "distinct_nontrivial": nontriv,
                  "rule": "random flat and WCOFF programs (strings containing ; # ,) x %d token-wise re-layouts each: comment after any statement and on own lines with arbitrary non-EOL characters (incl. : , \" ' keywords), blank lines, indentation by tabs/spaces, spaces around commas/operators/brackets, trailing whitespace, LF/CRLF/CR, with/without final newline; output and diagnostic flag must equal the canonical layout's; non-trivial = re-layouts compared" % K,
                  "samples": [cases[1]["srcs"][0][:400]], "programs": len(progs)})
