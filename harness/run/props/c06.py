"""C06 - constant expressions are evaluated arithmetically."""
import itertools
import ast as A
import lib
from gen_common import *

NEEDS_VO = ["Model/Asm.v", "Check/C05.v", "Check/C06.v", "Check/Prog.v"]
LITS = [0, 1, -1, 7, 255, 0x7fffffff, 2, 3, -8]


def enum_trees(depth, lits):
    """all products/sums of shape  a op b  and  a op b op c, nested through parentheses up to `depth`"""
    prims0 = [("num", v) for v in lits] + [("hex", 0x10)]
    level = list(prims0)
    out = []
    for d in range(depth):
        new = []
        for a, b in itertools.product(level[:8], prims0[:6]):
            for op in "*/%":
                new.append(("add", ("mul", a, [(op, b)]), []))
            for op in "+-":
                new.append(("add", ("mul", a, []), [(op, ("mul", b, []))]))
        # precedence / associativity triples
        for a, b, c in itertools.product(prims0[:5], repeat=3):
            for o1, o2 in itertools.product("+-", "*/%"):
                new.append(("add", ("mul", a, []), [(o1, ("mul", b, [(o2, c)]))]))
                new.append(("add", ("mul", a, [(o2, b)]), [(o1, ("mul", c, []))]))
            for o1, o2 in itertools.product("-/", "-/"):
                if o1 in "+-" and o2 in "+-":
                    new.append(("add", ("mul", a, []), [(o1, ("mul", b, [])), (o2, ("mul", c, []))]))
                if o1 in "*/%" and o2 in "*/%":
                    new.append(("add", ("mul", a, [(o1, b), (o2, c)]), []))
        # a parenthesised group as the RIGHT operand: a o1 (b o2 c) for every pair of operators
        if d == 0:
            for a, b, c in itertools.product(prims0[:5], repeat=3):
                for o1, o2 in itertools.product("*/%+-", repeat=2):
                    inner = ("add", ("mul", b, [(o2, c)]), []) if o2 in "*/%" else ("add", ("mul", b, []), [(o2, ("mul", c, []))])
                    if o1 in "*/%":
                        new.append(("add", ("mul", a, [(o1, inner)]), []))
                    else:
                        new.append(("add", ("mul", a, []), [(o1, ("mul", inner, []))]))
        out += new
        level = new[:: max(1, len(new) // 12)]
    return out


POSITIONS = ["dd", "dw", "db", "resb", "equ", "org", "equ-reuse"]


def place(e, pos, k):
    if pos == "dd":
        return [("mn", "DD", [e])]
    if pos == "dw":
        return [("mn", "DW", [A.num(1), e])]
    if pos == "db":
        return [("mn", "DB", [e, A.num(2)])]
    if pos == "resb":
        # keep the count small and non-negative: (e) % 61 can be negative -> add and reduce again
        cnt = ("add", ("mul", ("add", ("mul", ("add", ("mul", e, [("%", ("num", 61))]), []), []), [("+", ("mul", ("num", 61), []))]), [("%", ("num", 61))]), [])
        return [("mn", "RESB", [cnt]), ("mn", "DB", [A.num(0xCC)])]
    if pos == "equ":
        return [("equ", "V%d" % k, e), ("equ", "W%d" % k, A.sum_of([("+", ("id", "V%d" % k)), ("+", ("num", 1))])), ("mn", "DD", [A.ident("W%d" % k), A.ident("V%d" % k)])]
    if pos == "equ-reuse":
        # an EQU name used inside products/quotients and then used again: the definition must not be disturbed
        V = "V%d" % k
        use1 = ("add", ("mul", ("id", V), [("*", ("num", 3))]), [])
        use2 = ("add", ("mul", ("id", V), [("/", ("num", 2))]), [("+", ("mul", ("num", 1), []))])
        use3 = ("add", ("mul", ("num", 5), [("*", ("id", V))]), [])
        return [("equ", V, e), ("mn", "DD", [use1]), ("mn", "DD", [A.ident(V)]), ("mn", "DD", [use2, A.ident(V)]),
                ("equ", "W%d" % k, ("add", ("mul", ("id", V), [("*", ("num", 2))]), [])), ("mn", "DD", [A.ident(V), A.ident("W%d" % k), use3, A.ident(V)])]
    if pos == "org":
        cnt = ("add", ("mul", ("add", ("mul", ("add", ("mul", e, [("%", ("num", 4096))]), []), []), [("+", ("mul", ("num", 4096), []))]), []), [])
        return [("mn", "ORG", [cnt]), ("label", "here"), ("mn", "DW", [A.ident("here"), A.ident("$")])]
    raise ValueError(pos)


def expected_disp_bytes(nm, sval):
    """Encoding of the fixed carrier statements of the displacement positions, for a displacement inside the address size
    (Intel SDM vol. 2 tables 2-1/2-2: mod 00 no displacement, 01 disp8, 10 disp16/32)."""
    def modrm(mod, reg, rm):
        return bytes([(mod << 6) | (reg << 3) | rm])
    if nm in ("disp reg+e", "disp e+reg"):
        opc, reg, rm, sib, w = b"\x8b", 1, 3, b"", 4
    elif nm == "disp reg+e+reg":
        opc, reg, rm, sib, w = b"\x88", 2, 4, b"\x33", 4
    elif nm == "disp16 reg+reg+e":
        opc, reg, rm, sib, w = b"\x8b", 0, 0, b"", 2
    else:
        return None
    if not (-(1 << (8 * w - 1)) <= sval < (1 << (8 * w - 1))):
        return None
    if sval == 0:
        return (opc + modrm(0, reg, rm) + sib).hex()
    if -128 <= sval <= 127:
        return (opc + modrm(1, reg, rm) + sib + (sval % 256).to_bytes(1, "little")).hex()
    return (opc + modrm(2, reg, rm) + sib + (sval % (1 << (8 * w))).to_bytes(w, "little")).hex()


def run(v, tier, rng):
    trees = enum_trees(2 if tier == "quick" else 3, LITS)
    rng.shuffle(trees)
    if tier == "quick":
        trees = trees[:500]
    else:
        trees = trees[:20000]
    nrand = 400 if tier == "quick" else 6000
    for _ in range(nrand):
        trees.append(const_exp(rng, rng.choice([1, 2, 3, 4])))
    # always present, in DD position (judged by the arithmetic spec): products whose right operand is a parenthesised
    # quotient / remainder / sum - grouping must not be flattened away
    must = []
    for a, b, c in [(7, 5, 2), (3, 7, 4), (7, 255, 7), (-7, 1, 2), (255, 7, 2), (2, 3, 4), (9, 10, 4), (-1, 255, 16)]:
        for o1 in "*/%":
            for o2 in "*/%+-":
                inner = ("add", ("mul", ("num", b), [(o2, ("num", c))]), []) if o2 in "*/%" else ("add", ("mul", ("num", b), []), [(o2, ("mul", ("num", c), []))])
                must.append(("add", ("mul", ("num", a), [(o1, inner)]), []))
    # literals written with leading zeros (and upper-case hexadecimal): still decimal / hexadecimal numbers
    for z, dg in [(10, 3), (100, 4), (-17, 3), (8, 2), (19, 3), (64, 4), (0, 3), (7, 2), (777, 5)]:
        lz = ("numz", z, dg)
        must.append(("add", ("mul", lz, []), []))
        must.append(("add", ("mul", lz, []), [("+", ("mul", ("num", 1), []))]))
        must.append(("add", ("mul", lz, [("*", ("num", 2))]), []))
        must.append(("add", ("mul", ("num", 5), [("%", lz)]), [("-", ("mul", lz, []))]))
    for z, dg, up in [(16, 4, False), (255, 4, True), (0xabc, 3, True), (0x1f, 8, False)]:
        must.append(("add", ("mul", ("hexz", z, dg, up), []), [("+", ("mul", ("num", 1), []))]))
    trees = must + trees
    progs = []
    for k, e in enumerate(trees):
        pos = "dd" if k < len(must) else POSITIONS[k % len(POSITIONS)]
        progs.append((place(e, pos, k), pos, e))
    cases = [{"id": str(i), "srcs": [A.p_program(p)]} for i, (p, _, _) in enumerate(progs)]
    res = lib.run_cases(cases, "c06")
    items = ["(%s, %s)" % (A.g_program(p), lib.obs_of(res[str(i)])) for i, (p, _, _) in enumerate(progs)]
    bad = lib.coq_eval("c06m", lib.header(), items)
    ok_idx = [i for i in range(len(progs)) if "died" not in res[str(i)] and not res[str(i)]["calls"][0].get("panic")
              and not res[str(i)]["calls"][0]["diag"] and not res[str(i)]["calls"][0].get("parse_err") and not res[str(i)]["calls"][0]["out"].startswith("!")]
    items2 = ["(%s, %s)" % (A.g_program(progs[i][0]), lib.gbytes(lib.hex2list(res[str(i)]["calls"][0]["out"]))) for i in ok_idx]
    codes = lib.coq_eval_values("c06s", lib.header("Check.C05", "check_c05_code"), items2)
    fails = [ok_idx[k] for k, c in enumerate(codes) if c == 1]
    outside = sum(1 for c in codes if c == 2)
    # spacing must not matter: same trees printed without spaces around operators must give the same bytes
    class Tight(A.Layout):
        opsp = ""
    sub = list(range(0, len(progs), 3))
    cases_t = [{"id": str(i), "srcs": [A.p_program(progs[i][0], Tight())]} for i in sub]
    res_t = lib.run_cases(cases_t, "c06t")
    for i in sub:
        a = res[str(i)]
        b = res_t[str(i)]
        oa = a["calls"][0]["out"] if a.get("calls") else "died"
        ob = b["calls"][0]["out"] if b.get("calls") else "died"
        if oa != ob:
            v.violation("value depends on spacing", {"source_a": cases[i]["srcs"][0], "source_b": cases_t[sub.index(i)]["srcs"][0], "out_a": oa, "out_b": ob})
    # immediates and displacements: the value the arithmetic specification gives to e (Spec/Arith.aeval, evaluated in Coq)
    # must be the one that is sized and encoded as immediate / displacement, wherever the constant terms stand among the
    # registers: the statement must assemble exactly like the same statement written with that value as a literal
    fails_set = set(fails)
    dd_idx = [i for i in ok_idx if progs[i][1] == "dd" and i not in fails_set]
    if tier == "quick":
        dd_idx = dd_idx[:120]
    svals = lib.coq_eval_values("c06v", lib.header("Check.C06", "spec_value_z"), ["(%s)" % A.g_operand(progs[i][2]) for i in dd_idx], per_file=300) if dd_idx else []
    op_cases, op_meta, absolute = [], [], {}
    B32 = ("config", "BITS", ("num", 32))
    for i, sval in zip(dd_idx, svals):
        e = progs[i][2]
        if not (-(1 << 63) < sval < (1 << 63)):
            continue                      # undefined (division by zero) or not writable as a literal
        val = sval % (1 << 32)
        pe = ("add", ("mul", e, []), []) if e[0] != "add" else e           # e as a parenthesised primary
        par = ("add", ("mul", pe, []), [])
        lit = A.num(sval) if sval >= 0 else ("add", ("mul", ("num", 0), []), [("-", ("mul", ("num", -sval), []))])
        def mem(parts):
            return A.mem("", A.sum_of(parts))
        dpart = ("+", ("num", sval)) if sval >= 0 else ("-", ("num", -sval))
        variants = [
            ("imm", [B32, ("mn", "MOV", [A.ident("ECX"), par])], [B32, ("mn", "MOV", [A.ident("ECX"), A.num(sval) if sval >= 0 else lit])]),
            ("disp reg+e", [B32, ("mn", "MOV", [A.ident("ECX"), mem([("+", ("id", "EBX")), ("+", pe)])])], [B32, ("mn", "MOV", [A.ident("ECX"), mem([("+", ("id", "EBX")), dpart])])]),
            ("disp e+reg", [B32, ("mn", "MOV", [A.ident("ECX"), mem([("+", pe), ("+", ("id", "EBX"))])])], [B32, ("mn", "MOV", [A.ident("ECX"), mem([("+", ("id", "EBX")), dpart])])]),
            ("disp reg+e+reg", [B32, ("mn", "MOV", [mem([("+", ("id", "EBX")), ("+", pe), ("+", ("id", "ESI"))]), A.ident("DL")])],
             [B32, ("mn", "MOV", [mem([("+", ("id", "EBX")), ("+", ("id", "ESI")), dpart]), A.ident("DL")])]),
            ("disp 1+reg+e", [B32, ("mn", "ADD", [A.ident("EAX"), mem([("+", ("num", 1)), ("+", ("id", "EDI")), ("+", pe), ("-", ("num", 1))])])],
             [B32, ("mn", "ADD", [A.ident("EAX"), mem([("+", ("id", "EDI")), dpart])])]),
        ]
        B16 = ("config", "BITS", ("num", 16))
        variants.append(("disp16 reg+reg+e", [B16, ("mn", "MOV", [A.ident("AX"), mem([("+", ("id", "BX")), ("+", ("id", "SI")), ("+", pe)])])],
                         [B16, ("mn", "MOV", [A.ident("AX"), mem([("+", ("id", "BX")), ("+", ("id", "SI")), dpart])])]))
        for nm, pv, pr in variants:
            absolute[len(op_cases)] = expected_disp_bytes(nm, sval)
            op_meta.append((i, nm))
            op_cases.append({"id": str(len(op_cases)), "srcs": [A.p_program(pv), A.p_program(pr)], "reuse": False})
    op_checked = 0
    if op_cases:
        res_o = lib.run_cases(op_cases, "c06o")
        for k, (i, nm) in enumerate(op_meta):
            r = res_o[str(k)]
            if not r.get("calls") or len(r["calls"]) < 2 or r["calls"][0].get("panic") or r["calls"][1].get("panic"):
                v.violation("assembler died on an expression operand", {"source": op_cases[k]["srcs"][0]})
                continue
            a, b = r["calls"][0], r["calls"][1]
            if b["diag"] or b.get("parse_err"):
                continue                      # the literal form itself is outside what gosk accepts: nothing to compare with
            op_checked += 1
            want_abs = absolute.get(k)
            if want_abs is not None:
                # the written form of the value is not trusted either: the displacement that comes out is compared with the spec value
                for which, c in (("expression", a), ("literal", b)):
                    if not (c["diag"] or c.get("parse_err")) and c["out"] != want_abs:
                        v.violation("displacement encoded in %s position is not the value of the expression (%s form)" % (nm, which),
                                    {"source": op_cases[k]["srcs"][0 if which == "expression" else 1], "got": c["out"], "want": want_abs,
                                     "value_from": "Spec/Arith.aeval of the expression = %d" % svals[dd_idx.index(i)]})
            if a["diag"] or a.get("parse_err") or a["out"] != b["out"]:
                v.violation("constant expression in %s position is not replaced by its value (differs from the same statement written with the literal)" % nm,
                            {"source": op_cases[k]["srcs"][0], "literal_form": op_cases[k]["srcs"][1], "got": a["out"], "diagnosed": bool(a["diag"] or a.get("parse_err")),
                             "want": b["out"], "value_from": "Spec/Arith.aeval of the expression = %d" % sval})
    for i in fails:
        v.violation("expression value differs from arithmetic specification (Spec/Arith.v)",
                    {"source": cases[i]["srcs"][0], "got": res[str(i)]["calls"][0]["out"], "position": progs[i][1]})
    if bad and not v.violations:
        for k in bad[:3]:
            v.tie_broken("correspondence Model/Eval.v+Asm.v vs gosk (C06 expression programs)",
                         {"source": cases[k]["srcs"][0], "impl": res[str(k)]})
    hist = {}
    for _, pos, _ in progs:
        hist[pos] = hist.get(pos, 0) + 1
    nontriv = len(set(cases[i]["srcs"][0] for i in ok_idx))
    v.cov.update({"evaluations": len(progs) + len(sub), "distinct_nontrivial": nontriv,
                  "rule": "enumerated operator/precedence/associativity trees over boundary literals (depth %d) + seeded random trees to depth 4, each placed in one of DD/DW/DB/RESB/EQU-chain/ORG; non-trivial = distinct source assembled without diagnostic" % (2 if tier == "quick" else 3),
                  "samples": [cases[0]["srcs"][0], cases[len(cases) // 2]["srcs"][0], cases[-1]["srcs"][0]],
                  "positions": hist, "correspondence_mismatches": len(bad), "spec_checked": len(ok_idx) - outside,
                  "spec_outside_fragment(div by zero etc.)": outside, "spec_failures": len(fails), "spacing_pairs": len(sub),
                  "operand_position_pairs(imm/disp vs literal form)": op_checked})
