"""C06 - constant expressions are evaluated arithmetically."""
import itertools
import ast as A
import lib
from gen_common import *

NEEDS_VO = ["Model/Asm.v", "Check/C05.v", "Check/C06.v", "Check/Prog.v"]
LITS = [0, 1, -1, 7, 255, 0x7fffffff, 2, 3, -8]


def enum_trees(depth, lits):
    """all products/sums of shape  a op b  and  a op b op c, nested through parentheses up to `depth`"""
    prims0 = [("num", v) for v in lits] + [("hex", 0x10)]
    level = list(prims0)
    out = []
    for d in range(depth):
        new = []
        for a, b in itertools.product(level[:8], prims0[:6]):
            for op in "*/%":
                new.append(("add", ("mul", a, [(op, b)]), []))
            for op in "+-":
                new.append(("add", ("mul", a, []), [(op, ("mul", b, []))]))
        # precedence / associativity triples
        for a, b, c in itertools.product(prims0[:5], repeat=3):
            for o1, o2 in itertools.product("+-", "*/%"):
                new.append(("add", ("mul", a, []), [(o1, ("mul", b, [(o2, c)]))]))
                new.append(("add", ("mul", a, [(o2, b)]), [(o1, ("mul", c, []))]))
            for o1, o2 in itertools.product("-/", "-/"):
                if o1 in "+-" and o2 in "+-":
                    new.append(("add", ("mul", a, []), [(o1, ("mul", b, [])), (o2, ("mul", c, []))]))
                if o1 in "*/%" and o2 in "*/%":
                    new.append(("add", ("mul", a, [(o1, b), (o2, c)]), []))
        out += new
        level = new[:: max(1, len(new) // 12)]
    return out


POSITIONS = ["dd", "dw", "db", "resb", "equ", "org", "equ-reuse"]


def place(e, pos, k):
    if pos == "dd":
        return [("mn", "DD", [e])]
    if pos == "dw":
        return [("mn", "DW", [A.num(1), e])]
    if pos == "db":
        return [("mn", "DB", [e, A.num(2)])]
    if pos == "resb":
        # keep the count small and non-negative: (e) % 61 can be negative -> add and reduce again
        cnt = ("add", ("mul", ("add", ("mul", ("add", ("mul", e, [("%", ("num", 61))]), []), []), [("+", ("mul", ("num", 61), []))]), [("%", ("num", 61))]), [])
        return [("mn", "RESB", [cnt]), ("mn", "DB", [A.num(0xCC)])]
    if pos == "equ":
        return [("equ", "V%d" % k, e), ("equ", "W%d" % k, A.sum_of([("+", ("id", "V%d" % k)), ("+", ("num", 1))])), ("mn", "DD", [A.ident("W%d" % k), A.ident("V%d" % k)])]
    if pos == "equ-reuse":
        # an EQU name used inside products/quotients and then used again: the definition must not be disturbed
        V = "V%d" % k
        use1 = ("add", ("mul", ("id", V), [("*", ("num", 3))]), [])
        use2 = ("add", ("mul", ("id", V), [("/", ("num", 2))]), [("+", ("mul", ("num", 1), []))])
        use3 = ("add", ("mul", ("num", 5), [("*", ("id", V))]), [])
        return [("equ", V, e), ("mn", "DD", [use1]), ("mn", "DD", [A.ident(V)]), ("mn", "DD", [use2, A.ident(V)]),
                ("equ", "W%d" % k, ("add", ("mul", ("id", V), [("*", ("num", 2))]), [])), ("mn", "DD", [A.ident(V), A.ident("W%d" % k), use3, A.ident(V)])]
    if pos == "org":
        cnt = ("add", ("mul", ("add", ("mul", ("add", ("mul", e, [("%", ("num", 4096))]), []), []), [("+", ("mul", ("num", 4096), []))]), []), [])
        return [("mn", "ORG", [cnt]), ("label", "here"), ("mn", "DW", [A.ident("here"), A.ident("$")])]
    raise ValueError(pos)


def run(v, tier, rng):
    trees = enum_trees(2 if tier == "quick" else 3, LITS)
    rng.shuffle(trees)
    if tier == "quick":
        trees = trees[:500]
    else:
        trees = trees[:20000]
    nrand = 400 if tier == "quick" else 6000
    for _ in range(nrand):
        trees.append(const_exp(rng, rng.choice([1, 2, 3, 4])))
    progs = []
    for k, e in enumerate(trees):
        pos = POSITIONS[k % len(POSITIONS)]
        progs.append((place(e, pos, k), pos, e))
    cases = [{"id": str(i), "srcs": [A.p_program(p)]} for i, (p, _, _) in enumerate(progs)]
    res = lib.run_cases(cases, "c06")
    items = ["(%s, %s)" % (A.g_program(p), lib.obs_of(res[str(i)])) for i, (p, _, _) in enumerate(progs)]
    bad = lib.coq_eval("c06m", lib.header(), items)
    ok_idx = [i for i in range(len(progs)) if "died" not in res[str(i)] and not res[str(i)]["calls"][0].get("panic")
              and not res[str(i)]["calls"][0]["diag"]]
    items2 = ["(%s, %s)" % (A.g_program(progs[i][0]), lib.gbytes(lib.hex2list(res[str(i)]["calls"][0]["out"]))) for i in ok_idx]
    codes = lib.coq_eval_values("c06s", lib.header("Check.C05", "check_c05_code"), items2)
    fails = [ok_idx[k] for k, c in enumerate(codes) if c == 1]
    outside = sum(1 for c in codes if c == 2)
    # spacing must not matter: same trees printed without spaces around operators must give the same bytes
    class Tight(A.Layout):
        opsp = ""
    sub = list(range(0, len(progs), 3))
    cases_t = [{"id": str(i), "srcs": [A.p_program(progs[i][0], Tight())]} for i in sub]
    res_t = lib.run_cases(cases_t, "c06t")
    for i in sub:
        a = res[str(i)]
        b = res_t[str(i)]
        oa = a["calls"][0]["out"] if a.get("calls") else "died"
        ob = b["calls"][0]["out"] if b.get("calls") else "died"
        if oa != ob:
            v.violation("value depends on spacing", {"source_a": cases[i]["srcs"][0], "source_b": cases_t[sub.index(i)]["srcs"][0], "out_a": oa, "out_b": ob})
    for i in fails:
        v.violation("expression value differs from arithmetic specification (Spec/Arith.v)",
                    {"source": cases[i]["srcs"][0], "got": res[str(i)]["calls"][0]["out"], "position": progs[i][1]})
    if bad and not v.violations:
        for k in bad[:3]:
            v.tie_broken("correspondence Model/Eval.v+Asm.v vs gosk (C06 expression programs)",
                         {"source": cases[k]["srcs"][0], "impl": res[str(k)]})
    hist = {}
    for _, pos, _ in progs:
        hist[pos] = hist.get(pos, 0) + 1
    nontriv = len(set(cases[i]["srcs"][0] for i in ok_idx))
    v.cov.update({"evaluations": len(progs) + len(sub), "distinct_nontrivial": nontriv,
                  "rule": "enumerated operator/precedence/associativity trees over boundary literals (depth %d) + seeded random trees to depth 4, each placed in one of DD/DW/DB/RESB/EQU-chain/ORG; non-trivial = distinct source assembled without diagnostic" % (2 if tier == "quick" else 3),
                  "samples": [cases[0]["srcs"][0], cases[len(cases) // 2]["srcs"][0], cases[-1]["srcs"][0]],
                  "positions": hist, "correspondence_mismatches": len(bad), "spec_checked": len(ok_idx) - outside,
                  "spec_outside_fragment(div by zero etc.)": outside, "spec_failures": len(fails), "spacing_pairs": len(sub)})
