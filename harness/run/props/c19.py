"""C19 - command-line contract: exit status, output file, source encoding."""
import os, shutil, subprocess, itertools
import ast as A
import lib
import gen_prog as GP

NEEDS_VO = ["Model/Cli.v", "Spec/Sjis.v", "Check/Prog.v"]
GARBAGE = bytes(range(256)) * 40


def cli(args, cwd):
    p = subprocess.run([lib.CLI] + args, cwd=cwd, stdout=subprocess.PIPE, stderr=subprocess.PIPE, timeout=60)
    return p.returncode, p.stdout.decode("utf-8", "replace"), p.stderr.decode("utf-8", "replace")


def sjis_comment(rng):
    """comment text: valid Shift_JIS double-byte characters (incl. trail 0x5c / 0x7c), half-width katakana, ASCII"""
    out = bytearray()
    for _ in range(rng.randrange(1, 12)):
        r = rng.random()
        if r < 0.35:
            lead = rng.choice(list(range(0x81, 0xa0)) + list(range(0xe0, 0xeb)))
            trail = rng.choice([0x5c, 0x7c, 0x40, 0x7e, 0x80, 0x9f, 0xfc] + list(range(0x40, 0x7f)))
            out += bytes([lead, trail])
        elif r < 0.55:
            out.append(rng.randrange(0xa1, 0xe0))
        else:
            out.append(rng.choice(b"abc xyz,;#\"'[]:0123456789"))
    return bytes(out)


def utf8_comment(rng):
    return "".join(rng.choice("日本語コメントあいうえお表ソ能ｶﾀｶﾅ—é abc;#,") for _ in range(rng.randrange(1, 15))).encode("utf-8")


def add_comments(text, rng, maker, ascii_head=0):
    """append a comment to some lines and insert own-line comments (never before the first line: see C12 finding).
    ascii_head > 0: the first ascii_head bytes of the file are pure ASCII (a long ASCII comment block after the first
    line), the non-ASCII comments only come after it - a decoder that sniffs a prefix must still treat the rest right."""
    lines = text.encode().split(b"\n")
    out = []
    for k, ln in enumerate(lines):
        if ascii_head and k == 0:
            out.append(ln)
            n = len(ln) + 1
            while n < ascii_head:
                c = b"; " + bytes(rng.choice(b"abcdefghijklmnopqrstuvwxyz 0123456789-=*") for _ in range(min(70, max(1, ascii_head - n - 3))))
                out.append(c)
                n += len(c) + 1
            continue
        if ln and rng.random() < (0.9 if ascii_head else 0.6):
            ln = ln + b"\t" + rng.choice([b";", b"#"]) + b" " + maker(rng)
        out.append(ln)
        if k > 0 and k < len(lines) - 1 and rng.random() < 0.3:
            out.append(rng.choice([b";", b"#"]) + maker(rng))
    return b"\n".join(out)


def run(v, tier, rng):
    work = os.path.join(lib.BUILD, "c19-%d" % os.getpid())
    shutil.rmtree(work, ignore_errors=True)
    os.makedirs(work)
    try:
        _run(v, tier, rng, work)
    finally:
        shutil.rmtree(work, ignore_errors=True)


def _run(v, tier, rng, work):
    evals = 0
    good_src = os.path.join(work, "ok.nas")
    open(good_src, "w").write("\tORG\t0x7c00\n\tMOV\tAX,1\nl:\n\tJMP\tl\n\tDB\t1,2,3\n")
    bad_src = os.path.join(work, "bad.nas")
    open(bad_src, "w").write("\tMOV\tAX,1\n\tMOV AX,\n\tDB 1\n")
    # parse errors raised by a semantic action (the parser returns a tree AND an error): a literal beyond int64
    bad2_src = os.path.join(work, "bad2.nas")
    open(bad2_src, "w").write("\tMOV\tAX,1\n\tDD\t9223372036854775808\n\tHLT\n")
    bad3_src = os.path.join(work, "bad3.nas")
    open(bad3_src, "w").write("\tMOV\tAX,1\n\tMOV\tAL,[ES:99999999999999999999]\n\tHLT\n")
    coff_src = os.path.join(work, "okcoff.nas")      # the object writer has its own way of creating the output file
    open(coff_src, "w").write('[FORMAT "WCOFF"]\n[BITS 32]\n[FILE "okcoff.nas"]\n\tGLOBAL\t_f\n[SECTION .text]\n_f:\n\tMOV\tEAX,1\n\tRET\n')
    os.makedirs(os.path.join(work, "adir"))
    expect_coff = bytes.fromhex(lib.run_cases([{"id": "x", "srcs": [open(coff_src).read()]}], "c19", jobs=1)["x"]["calls"][0]["out"])
    expect_ok = bytes.fromhex(lib.run_cases([{"id": "x", "srcs": [open(good_src).read()]}], "c19", jobs=1)["x"]["calls"][0]["out"])
    # ---- argument vectors of length 0..4 over path kinds
    srcs = {"ok": good_src, "okcoff": coff_src, "missing": os.path.join(work, "nope.nas"), "dir": os.path.join(work, "adir"), "bad": bad_src, "bad2": bad2_src, "bad3": bad3_src}
    dsts = {"new": os.path.join(work, "out.bin"), "existing": os.path.join(work, "old.bin"), "nodir": os.path.join(work, "no", "such", "out.bin"),
            "isdir": os.path.join(work, "adir")}
    vectors = [[]] + [[srcs[s]] for s in srcs]
    for s in srcs:
        for d in dsts:
            vectors.append([srcs[s], dsts[d]])
            vectors.append([srcs[s], dsts[d], os.path.join(work, "list.lst")])
            if tier == "thorough" or (s, d) in (("ok", "new"), ("okcoff", "nodir"), ("bad", "existing"), ("missing", "new")):
                vectors.append([srcs[s], dsts[d], os.path.join(work, "list.lst"), "extra"])
    # flag tokens do not count as arguments: with one path left the source/output pair is incomplete (exit 16), with two it is complete
    for flag in ("-d", "--", "-d=false", "-d=true"):
        rc, so, se = cli([flag, good_src], work)
        evals += 1
        if rc != 16:
            v.violation("missing arguments must exit 16 (flag + one path, got %d)" % rc, {"argv": [flag, good_src], "exit": rc, "stdout": so[:300], "stderr": se[-300:]})
        if os.path.exists(dsts["new"]):
            os.remove(dsts["new"])
        rc, so, se = cli([flag, good_src, dsts["new"]], work)
        evals += 1
        got = open(dsts["new"], "rb").read() if os.path.isfile(dsts["new"]) else None
        if rc != 0 or got != expect_ok:
            v.violation("successful assembly must exit 0 and write the image (flag + two paths, got %d)" % rc, {"argv": [flag, good_src, dsts["new"]], "exit": rc, "stdout": so[:300], "stderr": se[-300:]})
    rc, so, se = cli(["-d"], work)
    evals += 1
    if rc != 16:
        v.violation("missing arguments must exit 16 (flag only, got %d)" % rc, {"argv": ["-d"], "exit": rc})
    for args in vectors:
        for f in (dsts["new"],):
            if os.path.exists(f):
                os.remove(f)
        open(dsts["existing"], "wb").write(GARBAGE)
        rc, so, se = cli(args, work)
        evals += 1
        n = len(args)
        w = {"argv": args, "exit": rc, "stdout": so[:300], "stderr": se[-300:]}
        if n < 2:
            if rc != 16:
                v.violation("missing arguments must exit 16", w)
            continue
        skind = [k for k in srcs if srcs[k] == args[0]][0]
        dkind = [k for k in dsts if dsts[k] == args[1]][0]
        dst = args[1]
        after = open(dst, "rb").read() if os.path.isfile(dst) else None
        before = GARBAGE if dkind == "existing" else None
        if skind in ("missing", "dir"):
            if rc != 17:
                v.violation("unreadable source must exit 17 (got %d)" % rc, w)
            if after != before:
                v.violation("a failing run changed the output file", w)
        elif skind in ("bad", "bad2", "bad3"):
            import re
            if rc == 0 or not re.search(r"\d+:\d+", so + se):
                v.violation("parse error must give a non-zero exit and a line:col position", w)
            if after not in (before, b""):
                v.violation("a failing run left a partial image in the output file", w)
        else:
            if dkind in ("nodir", "isdir"):
                if rc != 17:
                    v.violation("uncreatable output must exit 17 (got %d)" % rc, w)
            else:
                if rc != 0:
                    v.violation("successful assembly must exit 0 (got %d)" % rc, w)
                if after != (expect_coff if skind == "okcoff" else expect_ok):
                    v.violation("output file does not hold exactly the assembled bytes (pre-existing content: %s)" % dkind,
                                dict(w, file_hex=(after or b"")[:64].hex(), file_len=len(after or b""), expected_hex=(expect_coff if skind == "okcoff" else expect_ok).hex()))
    # ---- programs through the CLI (fresh destination and longer pre-existing destination) versus the in-process API
    n = 40 if tier == "quick" else 400
    progs = []
    for k in range(n):
        fmt = rng.random() < 0.25
        mode = 32 if fmt else rng.choice([16, 32])
        p, _ = GP.gen_program(rng, mode=mode, org=None if fmt else rng.choice([None, 0x7c00]), nstmts=rng.choice([5, 15, 30]), jumps=(mode == 16))
        if fmt:
            p = [("config", "FORMAT", ("str", b"WCOFF"))] + p + [("global", ["lab0"])]
        progs.append(p)
    res = lib.run_cases([{"id": str(i), "srcs": [A.p_program(p)]} for i, p in enumerate(progs)], "c19p")
    for i, p in enumerate(progs):
        text = A.p_program(p)
        src = os.path.join(work, "p%d.nas" % i)
        open(src, "w").write(text)
        for pre in (False, True):
            dst = os.path.join(work, "p%d.bin" % i)
            if pre:
                open(dst, "wb").write(GARBAGE)
            elif os.path.exists(dst):
                os.remove(dst)
            rc, so, se = cli([src, dst], work)
            evals += 1
            got = open(dst, "rb").read() if os.path.exists(dst) else None
            want = bytes.fromhex(res[str(i)]["calls"][0]["out"])
            if rc != 0 or got != want:
                v.violation("CLI result differs from the in-process API (exit %d, destination %s)" % (rc, "pre-filled with longer content" if pre else "fresh"),
                            {"source": text, "cli_hex": (got or b"")[:200].hex(), "cli_len": len(got or b""), "api_hex": want[:200].hex(), "api_len": len(want)})
                break
        # ---- comments in Shift_JIS / UTF-8 assemble like the comment-free form
        heads = [1000, 1023, 1024, 1025, 2048, 4096, 5000, 70000]
        for enc, maker, head in (("sjis", sjis_comment, 0), ("utf8", utf8_comment, 0), ("sjis after a long ASCII head", sjis_comment, heads[i % len(heads)])):
            if i % 2 and tier == "quick" and not head:
                continue
            csrc = os.path.join(work, "c%d.nas" % i)
            open(csrc, "wb").write(add_comments(text, rng, maker, head))
            dst = os.path.join(work, "c%d.bin" % i)
            if os.path.exists(dst):
                os.remove(dst)
            rc, so, se = cli([csrc, dst], work)
            evals += 1
            got = open(dst, "rb").read() if os.path.exists(dst) else None
            want = bytes.fromhex(res[str(i)]["calls"][0]["out"])
            if rc != 0 or got != want:
                w = {"encoding": enc, "source_hex": open(csrc, "rb").read().hex()[:3000], "comment_free_source": text, "exit": rc, "cli_hex": (got or b"")[:200].hex(), "expected_hex": want[:200].hex(),
                     "stdout": so[-300:]}
                v.violation("%s comments change the result" % enc, w)
                break
    # ---- failing runs never leave a partial image: a label name that breaks pass 2 (template expansion) makes gosk
    # exit with a failing status after the destination was already truncated
    psrc = os.path.join(work, "panic.nas")
    open(psrc, "w").write("\tMOV\tAX,1\n\tJMP\t$lab\n\tDB\t1,2,3\n$lab:\n\tDB\t4\n")
    dst = os.path.join(work, "panic.bin")
    open(dst, "wb").write(GARBAGE)
    rc, so, se = cli([psrc, dst], work)
    evals += 1
    after = open(dst, "rb").read()
    if rc == 0 or after not in (GARBAGE, b""):
        v.violation("a failing run left something other than the old or an empty file", {"exit": rc, "len": len(after)})
    v.cov.update({"evaluations": evals, "distinct_nontrivial": len(vectors) + len(progs),
                  "rule": "real CLI runs: all argument vectors of length 0..4 over {existing, missing, directory, unparsable} sources x {new, pre-existing longer, uncreatable, directory} destinations; random programs (flat and WCOFF) through the CLI into fresh and pre-filled destinations vs the in-process API; the same programs with generated Shift_JIS (trail 0x5c/0x7c, half-width katakana) and UTF-8 comments, also starting only after 1000..70000 bytes of pure ASCII; a source failing in pass 2; non-trivial = distinct argument vectors + programs",
                  "samples": [vectors[5], A.p_program(progs[0])], "argument_vectors": len(vectors), "programs": len(progs)})
