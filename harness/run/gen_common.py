"""Generator building blocks shared by the property checks."""
import ast as A

BOUNDARY = [0, 1, -1, 2, 7, 0x7f, 0x80, 0xff, 0x100, -0x80, -0x81, 0x7fff, 0x8000, 0xffff, 0x10000, -0x8000, -0x8001,
            0x7fffffff, 0x80000000, 0xffffffff, -0x80000000, -0x7fffffff, 0x100000000, 0x7fffffffffffffff]
SMALL = [0, 1, -1, 2, 3, 7, 8, 255, 256, -128, 127, 128, 1000]
STRCH = [c for c in range(0x20, 0x7f) if c not in (0x22, 0x5c)]


def rand_string(rng):
    n = rng.choice([0, 1, 2, 5, 12, 30])
    specials = b",;# '"
    return bytes(rng.choice(specials) if rng.random() < 0.3 else rng.choice(STRCH) for _ in range(n))


def const_prim(rng, depth):
    if depth <= 0 or rng.random() < 0.6:
        v = rng.choice(SMALL if rng.random() < 0.7 else BOUNDARY)
        if v >= 0 and rng.random() < 0.3:
            return ("hex", v)
        return ("num", v)
    return const_exp(rng, depth - 1)


def const_mul(rng, depth):
    head = const_prim(rng, depth)
    tail = []
    for _ in range(rng.choice([0, 0, 0, 1, 1, 2])):
        tail.append((rng.choice("*/%*"), const_prim(rng, depth)))
    return ("mul", head, tail)


def const_exp(rng, depth):
    head = const_mul(rng, depth)
    tail = []
    for _ in range(rng.choice([0, 1, 1, 2, 3])):
        tail.append((rng.choice("+-"), const_mul(rng, depth)))
    return ("add", head, tail)
