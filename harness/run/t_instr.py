import sys, os, collections
sys.path.insert(0, os.path.dirname(__file__))
import lib, ast as A, gen_instr as G
lib.sync()
sk = G.one_stmt_skeleton(False) + G.mem_skeleton(False)
progs = []
for st, tags in sk:
    for mode in (16, 32):
        progs.append((G.wrap_mode(st, mode), tags, mode))
print(len(progs))
cases = [{"id": str(i), "srcs": [A.p_program(p)]} for i, (p, _, _) in enumerate(progs)]
res = lib.run_cases(cases, "ti")
items = ["(%s, %s)" % (A.g_program(p), lib.obs_of(res[str(i)])) for i, (p, _, _) in enumerate(progs)]
bad = lib.coq_eval("ti", lib.header(), items, per_file=400)
print("bad", len(bad))
c = collections.Counter()
ex = {}
for k in bad:
    p, tags, mode = progs[k]
    key = (tags.get("form"), mode, tags.get("w"))
    c[key] += 1
    ex.setdefault(key, (cases[k]["srcs"][0].replace("\n", " | "), res[str(k)]["calls"][0]["out"] if res[str(k)].get("calls") else "died", res[str(k)]["calls"][0].get("diag") if res[str(k)].get("calls") else None))
for k, n in sorted(c.items(), key=lambda x: -x[1]):
    print(n, k, ex[k])
