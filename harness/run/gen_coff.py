"""Generator of WCOFF programs (shared by C08 and C09)."""
import ast as A
from gen_common import *

NAMECH = "abcdefghijklmnopqrstuvwxyzABCDEFGHIJKLMNOPQRSTUVWXYZ0123456789_"


def rand_name(rng, n):
    # avoid opcode / reserved prefixes by starting with '_'
    # single-character names: a letter that is not a prefix problem for the grammars
    return "_" + "".join(rng.choice(NAMECH) for _ in range(n - 1)) if n > 1 else rng.choice("_qwxyz")


def body_stmt(rng, k):
    r = rng.random()
    if r < 0.35:
        return ("mn", "DB", [A.num(rng.randrange(256)) for _ in range(rng.randrange(1, 5))])
    if r < 0.5:
        return ("mn", "DD", [A.num(rng.choice(BOUNDARY))])
    if r < 0.7:
        return ("op", rng.choice(["NOP", "HLT", "RET", "CLI", "STI"]))
    if r < 0.8:
        return ("mn", "RESB", [A.num(rng.choice([0, 1, 3, 16]))])
    return ("mn", "DW", [A.num(rng.randrange(65536))])


def label_offsets(stmts):
    """real offsets of the labels of a body made of the simple statements above (sizes known from the ISA / directive
    definitions: DB n bytes, DW 2n, DD 4n, RESB n, the one-byte no-operand instructions; directives emit nothing)"""
    off, out = 0, {}
    for st in stmts:
        if st[0] == "label":
            out[st[1]] = off
        elif st[0] == "op":
            off += 1
        elif st[0] == "mn":
            if st[1] in ("DB", "DW", "DD"):
                off += {"DB": 1, "DW": 2, "DD": 4}[st[1]] * len(st[2])
            elif st[1] == "RESB":
                off += st[2][0][1][1][1]
            else:
                return None
    return out


def gen_coff_program(rng, big=False):
    """returns dict(prog=..., flat=prog without FORMAT, globals=[...] in declaration order, labels=[...], file=bytes|None)"""
    nlab = rng.choice([0, 1, 2, 3, 4, 6])
    lens = [rng.choice([1, 2, 7, 8, 9, 10, 17, 18, 19, 30, 40]) for _ in range(nlab)]
    labels = []
    for n in lens:
        nm = rand_name(rng, n)
        while nm in labels:
            n += 1
            nm = rand_name(rng, n)
        labels.append(nm)
    # prefix-sharing family
    if nlab >= 2 and rng.random() < 0.3:
        labels[1] = (labels[0] + "x")[:41]
    undefined = [rand_name(rng, rng.choice([3, 8, 9, 12])) for _ in range(rng.choice([0, 0, 1, 2]))]
    undefined = [u for u in undefined if u not in labels]
    declared = [l for l in labels if rng.random() < 0.7] + undefined
    rng.shuffle(declared)
    dup = rng.random() < 0.12 and declared
    if dup:
        declared.append(rng.choice(declared))
    file = None
    r = rng.random()
    if r < 0.6:
        file = bytes(rng.choice(b"abcdefghijklmnopqrstuvwxyz._0123456789") for _ in range(rng.choice([1, 5, 12, 17, 18])))
    elif r < 0.7:
        file = bytes(rng.choice(b"abcdefghijklmnopqrstuvwxyz._") for _ in range(rng.choice([19, 25, 40])))
    head = [("config", "FORMAT", ("str", b"WCOFF")), ("config", "INSTRSET", ("str", b"i486p")), ("config", "BITS", ("num", 32))]
    if file is not None:
        head.append(("config", "FILE", ("str", file)))
    # GLOBAL statements: before and/or after definitions, one or several
    groups = []
    rest = list(declared)
    while rest:
        k = rng.randrange(1, len(rest) + 1)
        groups.append(rest[:k])
        rest = rest[k:]
    before = [g for g in groups if rng.random() < 0.7]
    after = [g for g in groups if g not in before]
    body = []
    for k, l in enumerate(labels):
        for _ in range(rng.randrange(0, 4) if not big else rng.randrange(50, 200)):
            body.append(body_stmt(rng, k))
        body.append(("label", l))
    for _ in range(rng.randrange(0, 4)):
        body.append(body_stmt(rng, 99))
    if body and rng.random() < 0.3:
        # a second section directive in the middle of the code: gosk emits one .text stream whatever the directive says
        k = rng.randrange(1, len(body) + 1)
        body = body[:k] + [("config", "SECTION", ("id", rng.choice([".text", ".data"])))] + body[k:]
    mid = [("global", g) for g in before] + [("config", "SECTION", ("id", ".text"))] + body + [("global", g) for g in after]
    decl_order = [n for g in before for n in g] + [n for g in after for n in g]
    return {"prog": head + mid, "flat": head[1:] + mid, "globals": decl_order, "labels": labels, "file": file, "addr": label_offsets(body),
            "dup": len(set(decl_order)) != len(decl_order), "longfile": file is not None and len(file) > 18}
