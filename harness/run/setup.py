#!/usr/bin/env python3
"""setup: build driver + translators + the full Coq development from a fresh restore (offline)."""
import os, sys, shutil
sys.path.insert(0, os.path.dirname(os.path.abspath(__file__)))
import lib
for f in ("src.stamp", "coq.stamp", "coq.ok"):
    p = os.path.join(lib.BUILD, f)
    if os.path.exists(p):
        os.remove(p)
rc, out = lib.sh("grep -rnE '\\b(Admitted|admit|Axiom|Parameter|Conjecture)\\b|Unset Guard|bypass_check|type-in-type' --include=*.v %s | grep -v '^.*(\\*' || true" % lib.COQ)
if out.strip():
    print("forbidden constructs in the Coq development:\n" + out)
    sys.exit(1)
try:
    st = lib.sync()
except lib.BrokenTie as e:
    print("setup failed:", e.what, e.detail)
    sys.exit(1)
if st.get("coq_make_rc", 0) != 0:
    print(st.get("coq_log", "")[-3000:])
    sys.exit(1)
print("setup ok", {k: st[k] for k in st if k != "coq_log"})
