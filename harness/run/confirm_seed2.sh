#!/bin/bash
# confirm_seed2.sh <Cxx> [srcdir]: confirm a round-2 seeded change independently in a scratch worktree of /repo:
# the demo passes on the clean tree; with patch.diff applied the build and the full suite pass and the demo fails.
set -u
P=$1; SRC=${2:-/tmp/mutout2/$P}; W=/tmp/confirm2-$P-$$
export GOFLAGS=-mod=mod GOPROXY=off GOSUMDB=off GOTOOLCHAIN=local
git -C /repo worktree add --detach $W HEAD >/dev/null 2>&1 || exit 9
cd $W
rundemo() {
  for t in $SRC/*_test.go; do
    [ -f "$t" ] || continue
    pkg=$(grep -m1 '^package ' $t | awk '{print $2}')
    case "$pkg" in main) d=cmd/gosk;; test|test_test) d=test;; *) d=$pkg; mkdir -p $d;; esac
    if grep -q "test/c06demo" $SRC/meta.json 2>/dev/null; then d=test/c06demo; mkdir -p $d; fi
    cp $t $d/
    names=$(grep -oE '^func (Test[A-Za-z0-9_]+)' $t | awk '{print $2}' | paste -sd'|')
    go test -vet=off -count=1 -run "^($names)\$" ./$d/ 2>&1 | grep -E "^(--- FAIL|FAIL|ok|panic)" | head -4
    rm -f $d/$(basename $t)
  done
  for s in $SRC/*.sh; do
    [ -f "$s" ] || continue
    (cd $SRC && bash $s $W >/tmp/confirm2-$P.log 2>&1; echo "script $(basename $s) exit=$?"; tail -2 /tmp/confirm2-$P.log)
  done
}
echo "--- demo on clean tree"; rundemo
git apply $SRC/patch.diff || { echo "patch does not apply"; cd /; git -C /repo worktree remove --force $W; exit 8; }
echo "--- build + suite with patch (non-ok lines only)"; go build ./... && go test -vet=off -count=1 ./... 2>&1 | grep -v "^ok\|no test files" | tail -5
echo "--- demo with patch"; rundemo
cd /; git -C /repo worktree remove --force $W
