import sys, os, random
sys.path.insert(0, os.path.dirname(__file__))
import lib, ast
from ast import *
lib.sync()
progs = [
 [("mn","ORG",[hexn(0x7c00)]), ("mn","DB",[num(1),num(-1),num(300),string(b"hi, ;#'x")]), ("label","l1"), ("mn","DW",[ident("l1"),num(70000)]),
  ("mn","DD",[sum_of([("+",("num",1)),("+",("num",2)),("-",("mul",("num",3),[("*",("num",4))]))])]), ("mn","RESB",[sum_of([("+",("hex",0x7c20)),("-",("id","$"))])]),
  ("mn","JMP",[ident("l1")]), ("mn","JE",[ident("fwd")]), ("op","NOP"), ("op","HLT"), ("mn","ALIGNB",[num(16)]), ("label","fwd"), ("mn","CALL",[ident("l1")]), ("mn","INT",[hexn(0x10)]), ("op","RET")],
]
cases = [{"id": str(i), "srcs": [p_program(p)]} for i, p in enumerate(progs)]
print(cases[0]["srcs"][0])
res = lib.run_cases(cases, "t")
items = []
for i, p in enumerate(progs):
    c = res[str(i)]["calls"][0]
    print(c)
    items.append("(%s, (0, %s, %s))" % (g_program(p), lib.gbytes(lib.hex2list(c["out"])), "true" if c["diag"] else "false"))
hdr = "From Coq Require Import List ZArith String Bool.\nFrom Gosk Require Import Model.Ast Model.Asm Check.Common Check.Prog.\nImport ListNotations. Open Scope Z_scope. Open Scope string_scope.\nDefinition check := check_flat.\n"
print("bad:", lib.coq_eval("t", hdr, items))
