"""Shared plumbing for the gosk verification checks (stdlib only).

sync()        build driver + CLI from /repo's *current working tree*, run translators,
              (re)build the Coq development when anything it depends on changed
run_cases()   run JSONL cases through the overlay driver with 16 workers, surviving
              worker death (os.Exit / fatal runtime errors are recorded per case)
coq_eval()    evaluate harness-written case files with coqc (vm_compute) in parallel
Verdict       collects violations / known findings / broken ties, writes replay + evidence
"""
import fcntl, hashlib, json, os, re, subprocess, sys, time, shutil, random, tempfile

VERIF = os.path.dirname(os.path.dirname(os.path.dirname(os.path.abspath(__file__))))
REPO = os.environ.get("VERIF_REPO", "/repo")
BUILD = os.path.join(VERIF, "_build")
COQ = os.path.join(VERIF, "coq")
GEN = os.path.join(COQ, "Generated")
NPROC = int(os.environ.get("VERIF_JOBS", "16"))
GOENV = dict(os.environ, GOFLAGS="-mod=mod", GOPROXY="off", GOSUMDB="off", GOTOOLCHAIN="local",
             CGO_ENABLED="0")
DRIVER = os.path.join(BUILD, "goskverif")
CLI = os.path.join(BUILD, "gosk")

CASE_TIMEOUT = int(os.environ.get("VERIF_CASE_TIMEOUT", "150"))   # 40 was too tight on a loaded machine (vp check #8: a 185 MB RESB image)
ALLOWED_AXIOMS = set()  # none expected; stdlib axioms would be listed here by name


def seed():
    try:
        return int(os.environ.get("VERIF_SEED", "20260930"))
    except ValueError:
        return 20260930


def tier(argv):
    t = os.environ.get("VERIF_TIER")
    for a in argv[1:]:
        if a in ("quick", "thorough"):
            t = a
    return t or "quick"


class Lock:
    def __init__(self, name="lock"):
        os.makedirs(BUILD, exist_ok=True)
        self.path = os.path.join(BUILD, "." + name)

    def __enter__(self):
        self.f = open(self.path, "w")
        fcntl.flock(self.f, fcntl.LOCK_EX)
        return self

    def __exit__(self, *a):
        fcntl.flock(self.f, fcntl.LOCK_UN)
        self.f.close()


def sh(cmd, cwd=None, env=None, timeout=3600, check=False):
    p = subprocess.run(cmd, cwd=cwd, env=env, shell=isinstance(cmd, str), stdout=subprocess.PIPE,
                       stderr=subprocess.STDOUT, timeout=timeout)
    out = p.stdout.decode("utf-8", "replace")
    if check and p.returncode != 0:
        raise RuntimeError("command failed (%d): %s\n%s" % (p.returncode, cmd, out[-4000:]))
    return p.returncode, out


def tree_hash(paths, exts):
    h = hashlib.sha256()
    for root in paths:
        if os.path.isfile(root):
            files = [root]
        else:
            files = []
            for d, dn, fn in os.walk(root):
                dn[:] = sorted(x for x in dn if x not in (".git",))
                for f in sorted(fn):
                    if f.endswith(exts):
                        files.append(os.path.join(d, f))
        for f in files:
            h.update(f.encode())
            with open(f, "rb") as fh:
                h.update(fh.read())
    return h.hexdigest()


class BrokenTie(Exception):
    """A translator failed closed, the driver does not build, or the Coq development does not check."""

    def __init__(self, what, detail=""):
        super().__init__(what)
        self.what = what
        self.detail = detail


def sync(need_coq=True):
    """Rebuild everything derived from /repo's working tree. Returns a status dict.
    Raises BrokenTie when the tie itself cannot be established."""
    st = {"t0": time.time()}
    with Lock():
        os.makedirs(BUILD, exist_ok=True)
        src_hash = tree_hash([REPO], (".go", ".peg", ".mod", ".sum", ".gz", ".json")) + \
            tree_hash([os.path.join(VERIF, "harness", "driver"), os.path.join(VERIF, "harness", "overlay.json")], (".go", ".json"))
        stamp = os.path.join(BUILD, "src.stamp")
        old = open(stamp).read() if os.path.exists(stamp) else ""
        if old != src_hash or not os.path.exists(DRIVER) or not os.path.exists(CLI):
            rc, out = sh(["go", "build", "-overlay", os.path.join(VERIF, "harness", "overlay.json"), "-tags", "verif",
                          "-o", DRIVER, "./cmd/goskverif"], cwd=REPO, env=GOENV, timeout=900)
            if rc != 0:
                raise BrokenTie("driver-build", out[-3000:])
            rc, out = sh(["go", "build", "-o", CLI, "./cmd/gosk"], cwd=REPO, env=GOENV, timeout=900)
            if rc != 0:
                raise BrokenTie("cli-build", out[-3000:])
            # translators
            rc, out = sh([DRIVER, "-out", os.path.join(BUILD, "tables.json"), "dump"], timeout=120)
            if rc != 0:
                raise BrokenTie("table-dump", out[-3000:])
            rc, out = sh([DRIVER, "-out", os.path.join(BUILD, "rows.json"), "rows"], timeout=600)
            if rc != 0:
                raise BrokenTie("translator", out[-3000:])
            rc, out = sh([sys.executable, os.path.join(VERIF, "harness", "translate", "translate.py")], timeout=300)
            if rc != 0:
                raise BrokenTie("translator", out[-3000:])
            open(stamp, "w").write(src_hash)
            st["rebuilt_driver"] = True
        if need_coq:
            st.update(coq_build())
    st["sync_s"] = round(time.time() - st["t0"], 2)
    return st


def coq_build():
    """Full .vo build of the development (make -k so that independent files still build).
    Returns which .vo files exist afterwards and the log."""
    st = {}
    vhash = tree_hash([COQ], (".v", "_CoqProject"))
    stamp = os.path.join(BUILD, "coq.stamp")
    old = open(stamp).read() if os.path.exists(stamp) else ""
    if old == vhash and os.path.exists(os.path.join(BUILD, "coq.ok")):
        st["coq_rebuilt"] = False
        st["coq_log"] = open(os.path.join(BUILD, "coq.log")).read() if os.path.exists(os.path.join(BUILD, "coq.log")) else ""
        return st
    write_coqproject()
    rc, out = sh("coq_makefile -f _CoqProject -o Makefile", cwd=COQ, timeout=120)
    if rc != 0:
        raise BrokenTie("coq_makefile", out)
    t0 = time.time()
    rc, out = sh("timeout 3000 make -k -j%d 2>&1" % NPROC, cwd=COQ, timeout=3100)
    st["coq_rebuilt"] = True
    st["coq_make_rc"] = rc
    st["coq_make_s"] = round(time.time() - t0, 1)
    st["coq_log"] = out
    open(os.path.join(BUILD, "coq.log"), "w").write(out)
    open(stamp, "w").write(vhash)
    open(os.path.join(BUILD, "coq.ok"), "w").write(str(rc))
    return st


def write_coqproject():
    files = []
    for d, dn, fn in os.walk(COQ):
        dn[:] = sorted(x for x in dn if x not in ("cases",))
        for f in sorted(fn):
            if f.endswith(".v"):
                files.append(os.path.relpath(os.path.join(d, f), COQ))
    txt = "-Q . Gosk\n" + "\n".join(files) + "\n"
    p = os.path.join(COQ, "_CoqProject")
    if not os.path.exists(p) or open(p).read() != txt:
        open(p, "w").write(txt)


def vo_exists(rel):
    return os.path.exists(os.path.join(COQ, rel[:-2] + ".vo")) if rel.endswith(".v") else os.path.exists(os.path.join(COQ, rel))


def proof_status(prop_file, coq_log):
    """Obligations = the Theorems/Corollaries of Props/<prop_file>.  A theorem counts as discharged when the
    compiled file exists and `Print Assumptions` (asked here for every one of them, whatever the file itself
    prints) answers 'Closed under the global context'; any axiom is reported and counts as not discharged."""
    path = os.path.join(COQ, "Props", prop_file)
    txt = open(path).read()
    thms = re.findall(r"^\s*(?:Theorem|Corollary)\s+(\w+)", txt, re.M)
    mod = prop_file[:-2]
    vo = os.path.join(COQ, "Props", mod + ".vo")
    ok = os.path.exists(vo)
    closed = 0
    axioms = []
    if ok and thms:
        side = os.path.join(BUILD, "assumptions_%s.txt" % mod)
        if not os.path.exists(side) or os.path.getmtime(side) < os.path.getmtime(vo):
            pa = os.path.join(BUILD, "PA_%s.v" % mod)
            with open(pa, "w") as f:
                f.write("From Gosk Require Import Props.%s.\n" % mod)
                for t in thms:
                    f.write("Print Assumptions %s.\n" % t)
            rc, out = sh("timeout 900 coqc -Q %s Gosk %s" % (COQ, pa), cwd=BUILD, timeout=1000)
            open(side, "w").write(out if rc == 0 else "FAILED\n" + out)
            for ext in (".vo", ".glob", ".vok", ".vos"):
                try:
                    os.remove(os.path.join(BUILD, "PA_%s%s" % (mod, ext)))
                except OSError:
                    pass
        out = open(side).read()
        if out.startswith("FAILED"):
            ok = False
        closed = out.count("Closed under the global context")
        axioms = re.findall(r"^Axioms:\n((?:.+\n)+)", out, re.M)
    return {"theorems": thms, "obligations": len(thms), "discharged": min(closed, len(thms)) if ok and not axioms else 0,
            "vo": ok, "axioms": axioms}


# ---------------------------------------------------------------- running the implementation

def _worker(cases_path, out_path, work):
    """Run the driver over one shard, restarting after the case that killed it."""
    n = sum(1 for _ in open(cases_path))
    start = 0
    deaths = {}
    if os.path.exists(out_path):
        os.remove(out_path)
    while start < n:
        p = subprocess.Popen(["bash", "-c", "ulimit -v 6000000; exec %s -in %s -out %s -work %s -start %d asm" %
                              (DRIVER, cases_path, out_path, work, start)],
                             stdout=subprocess.DEVNULL, stderr=subprocess.PIPE)
        last = None
        errtail = []
        import select, signal
        fd = p.stderr.fileno()
        buf = b""
        hung = False
        while True:
            r, _, _ = select.select([fd], [], [], CASE_TIMEOUT)
            if not r:
                hung = True          # no case finished within the deadline: treat as a hang
                p.kill()
                break
            chunk = os.read(fd, 65536)
            if not chunk:
                break
            buf += chunk
            while b"\n" in buf:
                ln, buf = buf.split(b"\n", 1)
                ln = ln.decode("utf-8", "replace") + "\n"
                if ln.startswith("@@BEGIN "):
                    last = int(ln.split()[1])
                    errtail = []
                else:
                    errtail.append(ln)
                    if len(errtail) > 30:
                        errtail.pop(0)
        rc = p.wait()
        if hung:
            rc = -99
            errtail.append("TIMEOUT: no progress for %d s\n" % CASE_TIMEOUT)
        if rc == 0:
            break
        if last is None:
            raise BrokenTie("driver-crash", "driver died before first case rc=%d %s" % (rc, "".join(errtail)))
        deaths[last] = (rc, "".join(errtail)[-600:])
        # record the death as the result of that case
        with open(cases_path) as f:
            for i, l in enumerate(f):
                if i == last:
                    cid = json.loads(l)["id"]
        # a driver killed while writing a (large) result leaves a partial last line: drop it, the death record replaces it
        if os.path.exists(out_path):
            with open(out_path, "rb+") as f:
                f.seek(0, 2)
                size = f.tell()
                if size:
                    pos = size
                    tail = b""
                    while pos > 0:
                        step = min(1 << 20, pos)
                        pos -= step
                        f.seek(pos)
                        blk = f.read(step)
                        k = (blk + tail[:0]).rfind(b"\n") if pos + step < size or not blk.endswith(b"\n") else len(blk) - 1
                        if pos + step == size and blk.endswith(b"\n"):
                            k = len(blk) - 1
                        if k >= 0:
                            f.truncate(pos + k + 1)
                            break
                    else:
                        f.truncate(0)
        with open(out_path, "a") as f:
            f.write(json.dumps({"id": cid, "died": rc, "stderr": deaths[last][1], "calls": []}) + "\n")
        start = last + 1
    return deaths


def run_cases(cases, tag="c", jobs=None, fresh=False):
    """cases: list of dicts with id + srcs. Returns dict id -> result.
    fresh=True: every case gets a driver process of its own (nothing a previous case left in process-wide state
    can reach it); otherwise the cases are spread over `jobs` long-lived driver processes."""
    jobs = jobs or NPROC
    work = os.path.join(BUILD, "work")
    os.makedirs(work, exist_ok=True)
    import threading
    if fresh:
        shards = [[c] for c in cases]
    else:
        shards = [[] for _ in range(jobs)]
        for i, c in enumerate(cases):
            shards[i % jobs].append(c)
    procs = []
    errs = []
    gate = threading.Semaphore(jobs)

    def go(k, sh_cases):
        cp = os.path.join(work, "%s-%d-%d.in.jsonl" % (tag, os.getpid(), k))
        op = os.path.join(work, "%s-%d-%d.out.jsonl" % (tag, os.getpid(), k))
        with open(cp, "w") as f:
            for c in sh_cases:
                f.write(json.dumps(c) + "\n")
        with gate:
            try:
                _worker(cp, op, work)
            except Exception as e:  # noqa
                errs.append(e)
        procs.append((cp, op))

    ths = [threading.Thread(target=go, args=(k, s)) for k, s in enumerate(shards) if s]
    for t in ths:
        t.start()
    for t in ths:
        t.join()
    if errs:
        raise errs[0]
    res = {}
    for cp, op in procs:
        if os.path.exists(op):
            for l in open(op):
                r = json.loads(l)
                res[r["id"]] = r
            os.remove(op)
        os.remove(cp)
    return res


def run_ast(cases, tag="ast"):
    """parse only (driver mode `ast`): id -> {"err":..., "sexp":[...]}"""
    work = os.path.join(BUILD, "work")
    os.makedirs(work, exist_ok=True)
    cp = os.path.join(work, "%s-%d.in.jsonl" % (tag, os.getpid()))
    op = os.path.join(work, "%s-%d.out.jsonl" % (tag, os.getpid()))
    with open(cp, "w") as f:
        for c in cases:
            f.write(json.dumps(c) + "\n")
    rc, out = sh([DRIVER, "-in", cp, "-out", op, "ast"], timeout=600)
    if rc != 0:
        raise BrokenTie("driver-ast", out[-2000:])
    res = {}
    for l in open(op):
        r = json.loads(l)
        res[r["id"]] = r
    os.remove(cp)
    os.remove(op)
    return res


def run_cli(args, cwd=None, timeout=30, stdin=None):
    p = subprocess.run([CLI] + args, cwd=cwd, stdout=subprocess.PIPE, stderr=subprocess.PIPE, timeout=timeout)
    return p.returncode, p.stdout.decode("utf-8", "replace"), p.stderr.decode("utf-8", "replace")


# ---------------------------------------------------------------- Gallina printing helpers

def gz(z):
    return "(%d)" % z if z < 0 else "%d" % z


def gstr(s):
    assert '"' not in s
    return '"%s"' % s


def gbytes(bs):
    """Gallina list of bytes; long zero runs are written as `zeros n` so that big RESB images stay parseable."""
    bs = list(bs)
    if len(bs) < 256:
        return "[" + ";".join(str(b) for b in bs) + "]"
    parts = []
    cur = []
    i = 0
    n = len(bs)
    while i < n:
        if bs[i] == 0:
            j = i
            while j < n and bs[j] == 0:
                j += 1
            if j - i >= 64:
                if cur:
                    parts.append("[" + ";".join(str(b) for b in cur) + "]")
                    cur = []
                parts.append("(zeros %d)" % (j - i))
                i = j
                continue
        cur.append(bs[i])
        i += 1
    if cur:
        parts.append("[" + ";".join(str(b) for b in cur) + "]")
    return "(" + " ++ ".join(parts) + ")%list"


def glist(xs):
    return "[" + "; ".join(xs) + "]"


def hex2list(h):
    return list(bytes.fromhex(h))


# ---------------------------------------------------------------- evaluating the model in Coq

def coq_eval(tag, header, items, per_file=400, timeout=900):
    """items: list of Gallina terms of one type; header: Coq text that imports what is needed and
    defines `check : <type> -> bool` (true = fine).  Writes shard files with
      Definition bad := Eval vm_compute in find_bad check 0 [items].
    and returns the list of indices for which check is false.  Raises BrokenTie if a shard
    does not compile (the model side of the correspondence cannot be evaluated)."""
    cdir = os.path.join(BUILD, "cases")
    os.makedirs(cdir, exist_ok=True)
    shards = [items[i:i + per_file] for i in range(0, len(items), per_file)]
    names = []
    for k, shd in enumerate(shards):
        nm = "cases_%s_%d_%d" % (tag, os.getpid(), k)
        with open(os.path.join(cdir, nm + ".v"), "w") as f:
            f.write(header + "\n")
            f.write("Definition items := [\n" + ";\n".join(shd) + "\n].\n")
            f.write("Definition bad := Eval vm_compute in Gosk.Check.Common.find_bad check 0%Z items.\n")
            f.write("Print bad.\n")
        names.append(nm)
    bad = []
    running = []
    results = {}

    def launch(nm):
        return subprocess.Popen("timeout %d coqc -Q %s Gosk %s.v" % (timeout, COQ, nm), cwd=cdir, shell=True,
                                stdout=subprocess.PIPE, stderr=subprocess.STDOUT)

    queue = list(enumerate(names))
    while queue or running:
        while queue and len(running) < NPROC:
            k, nm = queue.pop(0)
            running.append((k, nm, launch(nm)))
        k, nm, p = running.pop(0)
        out = p.communicate()[0].decode("utf-8", "replace")
        results[k] = (p.returncode, out)
        for ext in (".v", ".vo", ".glob", ".vok", ".vos"):
            try:
                os.remove(os.path.join(cdir, nm + ext))
            except OSError:
                pass
        try:
            os.remove(os.path.join(cdir, "." + nm + ".aux"))
        except OSError:
            pass
    for k in sorted(results):
        rc, out = results[k]
        if rc != 0:
            raise BrokenTie("model-eval", "shard %d of %s does not evaluate: %s" % (k, tag, out[-2000:]))
        m = re.search(r"bad\s*=\s*(\[[^\]]*\])", out.replace("\n", " "))
        if not m:
            raise BrokenTie("model-eval", "cannot read result of shard %d: %s" % (k, out[-1000:]))
        body = m.group(1).strip()[1:-1].strip()
        if body:
            for tok in body.split(";"):
                tok = tok.strip().replace("%Z", "").strip("()")
                if tok:
                    bad.append(k * per_file + int(tok))
    return bad


def coq_eval_values(tag, header, items, per_file=400, timeout=900):
    """Like coq_eval but `check : T -> Z` and returns the list of Z results (one per item)."""
    cdir = os.path.join(BUILD, "cases")
    os.makedirs(cdir, exist_ok=True)
    shards = [items[i:i + per_file] for i in range(0, len(items), per_file)]
    procs = []
    vals = []
    names = []
    for k, shd in enumerate(shards):
        nm = "vals_%s_%d_%d" % (tag, os.getpid(), k)
        with open(os.path.join(cdir, nm + ".v"), "w") as f:
            f.write(header + "\n")
            f.write("Definition items := [\n" + ";\n".join(shd) + "\n].\n")
            f.write("Definition vals := Eval vm_compute in List.map check items.\n")
            f.write("Print vals.\n")
        names.append(nm)
    results = {}
    queue = list(enumerate(names))
    running = []
    while queue or running:
        while queue and len(running) < NPROC:
            k, nm = queue.pop(0)
            running.append((k, nm, subprocess.Popen("timeout %d coqc -Q %s Gosk %s.v" % (timeout, COQ, nm), cwd=cdir, shell=True,
                                                    stdout=subprocess.PIPE, stderr=subprocess.STDOUT)))
        k, nm, p = running.pop(0)
        out = p.communicate()[0].decode("utf-8", "replace")
        results[k] = (p.returncode, out)
        for ext in (".v", ".vo", ".glob", ".vok", ".vos"):
            try:
                os.remove(os.path.join(cdir, nm + ext))
            except OSError:
                pass
        try:
            os.remove(os.path.join(cdir, "." + nm + ".aux"))
        except OSError:
            pass
    for k in sorted(results):
        rc, out = results[k]
        if rc != 0:
            raise BrokenTie("model-eval", "shard %d of %s does not evaluate: %s" % (k, tag, out[-2000:]))
        m = re.search(r"vals\s*=\s*\[(.*?)\]\s*:", out.replace("\n", " "))
        if not m:
            raise BrokenTie("model-eval", "cannot read result of shard %d: %s" % (k, out[-1000:]))
        for tok in m.group(1).split(";"):
            tok = tok.strip().replace("%Z", "").strip("()")
            if tok:
                vals.append(int(tok))
    return vals


# ---------------------------------------------------------------- known findings

def load_known(prop):
    """known_findings.txt lines:  finding: property=C04 id=<kf-id> <description> | witness: ...
                                  fixed: property=... <commit> <what failed>           (suppresses nothing)"""
    out = {}
    p = os.path.join(VERIF, "known_findings.txt")
    if not os.path.exists(p):
        return out
    for ln in open(p):
        ln = ln.strip()
        m = re.match(r"finding:\s+property=(\w+)\s+id=(\S+)\s+(.*)$", ln)
        if m and m.group(1) == prop:
            out[m.group(2)] = m.group(3)
    return out


class Verdict:
    def __init__(self, prop, tr, level="proof"):
        self.prop = prop
        self.tier = tr
        self.level = level
        self.t0 = time.time()
        self.violations = []     # (kind, description, replay dict)
        self.known_hits = {}     # kf id -> first witness
        self.broken = []         # (what, detail)  -> no-failing-input-found unless a violation exists
        self.cov = {"evaluations": 0, "distinct_nontrivial": 0, "samples": [], "rule": ""}
        self.known = load_known(prop)
        self.assumptions = []
        self.extra = {}

    def violation(self, desc, replay):
        self.violations.append((desc, replay))

    def finding(self, kfid, witness):
        """A failing case classified under finding class kfid. Listed -> KNOWN-FINDING; unlisted -> violation."""
        if kfid in self.known:
            self.known_hits.setdefault(kfid, witness)
        else:
            self.violation("unlisted finding class %s" % kfid, witness)

    def tie_broken(self, what, detail):
        self.broken.append((what, detail))

    def finish(self, proof=None):
        rdir = os.path.join(BUILD, "replay")
        os.makedirs(rdir, exist_ok=True)
        rc = 0
        for kf, w in sorted(self.known_hits.items()):
            print("KNOWN-FINDING: property=%s %s: %s" % (self.prop, kf, self.known[kf]))
        if self.violations:
            desc, rep = self.violations[0]
            path = os.path.join(rdir, "%s-violation.json" % self.prop)
            json.dump({"property": self.prop, "what": desc, "replay": rep, "more": len(self.violations) - 1,
                       "others": [v[0] for v in self.violations[1:200]]}, open(path, "w"), indent=1)
            print("VIOLATION property=%s replay=%s" % (self.prop, path))
            rc = 1
        elif self.broken:
            what, detail = self.broken[0]
            path = os.path.join(rdir, "%s-broken.json" % self.prop)
            json.dump({"property": self.prop, "no_longer_checks": what, "detail": detail,
                       "all": [b[0] for b in self.broken]}, open(path, "w"), indent=1)
            print("VIOLATION property=%s replay=%s no-failing-input-found" % (self.prop, path))
            rc = 1
        cov = dict(self.cov)
        cov.update(self.extra)
        if proof is not None:
            cov["obligations"] = proof["obligations"]
            cov["discharged"] = proof["discharged"]
            cov["checker_cmd"] = "cd /verif/coq && coq_makefile -f _CoqProject -o Makefile && make -j16 (coqc 8.16.1); Print Assumptions under every theorem of Props/%s.v" % self.prop
            cov["trusted_base"] = TRUSTED_BASE
            cov["theorems"] = proof["theorems"]
        ev = {"property_id": self.prop, "tier": self.tier, "seed": seed(), "level": self.level, "coverage": cov,
              "assumptions": self.assumptions, "wall_s": round(time.time() - self.t0, 2),
              "violations": len(self.violations) + (1 if (self.broken and not self.violations) else 0),
              "known_findings_reproduced": sorted(self.known_hits)}
        os.makedirs(os.path.join(VERIF, "evidence"), exist_ok=True)
        json.dump(ev, open(os.path.join(VERIF, "evidence", self.prop + ".json"), "w"), indent=1)
        return rc


TRUSTED_BASE = [
    "Coq 8.16.1 kernel and vm_compute (no native_compute)",
    "no axioms: Print Assumptions reports 'Closed under the global context' for every theorem in Props/",
    "translators harness/translate/translate.py + driver dump mode (Generated/*.v from /repo)",
    "correspondence harness: overlay driver harness/driver/*.go, Python generators/printers, coqc evaluation of case files",
    "hand-written specifications in coq/Spec (x86 decoder, COFF reader, arithmetic) - not derived from gosk",
    "hand-written model in coq/Model tied to /repo only by the correspondence check (differential testing)",
]


def first_coq_error():
    p = os.path.join(BUILD, "coq.log")
    if not os.path.exists(p):
        return ""
    txt = open(p).read()
    m = re.search(r'(File "[^"]+", line \d+, characters [\d-]+:\nError:(?:.*\n){1,12})', txt)
    return m.group(1) if m else txt[-1500:]


HDR = ("From Coq Require Import List ZArith String Bool.\n"
       "From Gosk Require Import Base.Bytes Model.Ast Model.Eval Model.Asm Check.Common Check.Prog %s.\n"
       "Import ListNotations. Local Open Scope Z_scope. Local Open Scope string_scope.\n")


def header(extra_imports="", check="check_flat"):
    return HDR % extra_imports + "Definition check := %s.\n" % check


def obs_of(res):
    """(kind, bytes, diag) Gallina triple of one driver result (first call)."""
    if "died" in res:
        return "(2, [], false)"
    c = res["calls"][0]
    if c.get("panic"):
        return "(1, [], false)"
    return "(0, %s, %s)" % (gbytes(hex2list(c["out"])) if not c["out"].startswith("!") else "[]", "true" if c["diag"] else "false")
