"""Instruction skeletons (shared by C01, C02, C03, C07, C14, C17, C18)."""
import itertools
import ast as A

R8 = ["AL", "CL", "DL", "BL", "AH", "CH", "DH", "BH"]
R16 = ["AX", "CX", "DX", "BX", "SP", "BP", "SI", "DI"]
R32 = ["EAX", "ECX", "EDX", "EBX", "ESP", "EBP", "ESI", "EDI"]
SREG = ["ES", "CS", "SS", "DS", "FS", "GS"]
CREG = ["CR0", "CR2", "CR3", "CR4"]
ALU = ["ADD", "OR", "AND", "SUB", "XOR", "CMP"]
SHIFT = ["SHL", "SHR", "SAR"]
IMMS = [0, 1, -1, 0x7f, 0x80, 0xff, 0x100, -0x80, -0x81, 0x7fff, 0x8000, 0xffff, 0x10000, -0x8000, -0x8001, 0x7fffffff, 0x80000000,
        0xffffffff, -0x7fffffff, -0x80000000, 0x12, 0x1234, 0x12345678]
DISPS = [None, 0, 1, -1, 127, 128, -128, -129, 255, 256, 0x7fff, 0x8000, -0x8000, 0x12345678]
WIDTH = {8: R8, 16: R16, 32: R32}
DT = {8: "BYTE", 16: "WORD", 32: "DWORD"}


def reg(n):
    return A.ident(n)


def imm(v):
    return A.num(v) if v < 0 or v < 10 else A.hexn(v)


def mem_exp(base, index, scale, disp, dt=""):
    parts = []
    if base:
        parts.append(("+", ("id", base)))
    if index:
        if scale and scale != 1 or (scale == 1 and not base and False):
            parts.append(("+", ("mul", ("id", index), [("*", ("num", scale))])))
        else:
            parts.append(("+", ("id", index)))
    if disp is not None or not parts:
        d = disp or 0
        if parts and d < 0:
            parts.append(("-", ("num", -d)))
        else:
            parts.append(("+", ("num", d) if d < 10 else ("hex", d)))
    return A.mem(dt, A.sum_of(parts))


def shapes16():
    out = []
    for b, i in [("BX", "SI"), ("BX", "DI"), ("BP", "SI"), ("BP", "DI"), ("SI", None), ("DI", None), ("BP", None), ("BX", None), (None, None)]:
        out.append((b, i, None))
    return out


def shapes32(full=True):
    out = []
    bases = [None] + R32
    idxs = [None] + [r for r in R32 if r != "ESP"]
    for b in bases:
        for i in idxs:
            scales = [1, 2, 4, 8] if i else [None]
            if not full and i and b not in (None, "EAX", "EBP", "ESP"):
                scales = [1, 4]
            for s in scales:
                out.append((b, i, s))
    return out


def mem_desc(b, i, s, d, dt):
    return {"base": b, "index": i, "scale": s, "disp": d, "dt": dt}


def carriers(m, w):
    """statements carrying memory operand m (width w bits) in the roles the property lists"""
    rs = WIDTH[w]
    out = []
    out.append((("mn", "MOV", [reg(rs[1]), m]), "load"))
    out.append((("mn", "MOV", [m, reg(rs[2])]), "store"))
    # the accumulator competes with the moffs forms A0..A3 (which must lose whenever a register takes part in the address)
    out.append((("mn", "MOV", [reg(rs[0]), m]), "acc-load"))
    out.append((("mn", "MOV", [m, reg(rs[0])]), "acc-store"))
    out.append((("mn", "ADD", [reg(rs[3]), m]), "alu-load"))
    out.append((("mn", "CMP", [m, reg(rs[1])]), "alu-store"))
    return out


def sized(m, w):
    return ("mem", DT[w], m[2], m[3])


def one_stmt_skeleton(full=False):
    """(stmt, tag dict) for every mnemonic x operand form (x all 8 registers per position when full)"""
    out = []

    def add(st, **tags):
        out.append((st, tags))
    rsel = (lambda l: l) if full else (lambda l: [l[0], l[1], l[3], l[5], l[7]])
    for w, rs in WIDTH.items():
        for a in rsel(rs):
            for b in rsel(rs):
                if full or a == rs[1] or b == rs[3] or a == b:
                    add(("mn", "MOV", [reg(a), reg(b)]), form="mov r,r", w=w)
                    for op in (ALU if full else ["ADD", "CMP", "XOR"]):
                        add(("mn", op, [reg(a), reg(b)]), form="alu r,r", w=w)
        for a in rs:
            for v in (IMMS if full or a in (rs[0], rs[1], rs[7]) else [0, 1, 0x7f, 0x80, -1, 0x1234]):
                add(("mn", "MOV", [reg(a), imm(v)]), form="mov r,imm", w=w, imm=v)
                for op in (ALU if full or a in (rs[0], rs[3]) else ["ADD", "CMP"]):
                    add(("mn", op, [reg(a), imm(v)]), form="alu r,imm", w=w, imm=v)
            add(("mn", "NOT", [reg(a)]), form="not r", w=w)
            for sh in SHIFT:
                for c in (1, 4, 31):
                    add(("mn", sh, [reg(a), imm(c)]), form="shift r,imm", w=w, imm=c)
    for r in R16:
        for s in SREG:
            add(("mn", "MOV", [reg(s), reg(r)]), form="mov sreg,r16")
            add(("mn", "MOV", [reg(r), reg(s)]), form="mov r16,sreg")
    for r in R32:
        for c in CREG:
            add(("mn", "MOV", [reg(c), reg(r)]), form="mov creg,r32")
            add(("mn", "MOV", [reg(r), reg(c)]), form="mov r32,creg")
    for r in R16 + R32 + SREG:
        add(("mn", "PUSH", [reg(r)]), form="push r")
        if r != "CS":
            add(("mn", "POP", [reg(r)]), form="pop r")
    for v in IMMS:
        add(("mn", "PUSH", [imm(v)]), form="push imm", imm=v)
    for acc in ("AL", "AX", "EAX"):
        add(("mn", "IN", [reg(acc), reg("DX")]), form="in acc,dx")
        add(("mn", "OUT", [reg("DX"), reg(acc)]), form="out dx,acc")
        for p in (0, 1, 0x21, 0x7f, 0x80, 0xff):
            add(("mn", "IN", [reg(acc), imm(p)]), form="in acc,imm", imm=p)
            add(("mn", "OUT", [imm(p), reg(acc)]), form="out imm,acc", imm=p)
    for v in (0, 1, 3, 0x10, 0x13, 0x7f):
        add(("mn", "INT", [imm(v)]), form="int", imm=v)
    for w in (16, 32):
        for a in WIDTH[w][:4]:
            for v in (2, 100, 127, 128, 4608, -3, 0x12345):
                add(("mn", "IMUL", [reg(a), imm(v)]), form="imul r,imm", w=w, imm=v)
    add(("op", "RET"), form="ret")
    return out


def mem_skeleton(mode_full=False):
    """(stmt, tags) carrying every addressing shape x displacement x carrier"""
    out = []
    for (b, i, s) in shapes16():
        for d in DISPS:
            if b is None and i is None and d is None:
                continue
            if d is not None and not (-0x8000 <= d <= 0xffff) and True:
                pass
            for w in (8, 16, 32):
                m = mem_exp(b, i, s, d)
                for st, role in carriers(m, w):
                    out.append((st, {"form": "mem16 " + role, "w": w, "mem": mem_desc(b, i, s, d, ""), "asize": 16}))
                ms = sized(m, w)
                out.append((("mn", "MOV", [ms, imm(0x12)]), {"form": "mem16 store-imm", "w": w, "mem": mem_desc(b, i, s, d, DT[w]), "asize": 16, "imm": 0x12}))
                out.append((("mn", "NOT", [ms]), {"form": "mem16 not", "w": w, "mem": mem_desc(b, i, s, d, DT[w]), "asize": 16}))
                out.append((("mn", "SHL", [ms, imm(3)]), {"form": "mem16 shift", "w": w, "mem": mem_desc(b, i, s, d, DT[w]), "asize": 16, "imm": 3}))
            m = mem_exp(b, i, s, d)
            out.append((("mn", "PUSH", [sized(m, 16)]), {"form": "mem16 push", "w": 16, "mem": mem_desc(b, i, s, d, "WORD"), "asize": 16}))
            out.append((("mn", "POP", [sized(m, 16)]), {"form": "mem16 pop", "w": 16, "mem": mem_desc(b, i, s, d, "WORD"), "asize": 16}))
    for (b, i, s) in shapes32(mode_full):
        ds = DISPS if (mode_full or (b in (None, "EAX", "EBP", "ESP", "ESI") and i in (None, "EAX", "ECX", "EBP"))) else [None, 8, 0x1234]
        for d in ds:
            if b is None and i is None and d is None:
                continue
            m = mem_exp(b, i, s, d)
            for w in ((8, 16, 32) if mode_full else (32, 8)):
                for st, role in (carriers(m, w) if mode_full else carriers(m, w)[:4]):
                    out.append((st, {"form": "mem32 " + role, "w": w, "mem": mem_desc(b, i, s, d, ""), "asize": 32}))
            ms = sized(m, 32)
            out.append((("mn", "MOV", [ms, imm(0x12)]), {"form": "mem32 store-imm", "w": 32, "mem": mem_desc(b, i, s, d, "DWORD"), "asize": 32, "imm": 0x12}))
            if mode_full:
                out.append((("mn", "NOT", [ms]), {"form": "mem32 not", "w": 32, "mem": mem_desc(b, i, s, d, "DWORD"), "asize": 32}))
                out.append((("mn", "PUSH", [ms]), {"form": "mem32 push", "w": 32, "mem": mem_desc(b, i, s, d, "DWORD"), "asize": 32}))
                out.append((("mn", "POP", [ms]), {"form": "mem32 pop", "w": 32, "mem": mem_desc(b, i, s, d, "DWORD"), "asize": 32}))
    return out


def wrap_mode(st, mode):
    return ([("config", "BITS", ("num", 32))] if mode == 32 else []) + [st]
