"""Finding classes for instruction-encoding failures (shared by C01, C02, C18).
Each class is a predicate on the *input* (mode, statement form, operand features), as tight as the
defect it names; a failing case outside every listed class is reported as a violation."""
import os, json

_here = os.path.dirname(os.path.abspath(__file__))
NOPARAM_KNOWN = json.load(open(os.path.join(_here, "known_noparam.json"))) if os.path.exists(os.path.join(_here, "known_noparam.json")) else {"16": [], "32": []}


def imm_class(v):
    if -128 <= v <= 127:
        return 8
    if -32768 <= v <= 32767:
        return 16
    if -2147483648 <= v <= 2147483647:
        return 32
    return 64


def classify(tags, mode, st):
    form = tags.get("form", "")
    w = tags.get("w")
    imm = tags.get("imm")
    mem = tags.get("mem")
    if st[0] == "op":
        return "X86-noparam-table" if st[1] in NOPARAM_KNOWN[str(mode)] else None
    if mem:
        b, i, s, d = mem["base"], mem["index"], mem["scale"], mem["disp"]
        if tags.get("asize") == 16 and mode == 32 and (b or i):
            return "X86-16bit-addressing-in-bits32"
        has_reg = any(o[0] == "add" and o[1][1][0] == "id" for o in st[2])
        if mem["dt"] and not has_reg:
            if (mode == 16 and w == 32) or (mode == 32 and w == 16):
                return "X86-typed-mem-no-66"
        if not mem["dt"] and tags.get("asize") == 32 and mode == 16 and w == 16 and (b or i):
            return "X86-untyped-mem32-bogus-66"
        if not mem["dt"] and tags.get("asize") == 16 and mode == 32 and w == 32 and not (b or i):
            return None
    if imm is not None and ("imm" in form):
        c = imm_class(imm)
        wide = w if w is not None else mode      # PUSH imm: operand size = mode
        if form.startswith(("in ", "out ", "int")):
            return None
        if mode == 16 and wide == 16 and c >= 32:
            return "X86-imm-class-prefix"
        if mode == 32 and wide == 32 and c == 16:
            return "X86-imm-class-prefix"
        # on a byte operation the bogus prefix does not change the meaning (C01 holds) but makes the encoding longer (C18)
        if mode == 32 and wide == 8 and c == 16:
            return "X86-imm-class-prefix"
        if mode == 16 and wide == 8 and c >= 32:
            return "X86-imm-class-prefix"
    if form == "mov r16,sreg":
        return "X86-mov-r16-sreg-rm"
    return None
