"""Finding classes for instruction-encoding failures (shared by C01, C02, C18).
Each class is a predicate on the *input* (mode, statement form, operand features), as tight as the
defect it names; a failing case outside every listed class is reported as a violation."""
import os, json

_here = os.path.dirname(os.path.abspath(__file__))
NOPARAM_KNOWN = json.load(open(os.path.join(_here, "known_noparam.json"))) if os.path.exists(os.path.join(_here, "known_noparam.json")) else {"16": [], "32": []}


def imm_class(v):
    if -128 <= v <= 127:
        return 8
    if -32768 <= v <= 32767:
        return 16
    if -2147483648 <= v <= 2147483647:
        return 32
    return 64


def classify(tags, mode, st):
    form = tags.get("form", "")
    w = tags.get("w")
    imm = tags.get("imm")
    mem = tags.get("mem")
    if st[0] == "op":
        return "X86-noparam-table" if st[1] in NOPARAM_KNOWN[str(mode)] else None
    if mem:
        b, i, s, d = mem["base"], mem["index"], mem["scale"], mem["disp"]
        if not mem["dt"] and tags.get("asize") == 16 and mode == 32 and w == 32 and not (b or i):
            return None
    if imm is not None and st[0] == "mn" and st[1] in ("ADD", "OR", "ADC", "SBB", "AND", "SUB", "XOR", "CMP") and w in (16, 32) \
            and imm >= 2 ** (w - 1) and imm - 2 ** w >= -128:
        return "C18-unsigned-imm-not-sign-extended"      # only ever a C18 failure: the full-width form is a correct encoding
    return None
