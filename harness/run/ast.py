"""Abstract gosk programs: one Python value, two printers (NASK text for gosk, Gallina for the model).

factor : ("num", z) | ("numz", z, digits) | ("hex", z) | ("hexz", z, digits, upper) | ("id", s) | ("str", bytes)
exp    : ("add", mul, [(op, mul)...])          op in "+-"
mul    : ("mul", prim, [(op, prim)...])        op in "*/%"
prim   : factor | exp (a parenthesised add)
operand: exp | ("mem", dt, add, add|None) | ("seg", dt, add, add)      dt in "", "BYTE", "WORD", "DWORD"
stmt   : ("label", s) | ("equ", s, exp) | ("global", [s]) | ("extern", [s]) | ("config", name, factor)
       | ("mn", op, [operand]) | ("op", op)
"""
from lib import gz, gstr, gbytes, glist


# ---------------------------------------------------------------- constructors
def num(z):
    return ("add", ("mul", ("num", z), []), [])


def hexn(z):
    return ("add", ("mul", ("hex", z), []), [])


def ident(s):
    return ("add", ("mul", ("id", s), []), [])


def string(bs):
    return ("add", ("mul", ("str", bytes(bs)), []), [])


def add(terms):
    """terms: [(op, mul)] with first op ignored"""
    return ("add", terms[0][1], [(o, m) for o, m in terms[1:]])


def mul1(p):
    return ("mul", p, [])


def mem(dt, a, r=None):
    return ("mem", dt, a, r)


def sum_of(parts):
    """parts: list of ('+'|'-', prim-or-mul). prim is wrapped in a mul."""
    def asmul(x):
        return x if x[0] == "mul" else ("mul", x, [])
    return ("add", asmul(parts[0][1]), [(o, asmul(p)) for o, p in parts[1:]])


# ---------------------------------------------------------------- text printer
class Layout:
    """Whitespace/comment choices; the default is the canonical one-statement-per-line form."""
    eol = "\n"
    indent = "\t"
    sep = ","            # operand separator incl. spaces
    opsp = " "           # around binary operators
    brk = ""             # inside brackets / parens
    final_newline = True

    def after_stmt(self, k):   # trailing text after statement k (before EOL)
        return ""

    def before_stmt(self, k):  # own-line comments / blank lines before statement k
        return ""


def p_factor(f):
    k = f[0]
    if k == "num":
        return "%d" % f[1]
    if k == "numz":          # the same decimal number written with leading zeros: ("numz", z, digits)
        return ("-" if f[1] < 0 else "") + "%0*d" % (f[2], abs(f[1]))
    if k == "hexz":          # hexadecimal with leading zeros / upper-case digits: ("hexz", z, digits, upper)
        return ("0X" if f[3] else "0x") + ("%0*X" if f[3] else "%0*x") % (f[2], f[1])
    if k == "hex":
        return "0x%x" % f[1]
    if k == "id":
        return f[1]
    if k == "str":
        return '"' + f[1].decode("utf-8") + '"'        # string bytes are kept as valid UTF-8 so that text and bytes agree
    raise ValueError(f)


def p_prim(p, lay):
    if p[0] == "add":
        return "(" + lay.brk + p_add(p, lay) + lay.brk + ")"
    return p_factor(p)


def p_mul(m, lay):
    s = p_prim(m[1], lay)
    for o, p in m[2]:
        s += lay.opsp + o + lay.opsp + p_prim(p, lay)
    return s


def p_add(a, lay):
    s = p_mul(a[1], lay)
    for o, m in a[2]:
        s += lay.opsp + o + lay.opsp + p_mul(m, lay)
    return s


def p_operand(e, lay):
    if e[0] == "add":
        return p_add(e, lay)
    if e[0] == "mem":
        dt = e[1] + " " if e[1] else ""
        s = dt + "[" + lay.brk + p_add(e[2], lay)
        if e[3] is not None:
            s += ":" + p_add(e[3], lay)
        return s + lay.brk + "]"
    if e[0] == "seg":
        dt = e[1] + " " if e[1] else ""
        return dt + p_add(e[2], lay) + ":" + p_add(e[3], lay)
    raise ValueError(e)


def p_stmt(st, lay):
    k = st[0]
    if k == "label":
        return st[1] + ":"
    if k == "equ":
        return st[1] + lay.indent + "EQU" + lay.indent + p_operand(st[2], lay)
    if k == "global":
        return lay.indent + "GLOBAL" + lay.indent + lay.sep.join(st[1])
    if k == "extern":
        return lay.indent + "EXTERN" + lay.indent + lay.sep.join(st[1])
    if k == "config":
        return "[" + st[1] + " " + p_factor(st[2]) + "]"
    if k == "mn":
        return lay.indent + st[1] + lay.indent + lay.sep.join(p_operand(o, lay) for o in st[2])
    if k == "op":
        return lay.indent + st[1]
    raise ValueError(st)


def p_program(prog, lay=None):
    lay = lay or Layout()
    out = []
    for k, st in enumerate(prog):
        out.append(lay.before_stmt(k))
        out.append(p_stmt(st, lay) + lay.after_stmt(k))
        last = k == len(prog) - 1
        if not last or lay.final_newline or st[0] == "label":
            out.append(lay.eol)
    return "".join(out)


# ---------------------------------------------------------------- Gallina printer
def g_factor(f):
    k = f[0]
    if k in ("num", "numz"):
        return "FNum %s" % gz(f[1])
    if k == "hexz":
        return "FHex %s" % gz(f[1])
    if k == "hex":
        return "FHex %s" % gz(f[1])
    if k == "id":
        return "FId %s" % gstr(f[1])
    if k == "str":
        return "FStr %s" % gbytes(list(f[1]))
    raise ValueError(f)


def g_prim(p):
    if p[0] == "add":
        return g_add(p)
    return "EImm (%s)" % g_factor(p)


MULOP = {"*": "OpMul", "/": "OpDiv", "%": "OpMod"}
ADDOP = {"+": "OpPlus", "-": "OpMinus"}
DT = {"": "DtNone", "BYTE": "DtByte", "WORD": "DtWord", "DWORD": "DtDword"}


def g_mul(m):
    return "EMul (%s) %s" % (g_prim(m[1]), glist("(%s, %s)" % (MULOP[o], g_prim(p)) for o, p in m[2]))


def g_add(a):
    return "EAdd (%s) %s" % (g_mul(a[1]), glist("(%s, %s)" % (ADDOP[o], g_mul(m)) for o, m in a[2]))


def g_operand(e):
    if e[0] == "add":
        return g_add(e)
    if e[0] == "mem":
        r = "None" if e[3] is None else "Some (%s)" % g_add(e[3])
        return "EMem %s JtNone (%s) (%s)" % (DT[e[1]], g_add(e[2]), r)
    if e[0] == "seg":
        return "ESeg %s (%s) (Some (%s))" % (DT[e[1]], g_add(e[2]), g_add(e[3]))
    raise ValueError(e)


CONF = {"BITS": "CBits", "INSTRSET": "CInstrset", "OPTIMIZE": "COptimize", "FORMAT": "CFormat", "PADDING": "CPadding",
        "PADSET": "CPadset", "SECTION": "CSection", "ABSOLUTE": "CAbsolute", "FILE": "CFile"}


def g_stmt(st):
    k = st[0]
    if k == "label":
        return "SLabel %s" % gstr(st[1])
    if k == "equ":
        return "SEqu %s (%s)" % (gstr(st[1]), g_operand(st[2]))
    if k == "global":
        return "SGlobal %s" % glist(gstr(s) for s in st[1])
    if k == "extern":
        return "SExtern %s" % glist(gstr(s) for s in st[1])
    if k == "config":
        return "SConfig %s (%s)" % (CONF[st[1]], g_factor(st[2]))
    if k == "mn":
        return "SMnem %s %s" % (gstr(st[1]), glist("(%s)" % g_operand(o) for o in st[2]))
    if k == "op":
        return "SOp %s" % gstr(st[1])
    raise ValueError(st)


def g_program(prog):
    return glist(g_stmt(s) for s in prog)
