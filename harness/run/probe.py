#!/usr/bin/env python3
"""probe.py [-32] 'stmt' 'stmt' ...  : assemble each argument as its own one-statement program (debug aid)."""
import sys, json, os
sys.path.insert(0, os.path.dirname(__file__))
import lib
args = sys.argv[1:]
pre = ""
if args and args[0] == "-32":
    pre = "[BITS 32]\n"; args = args[1:]
cases = [{"id": str(i), "srcs": [pre + a.replace("\\n", "\n") + "\n"]} for i, a in enumerate(args)]
res = lib.run_cases(cases, "probe", jobs=4)
for i, a in enumerate(args):
    r = res[str(i)]
    if "died" in r:
        print(a, "=> DIED", r["died"], r["stderr"][-200:]); continue
    c = r["calls"][0]
    print("%-40s => %s loc=%d diag=%s %s %s %s" % (a, c["out"], c["loc"], c["diag"], c.get("panic", "")[:80], c.get("parse_err", "")[:60], c.get("diag_msgs", "")))
