import sys, os, collections
sys.path.insert(0, os.path.dirname(__file__))
import lib, ast as A, gen_instr as G
lib.sync()
sk = G.one_stmt_skeleton(False) + G.mem_skeleton(False)
progs = []
for st, tags in sk:
    for mode in (16, 32):
        progs.append((G.wrap_mode(st, mode), tags, mode, st))
cases = [{"id": str(i), "srcs": [A.p_program(p)]} for i, (p, _, _, _) in enumerate(progs)]
res = lib.run_cases(cases, "tc")
idx = [i for i in range(len(progs)) if res[str(i)].get("calls") and not res[str(i)]["calls"][0].get("panic") and not res[str(i)]["calls"][0]["diag"]]
items = ["(%d, %s, %s)" % (progs[i][2], A.g_stmt(progs[i][3]), lib.gbytes(lib.hex2list(res[str(i)]["calls"][0]["out"]))) for i in idx]
hdr = lib.HDR % "Check.C01 Spec.X86 Spec.Denote" + "Definition check := %s.\n" % sys.argv[1]
codes = lib.coq_eval_values("tc", hdr, items, per_file=500)
c = collections.Counter(); ex = {}
for k, code in enumerate(codes):
    if code == 0: continue
    i = idx[k]; p, tags, mode, st = progs[i]
    key = (code, tags.get("form"), mode, tags.get("w"))
    c[key] += 1
    ex.setdefault(key, []).append((cases[i]["srcs"][0].replace("[BITS 32]\n", "").strip(), res[str(i)]["calls"][0]["out"]))
print(len(progs), len(idx), sum(c.values()))
for k, n in sorted(c.items(), key=lambda x: (x[0][0], -x[1])):
    print(n, k, ex[k][:3])
