import sys, os, collections, json
sys.path.insert(0, os.path.dirname(__file__))
import lib, ast as A, gen_instr as G, x86class
from props import c18
lib.sync()
sk = c18.skeleton("quick")
progs = []
for st, tags in sk:
    for mode in (16, 32):
        progs.append((G.wrap_mode(st, mode), tags, mode, st))
cases = [{"id": str(i), "srcs": [A.p_program(p)]} for i, (p, _, _, _) in enumerate(progs)]
res = lib.run_cases(cases, "tc")
idx = [i for i in range(len(progs)) if res[str(i)].get("calls") and not res[str(i)]["calls"][0].get("panic") and not res[str(i)]["calls"][0]["diag"] and not res[str(i)]["calls"][0].get("parse_err")]
items = ["(%d, %s, %s)" % (progs[i][2], A.g_stmt(progs[i][3]), lib.gbytes(lib.hex2list(res[str(i)]["calls"][0]["out"]))) for i in idx]
codes = lib.coq_eval_values("tc", lib.HDR % "Check.C01 Spec.X86 Spec.Denote" + "Definition check := check_c18.\n", items, per_file=500)
for k, code in enumerate(codes):
    i = idx[k]; p, tags, mode, st = progs[i]
    if code == 5 and x86class.classify(tags, mode, st) is None:
        print(code, mode, cases[i]["srcs"][0].replace("[BITS 32]\n", "").strip(), res[str(i)]["calls"][0]["out"], tags.get("mem"))
