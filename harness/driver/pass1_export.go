//go:build verif

package pass1

// VerifHandlerKeys exposes the pass-1 handler registry to the table translator.
func VerifHandlerKeys() []string {
	ks := []string{}
	for k := range opcodeEvalFns {
		ks = append(ks, k)
	}
	return ks
}
