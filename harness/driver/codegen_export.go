//go:build verif

package codegen

// VerifOpcodeMap exposes the no-operand opcode table to the table translator.
func VerifOpcodeMap() map[string]int {
	m := map[string]int{}
	for k, v := range opcodeMap {
		m[k.String()] = int(v)
	}
	return m
}
