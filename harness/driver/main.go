//go:build verif

// goskverif: batch driver compiled INSIDE /repo's module through `go build -overlay`.
// It never lives in /repo; the overlay maps this file to /repo/cmd/goskverif/main.go.
//
// Modes
//
//	asm   -in cases.jsonl -out results.jsonl [-start N]
//	      every case = {"id":..,"srcs":[text,...],"prefill":hex?,"reuse":bool?}
//	      the sources of one case are assembled one after another IN THIS PROCESS
//	      (a "history"); each into a fresh destination file that may be pre-filled.
//	ast   -in cases.jsonl -out results.jsonl     parse only, dump the AST as an s-expression
//	dump  -out tables.json                        translator input: tables after all init()s
package main

import (
	"bufio"
	"bytes"
	"encoding/hex"
	"encoding/json"
	"flag"
	"fmt"
	"io"
	"log"
	"os"
	"path/filepath"
	"regexp"
	"runtime/debug"
	"sort"
	"strings"
	"time"

	"github.com/HobbyOSs/gosk/internal/ast"
	"github.com/HobbyOSs/gosk/internal/codegen"
	"github.com/HobbyOSs/gosk/internal/frontend"
	"github.com/HobbyOSs/gosk/internal/gen"
	"github.com/HobbyOSs/gosk/internal/pass1"
	"github.com/HobbyOSs/gosk/pkg/asmdb"
	"github.com/HobbyOSs/gosk/pkg/cpu"
	"github.com/HobbyOSs/gosk/pkg/ng_operand"
	"github.com/HobbyOSs/gosk/pkg/ocode"
	"github.com/comail/colog"
)

type Case struct {
	ID      string   `json:"id"`
	Srcs    []string `json:"srcs"`
	Prefill string   `json:"prefill,omitempty"` // hex bytes written to the destination before each call
	Reuse   bool     `json:"reuse,omitempty"`   // parse srcs[0] once and assemble that same tree len(srcs) times
	SrcsHex []string `json:"srcs_hex,omitempty"` // alternative to srcs for arbitrary byte strings
}

type CallResult struct {
	Out      string            `json:"out"`                // hex of the destination file after the call
	ParseErr string            `json:"parse_err,omitempty"` // non-empty: gen.Parse failed (CLI would exit 255)
	Panic    string            `json:"panic,omitempty"`
	Diag     bool              `json:"diag"`  // error-level diagnostic observed (see classify)
	Levels   map[string]int    `json:"levels"`
	DiagMsgs []string          `json:"diag_msgs,omitempty"`
	Stdout   string            `json:"stdout,omitempty"`
	LOC      int32             `json:"loc"`
	Sym      map[string]int32  `json:"sym,omitempty"`
	Globals  []string          `json:"globals,omitempty"`
	Ms       float64           `json:"ms"`
}

type Result struct {
	ID    string       `json:"id"`
	Calls []CallResult `json:"calls"`
}

var lineRe = regexp.MustCompile(`^\[\s*(\w+)\s*\]\s+(?:\S+:\d+:\s)?(.*)$`)

// classify: a "diagnostic" in the sense of property C07 is a log line at colog level
// error/alert, or any line whose message starts with Error/error (the handlers print
// `log.Printf("Error: ...")`, which colog shows at info level), or a `GOSK :` line on stdout.
func classify(logText, stdout string) (bool, map[string]int, []string) {
	levels := map[string]int{}
	var msgs []string
	diag := false
	for _, ln := range strings.Split(logText, "\n") {
		if ln == "" {
			continue
		}
		m := lineRe.FindStringSubmatch(ln)
		if m == nil {
			levels["raw"]++
			continue
		}
		lv, msg := m[1], m[2]
		levels[lv]++
		if lv == "error" || lv == "alert" || strings.HasPrefix(msg, "Error") || strings.HasPrefix(msg, "error") {
			diag = true
			if len(msgs) < 4 {
				if len(msg) > 160 {
					msg = msg[:160]
				}
				msgs = append(msgs, msg)
			}
		}
	}
	if strings.Contains(stdout, "GOSK :") {
		diag = true
		msgs = append(msgs, "stdout: "+strings.TrimSpace(stdout))
	}
	return diag, levels, msgs
}

func setUpColog(w io.Writer) {
	colog.Register()
	colog.SetDefaultLevel(colog.LInfo)
	colog.SetMinLevel(colog.LInfo)
	colog.SetFlags(log.Lshortfile)
	colog.SetFormatter(&colog.StdFormatter{Colors: false})
	colog.SetOutput(w)
}

func captureStdout(f func()) string {
	old := os.Stdout
	r, w, err := os.Pipe()
	if err != nil {
		f()
		return ""
	}
	os.Stdout = w
	done := make(chan string)
	go func() {
		var b bytes.Buffer
		io.Copy(&b, r)
		done <- b.String()
	}()
	func() {
		defer func() {
			os.Stdout = old
			w.Close()
		}()
		f()
	}()
	return <-done
}

func assembleOne(tree any, src []byte, dst string, prefill []byte, logBuf *bytes.Buffer) (cr CallResult) {
	logBuf.Reset()
	t0 := time.Now()
	if prefill != nil {
		os.WriteFile(dst, prefill, 0666)
	} else {
		os.Remove(dst)
	}
	var p1 *pass1.Pass1
	stdout := captureStdout(func() {
		defer func() {
			if r := recover(); r != nil {
				cr.Panic = fmt.Sprintf("%v", r)
				st := string(debug.Stack())
				// keep the innermost gosk frame for localisation
				for _, ln := range strings.Split(st, "\n") {
					if strings.Contains(ln, "HobbyOSs/gosk/") && !strings.Contains(ln, "goskverif") {
						cr.Panic += " @ " + strings.TrimSpace(ln)
						break
					}
				}
			}
		}()
		if tree == nil {
			var err error
			tree, err = gen.Parse("", src, gen.Entrypoint("Program"))
			if err != nil {
				msg := err.Error()
				if len(msg) > 200 {
					msg = msg[:200]
				}
				cr.ParseErr = msg
				return
			}
		}
		p1, _ = frontend.Exec(tree, dst)
	})
	cr.Ms = float64(time.Since(t0).Microseconds()) / 1000.0
	cr.Stdout = stdout
	if len(cr.Stdout) > 300 {
		cr.Stdout = cr.Stdout[:300]
	}
	cr.Diag, cr.Levels, cr.DiagMsgs = classify(logBuf.String(), stdout)
	if b, err := os.ReadFile(dst); err == nil {
		cr.Out = hex.EncodeToString(b)
	} else {
		cr.Out = "!nofile"
	}
	if p1 != nil {
		cr.LOC = p1.LOC
		if len(p1.SymTable) <= 64 {
			cr.Sym = p1.SymTable
		}
		cr.Globals = p1.GlobalSymbolList
	}
	return
}

func runAsm(in, out string, start int, workdir string) {
	f, err := os.Open(in)
	if err != nil {
		log.Fatal(err)
	}
	defer f.Close()
	of, err := os.OpenFile(out, os.O_WRONLY|os.O_CREATE|os.O_APPEND, 0666)
	if err != nil {
		log.Fatal(err)
	}
	defer of.Close()
	var logBuf bytes.Buffer
	setUpColog(&logBuf)
	sc := bufio.NewScanner(f)
	sc.Buffer(make([]byte, 1<<20), 1<<28)
	dst := filepath.Join(workdir, fmt.Sprintf("dst-%d.bin", os.Getpid()))
	defer os.Remove(dst)
	n := -1
	enc := json.NewEncoder(of)
	for sc.Scan() {
		n++
		if n < start {
			continue
		}
		var c Case
		if err := json.Unmarshal(sc.Bytes(), &c); err != nil {
			log.Fatalf("bad case line %d: %v", n, err)
		}
		// progress marker so that the orchestrator knows which case killed the process
		fmt.Fprintf(os.Stderr, "@@BEGIN %d %s\n", n, c.ID)
		res := Result{ID: c.ID}
		var prefill []byte
		if c.Prefill != "" {
			prefill, _ = hex.DecodeString(c.Prefill)
		}
		srcs := make([][]byte, 0)
		for _, s := range c.Srcs {
			srcs = append(srcs, []byte(s))
		}
		for _, s := range c.SrcsHex {
			b, _ := hex.DecodeString(s)
			srcs = append(srcs, b)
		}
		var shared any
		if c.Reuse && len(srcs) > 0 {
			t, err := gen.Parse("", srcs[0], gen.Entrypoint("Program"))
			if err == nil {
				shared = t
			}
		}
		for _, s := range srcs {
			res.Calls = append(res.Calls, assembleOne(shared, s, dst, prefill, &logBuf))
		}
		enc.Encode(res)
	}
}

// ---------------------------------------------------------------- AST dump

func sexpFactor(f ast.Factor) string {
	switch x := f.(type) {
	case *ast.NumberFactor:
		return fmt.Sprintf("(num %d)", x.Value)
	case *ast.HexFactor:
		return fmt.Sprintf("(hex %q)", x.Value)
	case *ast.IdentFactor:
		return fmt.Sprintf("(id %q)", x.Value)
	case *ast.StringFactor:
		return fmt.Sprintf("(str %s)", hex.EncodeToString([]byte(x.Value)))
	case *ast.CharFactor:
		return fmt.Sprintf("(chr %s)", hex.EncodeToString([]byte(x.Value)))
	case nil:
		return "(nilfactor)"
	}
	return fmt.Sprintf("(factor? %T)", f)
}

func sexpExp(e ast.Exp) string {
	switch x := e.(type) {
	case *ast.ImmExp:
		return sexpFactor(x.Factor)
	case *ast.NumberExp:
		return fmt.Sprintf("(numexp %d)", x.Value)
	case *ast.AddExp:
		var b strings.Builder
		b.WriteString("(add " + sexpExp(x.HeadExp))
		for i, op := range x.Operators {
			b.WriteString(" " + op + " " + sexpExp(x.TailExps[i]))
		}
		b.WriteString(")")
		return b.String()
	case *ast.MultExp:
		var b strings.Builder
		b.WriteString("(mul " + sexpExp(x.HeadExp))
		for i, op := range x.Operators {
			b.WriteString(" " + op + " " + sexpExp(x.TailExps[i]))
		}
		b.WriteString(")")
		return b.String()
	case *ast.MemoryAddrExp:
		r := "-"
		if x.Right != nil {
			r = sexpExp(x.Right)
		}
		return fmt.Sprintf("(mem %q %q %s %s)", string(x.DataType), string(x.JumpType), sexpExp(x.Left), r)
	case *ast.SegmentExp:
		r := "-"
		if x.Right != nil {
			r = sexpExp(x.Right)
		}
		return fmt.Sprintf("(seg %q %s %s)", string(x.DataType), sexpExp(x.Left), r)
	case nil:
		return "(nilexp)"
	}
	return fmt.Sprintf("(exp? %T)", e)
}

func sexpStmt(s ast.Statement) string {
	switch x := s.(type) {
	case *ast.LabelStmt:
		return fmt.Sprintf("(label %q)", x.Label.Value)
	case *ast.DeclareStmt:
		return fmt.Sprintf("(equ %q %s)", x.Id.Value, sexpExp(x.Value))
	case *ast.ExportSymStmt:
		var n []string
		for _, f := range x.Symbols {
			n = append(n, fmt.Sprintf("%q", f.Value))
		}
		return "(global " + strings.Join(n, " ") + ")"
	case *ast.ExternSymStmt:
		var n []string
		for _, f := range x.Symbols {
			n = append(n, fmt.Sprintf("%q", f.Value))
		}
		return "(extern " + strings.Join(n, " ") + ")"
	case *ast.ConfigStmt:
		return fmt.Sprintf("(config %q %s)", string(x.ConfigType), sexpFactor(x.Factor))
	case *ast.MnemonicStmt:
		var n []string
		for _, e := range x.Operands {
			n = append(n, sexpExp(e))
		}
		return fmt.Sprintf("(mn %q %s)", x.Opcode.Value, strings.Join(n, " "))
	case *ast.OpcodeStmt:
		return fmt.Sprintf("(op %q)", x.Opcode.Value)
	}
	return fmt.Sprintf("(stmt? %T)", s)
}

func runAst(in, out string) {
	f, err := os.Open(in)
	if err != nil {
		log.Fatal(err)
	}
	defer f.Close()
	of, err := os.Create(out)
	if err != nil {
		log.Fatal(err)
	}
	defer of.Close()
	sc := bufio.NewScanner(f)
	sc.Buffer(make([]byte, 1<<20), 1<<28)
	enc := json.NewEncoder(of)
	for sc.Scan() {
		var c Case
		if err := json.Unmarshal(sc.Bytes(), &c); err != nil {
			log.Fatal(err)
		}
		type R struct {
			ID   string   `json:"id"`
			Err  string   `json:"err,omitempty"`
			Sexp []string `json:"sexp"`
		}
		r := R{ID: c.ID}
		src := []byte{}
		if len(c.Srcs) > 0 {
			src = []byte(c.Srcs[0])
		} else if len(c.SrcsHex) > 0 {
			src, _ = hex.DecodeString(c.SrcsHex[0])
		}
		func() {
			defer func() {
				if rr := recover(); rr != nil {
					r.Err = fmt.Sprintf("panic: %v", rr)
				}
			}()
			t, err := gen.Parse("", src, gen.Entrypoint("Program"))
			if err != nil {
				r.Err = "parse"
				return
			}
			p, ok := t.(*ast.Program)
			if !ok {
				r.Err = fmt.Sprintf("type %T", t)
				return
			}
			for _, s := range p.Statements {
				r.Sexp = append(r.Sexp, sexpStmt(s))
			}
		}()
		enc.Encode(r)
	}
}

// ---------------------------------------------------------------- table dump (translator input)

func runDump(out string) {
	type D struct {
		NoParam   map[string]int      `json:"noparam"`
		Pass1Keys []string            `json:"pass1_keys"`
		Instr     map[string]any      `json:"instr"`
		Kinds     []string            `json:"ocode_kinds"`
	}
	d := D{NoParam: codegen.VerifOpcodeMap(), Pass1Keys: pass1.VerifHandlerKeys(), Instr: map[string]any{}, Kinds: ocode.OcodeKindStrings()}
	sort.Strings(d.Pass1Keys)
	want := []string{"MOV", "ADD", "OR", "ADC", "SBB", "AND", "SUB", "XOR", "CMP", "NOT", "SHL", "SHR", "SAR", "IMUL", "PUSH", "POP", "IN", "OUT"}
	for _, m := range want {
		ins, err := asmdb.GetInstructionByOpcode(m)
		if err == nil {
			d.Instr[m] = ins
		}
	}
	b, _ := json.MarshalIndent(d, "", " ")
	os.WriteFile(out, b, 0666)
}

// runRows tabulates asmdb.FindEncoding over the finite skeleton of operand classes.  The result of
// FindEncoding depends only on (mnemonic, resolved operand types, "an operand is spelled AL/AX/EAX",
// indirect memory, immediate fits in int8, matchAnyImm); two probes with the same key and different
// rows abort the translation (fail closed).
func runRows(out string) {
	regs := []string{"AL", "CL", "AX", "CX", "EAX", "ECX", "DS", "CR0", "DX"}
	imms := []string{"5", "-5", "200", "-200", "1000", "-1000", "40000", "-40000", "100000", "-100000", "1", "3000000000", "-3000000000"}
	mems := []string{}
	for _, dt := range []string{"", "BYTE ", "WORD ", "DWORD "} {
		for _, b := range []string{"[ 4660 ]", "[ BX ]", "[ EBX ]", "[ BX + 4 ]", "[ EBX + ECX * 2 + 400 ]"} {
			mems = append(mems, dt+b)
		}
	}
	ops := append(append(append([]string{}, regs...), imms...), mems...)
	ops = append(ops, "lbl")
	mns := []string{"MOV", "ADD", "OR", "ADC", "SBB", "AND", "SUB", "XOR", "CMP", "NOT", "SHL", "SHR", "SAR", "IMUL", "PUSH", "POP", "IN", "OUT", "INC", "DEC", "NEG", "MUL", "DIV", "IDIV"}
	type Row struct {
		Key  string `json:"key"`
		Mn   string `json:"mn"`
		Types []string `json:"types"`
		Acc, Fits8, Ind, AnyImm bool
		Found bool `json:"found"`
		Opcode string `json:"opcode"`
		Addend string `json:"addend"`
		HasModRM bool `json:"has_modrm"`
		Mode, Rm, Reg string
		ImmSize int `json:"imm_size"`
		ImmVal string `json:"imm_val"`
		BaseSize int `json:"base_size"`
		Probe string `json:"probe"`
	}
	seen := map[string]Row{}
	probes := map[string]int{}
	var rows []Row
	db := asmdb.NewInstructionDB()
	var logBuf bytes.Buffer
	setUpColog(&logBuf)
	probe := func(mn string, list []string, mode cpu.BitMode, force bool) {
		text := strings.Join(list, ",")
		o, err := ng_operand.FromString(text)
		if err != nil {
			return
		}
		o = o.WithBitMode(mode).WithForceRelAsImm(force)
		types := []string{}
		for _, t := range o.OperandTypes() {
			types = append(types, string(t))
		}
		acc := false
		for _, sx := range o.InternalStrings() {
			u := strings.ToUpper(sx)
			if u == "AL" || u == "AX" || u == "EAX" || u == "RAX" {
				acc = true
			}
		}
		for _, any := range []bool{true, false} {
			r := Row{Mn: mn, Types: types, Acc: acc, Fits8: o.ImmediateValueFitsInSigned8Bits(), Ind: o.IsIndirectMemory(), AnyImm: any, Probe: text}
			r.Key = fmt.Sprintf("%s|%s|%v|%v|%v|%v", mn, strings.Join(types, ","), r.Acc, r.Fits8, r.Ind, any)
			if probes[r.Key] >= 2 { // two independent probes per key are enough to exercise the fail-closed rule
				continue
			}
			probes[r.Key]++
			e, err := db.FindEncoding(mn, o, any)
			logBuf.Reset()
			if err == nil && e != nil {
				r.Found = true
				r.Opcode = e.Opcode.Byte
				if e.Opcode.Addend != nil {
					r.Addend = *e.Opcode.Addend
				}
				if e.ModRM != nil {
					r.HasModRM = true
					r.Mode, r.Rm, r.Reg = e.ModRM.Mode, e.ModRM.Rm, e.ModRM.Reg
				}
				if e.Immediate != nil {
					r.ImmSize, r.ImmVal = e.Immediate.Size, e.Immediate.Value
				}
				r.BaseSize = e.GetOutputSize(nil)
				logBuf.Reset()
			}
			if old, ok := seen[r.Key]; ok {
				a, b := old, r
				a.Probe, b.Probe = "", ""
				if fmt.Sprintf("%v", a) != fmt.Sprintf("%v", b) {
					fmt.Fprintf(os.Stderr, "translator cannot read FindEncoding: key %s gives different rows for probes %q and %q\n", r.Key, old.Probe, r.Probe)
					os.Exit(3)
				}
				continue
			}
			seen[r.Key] = r
			rows = append(rows, r)
		}
	}
	for _, mn := range mns {
		for _, mode := range []cpu.BitMode{cpu.MODE_16BIT, cpu.MODE_32BIT} {
			force := mn == "MOV"
			for _, a := range ops {
				probe(mn, []string{a}, mode, force)
				for _, b := range ops {
					probe(mn, []string{a, b}, mode, force)
					if mn == "IMUL" && !strings.ContainsAny(a[:1], "0123456789-l") && !strings.ContainsAny(b[:1], "0123456789-l") {
						for _, c := range []string{"5", "-5", "1000", "100000"} {
							probe(mn, []string{a, b, c}, mode, force)
						}
					}
				}
			}
		}
	}
	b, _ := json.Marshal(rows)
	os.WriteFile(out, b, 0666)
}

func main() {
	in := flag.String("in", "", "input jsonl")
	out := flag.String("out", "", "output")
	start := flag.Int("start", 0, "skip this many cases")
	work := flag.String("work", os.TempDir(), "scratch dir for destination files")
	flag.Parse()
	if flag.NArg() < 1 {
		fmt.Fprintln(os.Stderr, "usage: goskverif [flags] asm|ast|dump")
		os.Exit(2)
	}
	switch flag.Arg(0) {
	case "asm":
		runAsm(*in, *out, *start, *work)
	case "ast":
		runAst(*in, *out)
	case "dump":
		runDump(*out)
	case "rows":
		runRows(*out)
	default:
		os.Exit(2)
	}
}
